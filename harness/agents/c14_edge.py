#!/venv/bin/python
"""C14 oracle stream (third round): VALUES and PATHS the other C14 generators never produce.

    PYTHONPATH=/verif /venv/bin/python /verif/harness/agents/c14_edge.py [--seed 0] [--n 800] [--thorough]

Recommended: quick n=2000 (6000 pipeline runs, 5-10 s), thorough n=10000 (every applicable pipeline, ~134 000 runs, ~80 s).

Importable: `run(seed, n, driver, thorough) -> dict`, `replay(case, driver) -> dict` (AGENT_CONVENTIONS.md, "Diff-script
protocol").  Oracles only (`"corr": {}`): the Lean driver is not used.

What C14 says: a program is never accepted with a qubit index outside 0..size-1 of the register or alias it indexes
(literal, let value, overriding value, macro substitution), an alias slice reaching outside its source, an alias or
index applied to something that is not a register, an undefined or doubly defined identifier, a call to an unknown gate
when a native gate set is in force, or a call with the wrong number or kind of arguments; such programs are rejected WITH
JaqalError AT THE LATEST WHEN THE OFFENDING VALUE BECOMES KNOWN (parsing, let substitution, macro expansion, emulation) and
never run on a different qubit or gate.

How this script states it.  A program is a small JSON tree (header: lets / register / maps; top: macros and statements;
an override dictionary).  An INDEPENDENT reference evaluator (`Ref`, below; it shares no code with the library) decides,
for each KNOWLEDGE LEVEL K in {}, {let}, {macro}, {let, macro}, whether a reference that cannot be honoured is already
determined: without `let` the values of let constants are opaque (their being numbers is known), without `macro` macro
parameters are opaque (calls are checked for arity only).  With full knowledge it also yields the fundamental qubit of
every native gate call and the basis state the program ends in (all unitaries used are permutations / phases).
The program is rendered as Jaqal text, as an S-expression of its own making and as CircuitBuilder calls, and sent through
PIPELINES of library stages; each stage adds knowledge:

    parse {}            fill_in_let(c, ov) +let        expand_macros(c) +macro       run_jaqal_circuit  (everything)
    parse_jaqal_string(expand_let=True / expand_let_map=True, override_dict=ov)  {let}
    parse_jaqal_string(expand_macro=True) {macro}       parse_jaqal_string(all three) {let, macro}
    circuitbuilder.build(<own S-expression>) {}         CircuitBuilder(...).build() {}      build(parse_to_sexpression) {}

Oracles (per program and pipeline)
  invalid_reference_rejected        : a program the reference finds invalid (full knowledge) is refused at some stage.
  rejected_when_known               : ... by the end of the first stage whose knowledge level determines the defect (an
                                      error never moves to a later stage).
  rejection_is_jaqalerror           : ... and the stage that refuses it raises JaqalError — the class is checked.
  accepted_runs_on_reference_qubits : a program the reference finds valid, IF the library accepts it, executes (loops
                                      unrolled) exactly the reference's native calls on the reference's fundamental qubits
                                      and classical values, and the emulator ends in the reference's basis state (a
                                      refusal of a valid program is tabulated, never reported: not a matter of C14).
  terminates                        : every guarded call returns within `harness.timeouts.limit()` seconds.
Programs whose status the property does not fix (empty slice with bounds outside, slice step 0, a let-dependent defect
inside a macro that is never called, ...) are marked `ambiguous` by the reference and only feed `terminates`.

Pipelines "O" / "OK" are the object-level route: Constant / Register / NamedQubit built with the core constructors,
`register[index]`, and top-level native calls made by calling the gate definitions positionally / by keyword.

Streams (each stratified over its dimensions; `n` = number of programs, each run through 3 (quick) / all applicable
(thorough: up to 14) pipelines)
  refs    : index source (literal, let, override, qubit alias, macro argument: literal / let / override / forwarded
            through a second macro / together with a register parameter / literal index on a register parameter) x alias
            chain (0-3 of: whole alias, slice with forward / strided / reversed bounds, parts omitted) x source of the
            register size and of every bound (literal, let, override that shrinks / grows / repeats the value as
            float / numpy scalar / bool) x index value (0, size-1, size, size+1, -1, a value between the overridden and
            the declared size, 2**53+1, 2**63, 2**64+1, 65535/65536, 10**30, 0.0, -0.0, float(size-1), float(size), x.5,
            last-ulp neighbours of an integer, 1e300, 1e-300) x wrapper (none, {}, <>, loop with count 0/1/2/3 given by a
            literal / let / override to 0 / macro parameter); slices reaching outside by a literal / let / override;
            "late override": a program that is fine as declared gets ONE overriding value (0, 0.0, -0.0, False, numpy 0,
            1, True, -1, 2.5, declared +-1, huge) for a size, bound, index or loop count.
  nonreg  : an index or alias applied to something that is not a register: let, qubit alias, q[i]; by macro
            substitution: let, overridden let, qubit, qubit alias, integer / float / negative / huge literal, 0 and 0.0
            — directly, forwarded through a second macro, inside loop + parallel block; the valid register / whole
            alias / slice alias arguments as controls.
  names   : undefined identifier in every position (gate argument, indexed register, index, map source, slice bound,
            map index, register size, loop count, macro body, macro call argument, use before definition); every pair
            of definitions of one name (let, register, map, qubit alias, macro, native gate), also word for word.
  calls   : arity -1 / +1 / none at all, for native gates and macros; wrong kinds per position by literal, let, override
            (an INT parameter whose let is overridden to 2.5), macro substitution; unknown gate, macro used before its
            definition, macro calling itself, wrong case.
  big     : registers of 65535 / 65536 / 70000 qubits, 4299/4300/4301-digit literals (quick: one or two per run).

GENUINE FINDING on the unchanged library (kept OUT of the default stream so that the check stays clean; set
`NONFINITE_OVERRIDES = True` or C14_EDGE_NONFINITE=1 to generate it): an override dictionary that gives an index / a
register size the value float('nan') or float('inf') is refused by fill_in_let with ValueError / OverflowError
("cannot convert float NaN to integer") instead of JaqalError; expand_macros does the same with float('inf') as a macro
argument used as an index (S-expression only: the lexer has no spelling for it):
    parse_jaqal_string("let i 0\\nregister q[2]\\nprepare_all\\nX q[i]\\nmeasure_all\\n", inject_pulses=GATES,
                       autoload_pulses=False, expand_let=True, override_dict={"i": float("nan")})
SECOND FINDING, same treatment (`HUGE_INT_OBJECTS = True` or C14_EDGE_HUGE_INT_OBJECTS=1): an integer of more than 4300
digits as a gate argument / index in an S-EXPRESSION (the lexer refuses such a literal with JaqalError, so only the object
level API gets there) makes circuitbuilder.build raise ValueError (GateMemoizer._make_hashable calls repr on it):
    build(["circuit", ["register", "q", 3], ["gate", "X", ("array_item", "q", 10**4300)]], inject_pulses=GATES)
"""
import argparse
import collections
import json
import os
import random
import signal
import sys

sys.path.insert(0, os.path.dirname(os.path.dirname(os.path.dirname(os.path.abspath(__file__)))))

from harness import timeouts as _T  # noqa: E402

DEFAULT_DRIVER = "/verif/lean/.lake/build/bin/jaqal-model"
NONFINITE_OVERRIDES = os.environ.get("C14_EDGE_NONFINITE", "") == "1"
HUGE_INT_OBJECTS = os.environ.get("C14_EDGE_HUGE_INT_OBJECTS", "") == "1"

# ---------------------------------------------------------------------------------------------------------------
# library access (lazy)

_LIB = None


def lib():
    global _LIB
    if _LIB is None:
        os.environ.setdefault("JAQALPAQ_RUN_EMULATOR", "1")
        import warnings

        warnings.filterwarnings("ignore")
        import numpy
        from harness.gates import GATES
        from jaqalpaq.core import CircuitBuilder
        from jaqalpaq.core.circuitbuilder import build as core_build, SequentialBlockBuilder, ParallelBlockBuilder
        from jaqalpaq.core.gate import GateStatement
        from jaqalpaq.core.block import BlockStatement, LoopStatement
        from jaqalpaq.core.register import Register, NamedQubit
        from jaqalpaq.core.constant import Constant
        from jaqalpaq.core.algorithm import expand_macros, fill_in_let
        from jaqalpaq.parser import parse_jaqal_string
        from jaqalpaq.parser.parser import parse_to_sexpression
        from jaqalpaq.emulator import run_jaqal_circuit
        from jaqalpaq.error import JaqalError

        _LIB = dict(locals())
    return _LIB


class _Hang(Exception):
    pass


def _on_alarm(*_a):
    raise _Hang()


def guarded(f):
    """-> ("ok", value) | ("jaqal", message) | ("other", class name, message) | ("hang",)"""
    L = lib()
    try:
        old = signal.signal(signal.SIGALRM, _on_alarm)
    except ValueError:  # not the main thread
        old = None
    if old is not None:
        signal.alarm(int(_T.limit()))
    try:
        return ("ok", f())
    except _Hang:
        _T.saw_hang()
        return ("hang",)
    except L["JaqalError"] as e:
        return ("jaqal", str(e)[:160])
    except Exception as e:  # noqa: BLE001 — any other class is reported by an oracle
        return ("other", type(e).__name__, str(e)[:160])
    finally:
        if old is not None:
            signal.alarm(0)
            signal.signal(signal.SIGALRM, old)


# ---------------------------------------------------------------------------------------------------------------
# numbers in JSON.  int -> JSON int (any size); float -> {"f": repr}; override values may also be
# {"npi": int} (numpy.int64), {"npf": repr} (numpy.float64), {"b": bool}


_CH = 4000


def big_str(v):
    """decimal digits of an int of any size (str() refuses more than 4300 digits)"""
    if abs(v) < 10**_CH:
        return str(v)
    sign, v = ("-" if v < 0 else ""), abs(v)
    parts = []
    while v:
        v, r = divmod(v, 10**_CH)
        parts.append(str(r).rjust(_CH, "0") if v else str(r))
    return sign + "".join(reversed(parts))


def big_int(s):
    sign = -1 if s.startswith("-") else 1
    s = s.lstrip("+-")
    v = 0
    for k in range(0, len(s), _CH):
        chunk = s[k:k + _CH]
        v = v * 10**len(chunk) + int(chunk)
    return sign * v


def sh(v):
    """short text of a value for messages"""
    if isinstance(v, int) and not isinstance(v, bool) and v.bit_length() > 300:
        return f"<int of {v.bit_length()} bits>"
    return repr(v)


def enc(x):
    if isinstance(x, bool):
        return {"b": x}
    if isinstance(x, int):
        return x if x.bit_length() < 12000 else {"d": big_str(x)}
    return {"f": repr(float(x))}


def dec(j, real=False):
    """JSON number -> Python value; `real`: make the numpy scalars the library is handed (else plain Python)"""
    if isinstance(j, dict):
        if "f" in j:
            return float(j["f"])
        if "d" in j:
            return big_int(j["d"])
        if "b" in j:
            return bool(j["b"])
        if "npi" in j:
            return lib()["numpy"].int64(j["npi"]) if real else int(j["npi"])
        if "npf" in j:
            return lib()["numpy"].float64(float(j["npf"])) if real else float(j["npf"])
        raise ValueError(j)
    return j


def is_intval(v):
    if isinstance(v, (bool, int)):
        return True
    return isinstance(v, float) and v == v and v not in (float("inf"), float("-inf")) and v.is_integer()


def fmt_num(v):
    """Jaqal text of a number, None when the lexer has no spelling for it"""
    if isinstance(v, bool):
        return None
    if isinstance(v, int):
        return big_str(v)
    if v != v or v in (float("inf"), float("-inf")):
        return None
    r = repr(v)
    if "e" in r:
        m, e = r.split("e")
        if "." not in m:
            m += ".0"
        r = m + "e" + e
    return r


# ---------------------------------------------------------------------------------------------------------------
# the reference evaluator — independent of the library

SIG = {"X": "q", "Z": "q", "N": "q", "P": "qi", "PF": "fq", "CX": "qq", "SWAP": "qq", "CZ": "qq", "CCX": "qqq",
       "ROT3": "qqq", "prepare_all": "", "measure_all": ""}

BAD = ("bad",)          # something already reported as a defect
NUMU = ("numu",)        # a number whose value is not known at this level (let constant)
REGU = ("regu",)        # a register whose geometry is not known at this level
QUBITU = ("qubitu",)    # a qubit not known at this level
OPAQUE = ("opaque",)    # a macro parameter (macros not expanded at this level)


def range_len(start, stop, step):
    if step > 0:
        return max(0, -((start - stop) // step))
    return max(0, -((stop - start) // -step))


class Ref:
    """Evaluate a program at knowledge level (klet, kmac).  After `run()`:
    defects: [str], ambiguous: [str], trace: nested list of ("g", name, [values]) / ("loop", count value, [...]),
    macro_defects: {macro: [str]} (defects found checking the definition alone), expanded: set of macro names."""

    def __init__(self, prog, klet, kmac):
        self.prog, self.klet, self.kmac = prog, klet, kmac
        self.defects, self.ambiguous, self.trace = [], [], []
        self.macro_defects, self.expanded = {}, set()
        self.env = {}
        self.macros = {}
        self._sink = self.defects

    def defect(self, what):
        self._sink.append(what)
        return BAD

    # ---- header
    def define(self, name, val):
        if name in self.env:
            self.defect(f"duplicate:{name}")
            return
        self.env[name] = val

    def ev(self, e, env):
        if e is None:
            return None
        if "lit" in e:
            return ("num", dec(e["lit"]))
        if e["id"] not in env:
            return self.defect(f"undefined:{e['id']}")
        return env[e["id"]]

    def run(self):
        ov = {name: dec(v) for name, v in self.prog["ov"]}
        for h in self.prog["header"]:
            if h["k"] == "let":
                v = ov.get(h["name"], dec(h["v"]))
                self.define(h["name"], ("num", v) if self.klet else NUMU)
            elif h["k"] == "reg":
                self.define(h["name"], self.register(h))
            else:
                self.define(h["name"], self.alias(h))
        gate_ns = set(SIG)
        for t in self.prog["top"]:
            if t["k"] == "macro":
                if t["name"] in gate_ns:
                    self.defect(f"duplicate_gate:{t['name']}")
                    continue
                env = dict(self.env)
                for p in t["params"]:
                    env[p] = OPAQUE
                self._sink = self.macro_defects.setdefault(t["name"], [])
                visible = dict(self.macros)
                for s in t["body"]:
                    self.stmt(s, env, visible, [], False)
                self._sink = self.defects
                self.defects.extend(self.macro_defects[t["name"]])
                self.macros[t["name"]] = (t["params"], t["body"], dict(self.env), visible)
                gate_ns.add(t["name"])
            else:
                self.stmt(t, self.env, self.macros, self.trace, self.kmac)
        return self

    def register(self, h):
        v = self.ev(h["size"], self.env)
        if v is BAD or v == NUMU:
            return REGU
        if v[0] != "num":
            self.ambiguous.append("register size is not a number")
            return REGU
        if not is_intval(v[1]) or int(v[1]) < 1:
            # every program indexes its register: no index of a register without a valid size can be honoured
            self.defect(f"bad_size:{sh(v[1])}")
            return REGU
        return ("reg", h["name"], 0, 1, int(v[1]))

    def alias(self, h):
        if h["src"] not in self.env:
            return self.defect(f"undefined:{h['src']}")
        src = self.env[h["src"]]
        if src[0] not in ("reg", "regu", "bad"):
            return self.defect(f"alias_of_nonregister:{h['src']}")
        if h["form"] == "whole":
            return src
        if h["form"] == "index":
            return self.index_into(src, self.ev(h["index"], self.env))
        vals = []
        for key in ("start", "stop", "step"):
            v = self.ev(h[key], self.env)
            if v is None:
                vals.append(None)
            elif v is BAD:
                return REGU
            elif v == NUMU:
                vals.append(NUMU)
            elif v[0] != "num" or not is_intval(v[1]):
                self.ambiguous.append("slice bound is not an integer")
                return REGU
            else:
                vals.append(int(v[1]))
        if src[0] != "reg":
            return REGU
        _, fname, base, stride, count = src
        start = 0 if vals[0] is None else vals[0]
        stop = count if vals[1] is None else vals[1]
        step = 1 if vals[2] is None else vals[2]
        if NUMU in (start, stop, step):
            return REGU
        if step == 0:
            self.ambiguous.append("slice step 0")
            return REGU
        n = range_len(start, stop, step)
        if n == 0:
            if start < 0 or start > count or stop > count or stop < -1:
                self.ambiguous.append("empty slice with bounds outside")
            return ("reg", fname, base + start * stride, stride * step, 0)
        first, last = start, start + (n - 1) * step
        if min(first, last) < 0 or max(first, last) >= count:
            self.defect(f"slice_outside:{h['name']}")
            return REGU
        if stop > count or stop < -1:
            self.ambiguous.append("slice elements inside but stop outside")
        return ("reg", fname, base + start * stride, stride * step, n)

    def index_into(self, reg, idx):
        if reg[0] not in ("reg", "regu", "bad", "opaque"):
            return self.defect("index_of_nonregister")
        if idx is BAD:
            return BAD
        if idx[0] == "num":
            if not is_intval(idx[1]):
                return self.defect(f"index_not_integer:{sh(idx[1])}")
        elif idx[0] not in ("numu", "opaque"):
            return self.defect("index_not_number")
        if reg[0] != "reg" or idx[0] != "num":
            return BAD if reg[0] == "bad" else QUBITU
        i = int(idx[1])
        if not 0 <= i < reg[4]:
            return self.defect(f"index_out_of_range:{sh(i)} of {reg[4]}")
        return ("qubit", reg[1], reg[2] + i * reg[3])

    # ---- statements
    def arg(self, a, env):
        if a["t"] == "num":
            return ("num", dec(a["v"]))
        if a["t"] == "id":
            if a["name"] not in env:
                return self.defect(f"undefined:{a['name']}")
            return env[a["name"]]
        if a["reg"] not in env:
            self.ev(a["idx"], env)
            return self.defect(f"undefined:{a['reg']}")
        return self.index_into(env[a["reg"]], self.ev(a["idx"], env))

    def stmt(self, s, env, macros, out, expand):
        k = s["k"]
        if k in ("seq", "par"):
            for x in s["body"]:
                self.stmt(x, env, macros, out, expand)
            return
        if k == "loop":
            c = self.ev(s["count"], env)
            if c is not BAD and c[0] == "num" and not (is_intval(c[1]) and c[1] >= 0):
                self.ambiguous.append("loop count not a natural number")
            if c is not BAD and c[0] not in ("num", "numu", "opaque"):
                self.ambiguous.append("loop count not a number")
            sub = []
            out.append(("loop", c, sub))
            for x in s["body"]:
                self.stmt(x, env, macros, sub, expand)
            return
        vals = [self.arg(a, env) for a in s["args"]]
        name = s["name"]
        if name in macros:
            params, body, denv, visible = macros[name]
            if len(params) != len(vals):
                self.defect(f"arity:{name}")
                return
            if expand:
                self.expanded.add(name)
                env2 = dict(denv)
                env2.update(zip(params, vals))
                for x in body:
                    self.stmt(x, env2, visible, out, True)
            return
        if name not in SIG:
            self.defect(f"unknown_gate:{name}")
            return
        sig = SIG[name]
        if len(sig) != len(vals):
            self.defect(f"arity:{name}")
            return
        for kind, v in zip(sig, vals):
            t = v[0]
            if t in ("bad", "opaque"):
                continue
            if kind == "q" and t not in ("qubit", "qubitu"):
                self.defect(f"kind:{name} wants a qubit")
            elif kind == "i" and (t not in ("num", "numu") or (t == "num" and not is_intval(v[1]))):
                self.defect(f"kind:{name} wants an integer")
            elif kind == "f" and t not in ("num", "numu"):
                self.defect(f"kind:{name} wants a number")
        out.append(("g", name, vals))


LEVELS = [(False, False), (True, False), (False, True), (True, True)]


def judge(prog):
    """-> {"invalid": {level: bool}, "defects": [...full level...], "ambiguous": [...], "flat": [...] | None, "state": int | None,
    "nq": int | None}"""
    refs = {lv: Ref(prog, *lv).run() for lv in LEVELS}
    full = refs[(True, True)]
    ambiguous = list(full.ambiguous)
    for lv in LEVELS:
        for a in refs[lv].ambiguous:
            if a not in ambiguous:
                ambiguous.append(a)
    for name, ds in full.macro_defects.items():
        if ds and name not in full.expanded and not refs[(False, False)].macro_defects.get(name):
            ambiguous.append(f"let-dependent defect in macro {name}, which is never called")
    out = {"invalid": {lv: bool(refs[lv].defects) for lv in LEVELS}, "defects": full.defects[:6], "ambiguous": ambiguous,
           "flat": None, "state": None, "nq": None}
    # knowledge only ever adds defects
    for lv in LEVELS:
        if refs[lv].defects and not full.defects:
            raise AssertionError(f"reference not monotone: {lv} {refs[lv].defects}")
    if full.defects or ambiguous:
        return out
    flat = []
    unrollable = [True]

    def walk(items):
        for it in items:
            if it[0] == "g":
                flat.append([it[1], [_flatval(v) for v in it[2]]])
            else:
                c = it[1]
                if c[0] != "num" or not is_intval(c[1]) or not 0 <= c[1] <= 64:
                    unrollable[0] = False
                    return
                for _ in range(int(c[1])):
                    walk(it[2])

    walk(full.trace)
    out["flat"] = flat if unrollable[0] and len(flat) < 5000 else None
    regs = [v for v in full.env.values() if v[0] == "reg" and v[2] == 0 and v[3] == 1]
    fund = {v[1]: v[4] for v in regs if v[1] in full.env and full.env[v[1]] == v}
    if len(fund) == 1:
        out["nq"] = list(fund.values())[0]
        if out["nq"] <= 8:
            out["state"] = _simulate(full.trace, out["nq"])
    return out


def _flatval(v):
    if v[0] == "qubit":
        return ["q", v[2]]
    if v[0] == "num":
        return ["n", enc(v[1]) if not isinstance(v[1], bool) else int(v[1])]
    return ["?", v[0]]


def _simulate(trace, nq):
    bits = [0] * nq
    ok = [True]

    def go(items):
        for it in items:
            if it[0] == "loop":
                c = it[1]
                if c[0] != "num" or not is_intval(c[1]) or not 0 <= c[1] <= 64:
                    ok[0] = False
                    return
                for _ in range(int(c[1])):
                    go(it[2])
                continue
            name, vals = it[1], it[2]
            qs = [v[2] for v in vals if v[0] == "qubit"]
            if len(qs) != SIG[name].count("q") or len(set(qs)) != len(qs):
                ok[0] = False
                return
            if name == "X":
                bits[qs[0]] ^= 1
            elif name == "CX":
                bits[qs[1]] ^= bits[qs[0]]
            elif name == "SWAP":
                bits[qs[0]], bits[qs[1]] = bits[qs[1]], bits[qs[0]]
            elif name == "CCX":
                bits[qs[2]] ^= bits[qs[0]] & bits[qs[1]]
            elif name == "ROT3":
                a, b, c = (bits[q] for q in qs)
                bits[qs[0]], bits[qs[1]], bits[qs[2]] = c, a, b
            # Z, CZ, P, PF: phases; N: no unitary; prepare_all / measure_all

    go(trace)
    if not ok[0]:
        return None
    return sum(b << q for q, b in enumerate(bits))


# ---------------------------------------------------------------------------------------------------------------
# renderings of a program: Jaqal text, S-expression, CircuitBuilder


class NoText(Exception):
    pass


def _t_expr(e):
    if "id" in e:
        return e["id"]
    v = dec(e["lit"])
    if not isinstance(v, int) or isinstance(v, bool):
        raise NoText("only integers can be written in this position")
    return big_str(v)


def _t_arg(a):
    if a["t"] == "id":
        return a["name"]
    if a["t"] == "num":
        s = fmt_num(dec(a["v"]))
        if s is None:
            raise NoText("number without a spelling")
        return s
    return f"{a['reg']}[{_t_expr(a['idx'])}]"


def _t_stmt(s, inside):
    """`inside`: "top" | "seq" | "par" — the grammar forbids a block directly inside a block of its own kind"""
    k = s["k"]
    if k == "gate":
        return " ".join([s["name"]] + [_t_arg(a) for a in s["args"]])
    if k == "loop":
        blk = {"k": "par" if s.get("par") else "seq", "body": s["body"]}
        if inside == "par":
            raise NoText("loop inside a parallel block")
        return f"loop {_t_expr(s['count'])} {_t_stmt(blk, 'loop')}"
    if k == inside:
        raise NoText("block nested in a block of its own kind")
    if k == "seq":
        return "{ " + " ; ".join(_t_stmt(x, "seq") for x in s["body"]) + " }"
    return "< " + " | ".join(_t_stmt(x, "par") for x in s["body"]) + " >"


def render_text(prog):
    out = []
    for h in prog["header"]:
        if h["k"] == "let":
            s = fmt_num(dec(h["v"]))
            if s is None:
                raise NoText("let value without a spelling")
            out.append(f"let {h['name']} {s}")
        elif h["k"] == "reg":
            out.append(f"register {h['name']}[{_t_expr(h['size'])}]")
        elif h["form"] == "whole":
            out.append(f"map {h['name']} {h['src']}")
        elif h["form"] == "index":
            out.append(f"map {h['name']} {h['src']}[{_t_expr(h['index'])}]")
        else:
            a = "" if h["start"] is None else _t_expr(h["start"])
            b = "" if h["stop"] is None else _t_expr(h["stop"])
            c = "" if h["step"] is None else ":" + _t_expr(h["step"])
            out.append(f"map {h['name']} {h['src']}[{a}:{b}{c}]")
    for t in prog["top"]:
        if t["k"] == "macro":
            blk = {"k": "par" if t.get("par") else "seq", "body": t["body"]}
            out.append(" ".join(["macro", t["name"]] + t["params"]) + " " + _t_stmt(blk, "macro"))
        else:
            out.append(_t_stmt(t, "top"))
    return "\n".join(out) + "\n"


def _x_expr(e):
    if e is None:
        return None
    return e["id"] if "id" in e else dec(e["lit"], real=True)


def _x_arg(a):
    if a["t"] == "id":
        return a["name"]
    if a["t"] == "num":
        return dec(a["v"], real=True)
    return ("array_item", a["reg"], _x_expr(a["idx"]))


def _x_stmt(s):
    k = s["k"]
    if k == "gate":
        return ["gate", s["name"]] + [_x_arg(a) for a in s["args"]]
    if k == "loop":
        return ["loop", _x_expr(s["count"]), ["parallel_block" if s.get("par") else "sequential_block"] + [_x_stmt(x) for x in s["body"]]]
    return ["parallel_block" if k == "par" else "sequential_block"] + [_x_stmt(x) for x in s["body"]]


def render_sx(prog):
    out = ["circuit"]
    for h in prog["header"]:
        if h["k"] == "let":
            out.append(["let", h["name"], dec(h["v"], real=True)])
        elif h["k"] == "reg":
            out.append(["register", h["name"], _x_expr(h["size"])])
        elif h["form"] == "whole":
            out.append(["map", h["name"], h["src"]])
        elif h["form"] == "index":
            out.append(["map", h["name"], h["src"], _x_expr(h["index"])])
        else:
            out.append(["map", h["name"], h["src"], _x_expr(h["start"]), _x_expr(h["stop"]), _x_expr(h["step"])])
    for t in prog["top"]:
        if t["k"] == "macro":
            out.append(["macro", t["name"]] + list(t["params"])
                       + [["parallel_block" if t.get("par") else "sequential_block"] + [_x_stmt(x) for x in t["body"]]])
        else:
            out.append(_x_stmt(t))
    return out


def build_with_circuitbuilder(prog):
    L = lib()
    cb = L["CircuitBuilder"](native_gates=L["GATES"])

    def fill(bb, stmts):
        for s in stmts:
            k = s["k"]
            if k == "gate":
                bb.gate(s["name"], *[_x_arg(a) for a in s["args"]])
            elif k == "loop":
                inner = (L["ParallelBlockBuilder"] if s.get("par") else L["SequentialBlockBuilder"])()
                fill(inner, s["body"])
                bb.loop(_x_expr(s["count"]), inner, unevaluated=True)
            else:
                fill(bb.block(parallel=(k == "par")), s["body"])

    for h in prog["header"]:
        if h["k"] == "let":
            cb.let(h["name"], dec(h["v"], real=True), unevaluated=True)
        elif h["k"] == "reg":
            cb.register(h["name"], _x_expr(h["size"]), unevaluated=True)
        elif h["form"] == "whole":
            cb.map(h["name"], h["src"], unevaluated=True)
        elif h["form"] == "index":
            cb.map(h["name"], h["src"], _x_expr(h["index"]), unevaluated=True)
        else:
            cb.map(h["name"], h["src"], slice(_x_expr(h["start"]), _x_expr(h["stop"]), _x_expr(h["step"])), unevaluated=True)
    for t in prog["top"]:
        if t["k"] == "macro":
            inner = (L["ParallelBlockBuilder"] if t.get("par") else L["SequentialBlockBuilder"])()
            fill(inner, t["body"])
            cb.macro(t["name"], list(t["params"]), inner, unevaluated=True)
        else:
            fill(cb, [t])
    return cb.build()


def build_with_objects(prog, keyword):
    """The object-level route: lets, registers, aliases and the qubits of top-level native calls are made with the core
    constructors (Constant, Register, NamedQubit, register[index]) and the calls by calling the gate definitions —
    positionally or, with `keyword`, by parameter name; the objects go into a circuit S-expression ("in lieu of an
    s-expression, the appropriate type from the core library will also be accepted").  Whatever cannot be said with
    objects (a name that is undefined or not of the right sort, macro bodies, macro calls) stays an S-expression, so
    that it is the library, not this harness, that meets the error."""
    L = lib()
    G, Register, NamedQubit, Constant = L["GATES"], L["Register"], L["NamedQubit"], L["Constant"]
    env = {}
    out = ["circuit"]

    def norm(v):
        return int(v) if is_intval(v) else v

    def ex(e):
        """-> (ok, value)"""
        if e is None:
            return True, None
        if "lit" in e:
            return True, norm(dec(e["lit"], real=True))
        o = env.get(e["id"])
        return (True, o) if isinstance(o, Constant) else (False, None)

    for h, sx in zip(prog["header"], render_sx({"header": prog["header"], "top": []})[1:]):
        obj = None
        if h["k"] == "let":
            obj = Constant(h["name"], norm(dec(h["v"], real=True)))
        elif h["k"] == "reg":
            ok, size = ex(h["size"])
            if ok:
                obj = Register(h["name"], size)
        else:
            src = env.get(h["src"])
            if isinstance(src, Register):
                if h["form"] == "whole":
                    obj = Register(h["name"], alias_from=src)
                elif h["form"] == "index":
                    ok, idx = ex(h["index"])
                    if ok:
                        obj = NamedQubit(h["name"], src, idx)
                else:
                    parts = [ex(h[k]) for k in ("start", "stop", "step")]
                    if all(ok for ok, _v in parts):
                        start, stop, step = (v for _ok, v in parts)
                        obj = Register(h["name"], alias_from=src, alias_slice=slice(
                            0 if start is None else start, src.size if stop is None else stop, 1 if step is None else step))
        env[h["name"]] = obj
        out.append(sx if obj is None else obj)

    def arg(a):
        if a["t"] == "num":
            return True, dec(a["v"], real=True)
        if a["t"] == "id":
            o = env.get(a["name"])
            return (o is not None), o
        r = env.get(a["reg"])
        ok, idx = ex(a["idx"])
        if isinstance(r, Register) and ok:
            return True, r[idx]
        return False, None

    def stmt(t):
        if t["k"] == "gate":
            args = [arg(a) for a in t["args"]]
            if t["name"] in G and all(ok for ok, _v in args):
                gd = G[t["name"]]
                vals = [v for _ok, v in args]
                if not keyword or not vals:
                    return gd(*vals)
                names = [p.name for p in gd.parameters] + [f"extra{k}" for k in range(len(vals))]
                return gd(**dict(zip(names, vals)))
            return _x_stmt(t)
        if t["k"] == "loop":
            return ["loop", _x_expr(t["count"]), ["parallel_block" if t.get("par") else "sequential_block"] + [stmt(x) for x in t["body"]]]
        return ["parallel_block" if t["k"] == "par" else "sequential_block"] + [stmt(x) for x in t["body"]]

    for t, sx in zip(prog["top"], render_sx({"header": [], "top": prog["top"]})[1:]):
        out.append(sx if t["k"] == "macro" else stmt(t))
    return L["core_build"](out, inject_pulses=G)


# ---------------------------------------------------------------------------------------------------------------
# pipelines

LET, MAC = "let", "macro"
# stage -> knowledge it adds
STAGE_K = {"parse": (), "build_sx": (), "cbuilder": (), "objects": (), "objects_kw": (), "build_parsed_sx": (), "parse_all": (LET, MAC), "parse_letmap": (LET,),
           "parse_let": (LET,), "parse_macro": (MAC,), "fill": (LET,), "expand": (MAC,), "run": (LET, MAC)}
PIPES = {
    "A": ["parse", "fill", "expand", "run"],
    "B": ["parse", "expand", "fill", "run"],
    "C": ["parse_all", "run"],
    "D": ["parse_letmap", "expand", "run"],
    "E": ["parse", "fill", "run"],
    "E0": ["parse", "run"],            # only without an override dictionary
    "F": ["build_sx", "fill", "expand", "run"],
    "F2": ["build_sx", "expand", "fill", "run"],
    "G": ["cbuilder", "expand", "fill", "run"],
    "O": ["objects", "fill", "expand", "run"],         # core constructors, definitions called positionally
    "OK": ["objects_kw", "expand", "fill", "run"],     # ... called with keyword arguments
    "H1": ["parse_let", "expand", "run"],
    "H2": ["parse_macro", "fill", "run"],
    "I": ["build_parsed_sx", "fill", "expand", "run"],
}
TEXT_PIPES = ["A", "B", "C", "D", "E", "E0", "H1", "H2", "I"]
OBJ_PIPES = ["F", "F2", "G", "O", "OK"]


def has_huge_int(j):
    """does the JSON tree hold an integer of more than 4300 digits?"""
    if isinstance(j, dict):
        if "d" in j and isinstance(j["d"], str):
            return len(j["d"].lstrip("-")) > 4300
        return any(has_huge_int(v) for v in j.values())
    if isinstance(j, list):
        return any(has_huge_int(v) for v in j)
    return False


def applicable(prog, text):
    ps = list(OBJ_PIPES)
    if not HUGE_INT_OBJECTS and has_huge_int([prog["header"], prog["top"]]):
        ps = []  # see the second finding in the module docstring
    if text is not None:
        ps += [p for p in TEXT_PIPES if not (p == "E0" and prog["ov"])]
    return ps


def do_stage(stage, prog, text, circ):
    L = lib()
    G = L["GATES"]
    ov = {name: dec(v, real=True) for name, v in prog["ov"]} or None
    P = L["parse_jaqal_string"]
    if stage == "parse":
        return P(text, inject_pulses=G, autoload_pulses=False)
    if stage == "parse_all":
        return P(text, override_dict=ov, expand_macro=True, expand_let=True, inject_pulses=G, autoload_pulses=False)
    if stage == "parse_letmap":
        return P(text, override_dict=ov, expand_let_map=True, inject_pulses=G, autoload_pulses=False)
    if stage == "parse_let":
        return P(text, override_dict=ov, expand_let=True, inject_pulses=G, autoload_pulses=False)
    if stage == "parse_macro":
        return P(text, expand_macro=True, inject_pulses=G, autoload_pulses=False)
    if stage == "build_sx":
        return L["core_build"](render_sx(prog), inject_pulses=G)
    if stage == "build_parsed_sx":
        return L["core_build"](L["parse_to_sexpression"](text), inject_pulses=G)
    if stage == "cbuilder":
        return build_with_circuitbuilder(prog)
    if stage == "objects":
        return build_with_objects(prog, False)
    if stage == "objects_kw":
        return build_with_objects(prog, True)
    if stage == "fill":
        return L["fill_in_let"](circ, ov)
    if stage == "expand":
        return L["expand_macros"](circ)
    if stage == "run":
        return L["run_jaqal_circuit"](circ)
    raise ValueError(stage)


def observe_flat(circ):
    """[[name, [["q", fundamental index] | ["n", number] | ["?", ...]]]]: the native calls the circuit body EXECUTES, in order
    (loops unrolled; what a zero-count loop holds is not executed and not compared)"""
    L = lib()
    out = []

    def val(v):
        if isinstance(v, L["NamedQubit"]):
            reg, idx = v.resolve_qubit()
            return ["q", int(idx)]
        if isinstance(v, bool):
            return ["?", "bool"]
        if isinstance(v, (int, float)):
            return ["n", enc(v)]
        return ["?", type(v).__name__]

    def walk(s):
        if isinstance(s, L["GateStatement"]):
            out.append([s.name, [val(v) for v in s.parameters.values()]])
        elif isinstance(s, L["LoopStatement"]):
            n = s.iterations
            if isinstance(n, float) and n.is_integer():
                n = int(n)
            if not isinstance(n, int) or isinstance(n, bool) or not 0 <= n <= 64:
                raise ValueError(f"loop count {n!r} of the accepted circuit is not a small natural number")
            for _ in range(n):
                walk(s.statements)
        elif isinstance(s, L["BlockStatement"]):
            for x in s.statements:
                walk(x)

    walk(circ.body)
    return out


def same_flat(ref, got):
    if len(ref) != len(got):
        return False
    for (n1, a1), (n2, a2) in zip(ref, got):
        if n1 != n2 or len(a1) != len(a2):
            return False
        for x, y in zip(a1, a2):
            if x[0] != y[0]:
                return False
            if x[0] == "q" and x[1] != y[1]:
                return False
            if x[0] == "n" and dec(x[1]) != dec(y[1]):
                return False
    return True


def check(prog, pipe, verdict, text):
    """Run one pipeline.  -> (results: [(oracle, ok, detail)], facts: [str])"""
    stages = PIPES[pipe]
    known = set()
    results, facts = [], []
    circ = None
    required = None      # index of the first stage whose knowledge determines a defect
    refused = None       # (index, outcome)
    pre_run = None
    final = None
    for i, st in enumerate(stages):
        known |= set(STAGE_K[st])
        if required is None and verdict["invalid"][(LET in known, MAC in known)]:
            required = i
    known = set()
    for i, st in enumerate(stages):
        known |= set(STAGE_K[st])
        lv = (LET in known, MAC in known)
        r = guarded(lambda st=st, circ=circ: do_stage(st, prog, text, circ))
        if r[0] == "hang":
            results.append(("terminates", False, f"{st}: no answer within {_T.limit()} s"))
            return results, facts
        if r[0] != "ok":
            refused = (i, r)
            break
        if st == "run":
            final = r[1]
        else:
            circ = r[1]
            if lv == (True, True):
                pre_run = circ
    results.append(("terminates", True, ""))
    if verdict["ambiguous"]:
        facts.append("ambiguous: " + ("accepted" if refused is None else "refused"))
        return results, facts
    invalid = verdict["invalid"][(True, True)]
    if invalid:
        why = "; ".join(verdict["defects"][:3])
        if refused is None:
            results.append(("invalid_reference_rejected", False, f"accepted by every stage of {stages}; the reference says: {why}"))
            facts.append("invalid: ACCEPTED")
            return results, facts
        i, r = refused
        results.append(("invalid_reference_rejected", True, ""))
        results.append(("rejected_when_known", i <= required,
                        f"defect ({why}) is determined after stage {stages[required]!r} but the program passed it and was refused "
                        f"only by {stages[i]!r}: {r[1:]}"))
        results.append(("rejection_is_jaqalerror", r[0] == "jaqal",
                        f"stage {stages[i]!r} raised {r[1]}: {r[2] if len(r) > 2 else ''} instead of JaqalError; the reference says: {why}"))
        facts.append(f"invalid: refused at {stages[i]}" + ("" if i == required else " (earlier than required)"))
        return results, facts
    if refused is not None:
        i, r = refused
        facts.append(f"valid: refused at {stages[i]} ({'JaqalError' if r[0] == 'jaqal' else r[1]})")
        return results, facts
    facts.append("valid: accepted")
    bad = []
    if pre_run is not None and verdict["flat"] is not None:
        g = guarded(lambda: observe_flat(pre_run))
        if g[0] != "ok":
            bad.append(f"a qubit of the accepted circuit does not resolve: {g[1:]}")
        elif not same_flat(verdict["flat"], g[1]):
            bad.append(f"accepted circuit calls {json.dumps(g[1])[:300]}, the reference {json.dumps(verdict['flat'])[:300]}")
    if final is not None and verdict["state"] is not None:
        np = lib()["numpy"]
        g = guarded(lambda: final.subcircuits[0].state_vector)
        if g[0] != "ok":
            bad.append(f"no state vector: {g[1:]}")
        else:
            v = np.abs(np.asarray(g[1]))
            hit = int(np.argmax(v))
            if abs(v[hit] - 1) > 1e-9 or hit != verdict["state"]:
                bad.append(f"emulator ended in basis state {hit} (|amp|={v[hit]:.3f}), the reference in {verdict['state']}")
    results.append(("accepted_runs_on_reference_qubits", not bad, "; ".join(bad)))
    return results, facts


# ---------------------------------------------------------------------------------------------------------------
# program construction helpers


def lit(v):
    return {"lit": enc(v)}


def ident(n):
    return {"id": n}


def gate(name, *args):
    return {"k": "gate", "name": name, "args": list(args)}


def item(reg, idx):
    return {"t": "item", "reg": reg, "idx": idx}


def aid(name):
    return {"t": "id", "name": name}


def anum(v):
    return {"t": "num", "v": enc(v)}


class PB:
    def __init__(self, rng):
        self.rng = rng
        self.header, self.top, self.ov, self.tags = [], [], [], []
        self.count_lets = set()   # lets used as loop counts (never given a huge value: the emulator would really loop)
        self.k = 0

    def fresh(self, p):
        self.k += 1
        return f"{p}{self.k}"

    def let(self, decl, ov=None, name=None):
        name = name or self.fresh("v")
        self.header.append({"k": "let", "name": name, "v": enc(decl)})
        if ov is not None:
            self.ov.append([name, ov])
        return name

    def ov_repr(self, v):
        """an override value equal to v in one of the forms a caller may hand in"""
        forms = ["int", "int"]
        if isinstance(v, float):
            return self.rng.choice([enc(v), {"npf": repr(v)}])
        if abs(v) < 2**53:
            forms += ["float", "npf"]
        if abs(v) < 2**62:
            forms.append("npi")
        if v in (0, 1):
            forms.append("bool")
        if v == 0:
            forms.append("negzero")
        f = self.rng.choice(forms)
        return {"int": v, "float": {"f": repr(float(v))}, "npf": {"npf": repr(float(v))}, "npi": {"npi": v},
                "bool": {"b": bool(v)}, "negzero": {"f": "-0.0"}}[f]

    def expr(self, eff, src, decl=None):
        """an expression whose EFFECTIVE value is eff.  src: lit | let | ov (declared `decl`, overridden to eff) | ovsame"""
        if src == "lit":
            return lit(eff)
        if src == "let":
            d = eff
            if isinstance(eff, int) and abs(eff) < 2**53 and self.rng.random() < 0.2:
                d = float(eff)  # `let n 3.0` is the integer 3
            return ident(self.let(d))
        if src == "ovsame":
            return ident(self.let(eff, self.ov_repr(eff)))
        return ident(self.let(eff if decl is None else decl, self.ov_repr(eff)))

    def reg(self, name, size):
        self.header.append({"k": "reg", "name": name, "size": size})

    def map_whole(self, name, src):
        self.header.append({"k": "map", "name": name, "src": src, "form": "whole"})

    def map_index(self, name, src, index):
        self.header.append({"k": "map", "name": name, "src": src, "form": "index", "index": index})

    def map_slice(self, name, src, start, stop, step):
        self.header.append({"k": "map", "name": name, "src": src, "form": "slice", "start": start, "stop": stop, "step": step})

    def macro(self, name, params, body, par=False):
        self.top.append({"k": "macro", "name": name, "params": list(params), "body": body, "par": par})



def finish(pb, stream):
    """The program of a builder: the order given is kept; prepare_all goes before the first statement that is not a macro
    definition, measure_all at the end."""
    top = []
    seen_stmt = False
    for t in pb.top:
        if t["k"] != "macro" and not seen_stmt:
            top.append(gate("prepare_all"))
            seen_stmt = True
        top.append(t)
    if not seen_stmt:
        top.append(gate("prepare_all"))
    top.append(gate("measure_all"))
    return {"header": pb.header, "top": top, "ov": pb.ov, "stream": stream, "tags": pb.tags}


def geometry(pb, name, declared=False):
    """(count, [fundamental indices] or None) of register / alias `name` as the reference sees the header so far"""
    prog = {"header": pb.header, "top": [], "ov": [] if declared else pb.ov}
    r = Ref(prog, True, True).run()
    v = r.env.get(name)
    if v is None or v[0] != "reg":
        return None
    return v[4], v[2], v[3]


SIZE_SRC = ["lit", "lit", "let", "let", "shrink", "shrink", "grow", "ovsame"]
BOUND_SRC = ["lit", "lit", "let", "ov", "ovsame", "omit", "omit"]
WRAPS = ["none", "none", "seq", "par", "loop", "loop", "parloop"]
BIG = [2**53, 2**53 + 1, 2**63 - 1, 2**63, 2**64 + 1, 65535, 65536, 10**30, -(2**63)]


def wrap(pb, stmt, how=None, count=None):
    rng = pb.rng
    how = how or rng.choice(WRAPS)
    pb.tags.append(f"wrap {how}")
    if how == "none":
        return stmt
    if how == "seq":
        return {"k": "seq", "body": [stmt]}
    if how == "par":
        return {"k": "par", "body": [stmt]}
    c = rng.choice([0, 0, 1, 2, 3]) if count is None else count
    src = rng.choice(["lit", "lit", "let", "ov"])
    pb.tags.append(f"loop count {c} by {src}")
    ce = pb.expr(c, src, decl=rng.choice([1, 2, 5]))
    if "id" in ce:
        pb.count_lets.add(ce["id"])
    if how == "parloop":
        return {"k": "loop", "count": ce, "par": True, "body": [stmt]}
    return {"k": "loop", "count": ce, "body": [stmt]}


def make_register(pb):
    """register q with effective size S; -> S"""
    rng = pb.rng
    S = rng.choice([1, 2, 3, 3, 4, 4, 5, 6])
    src = rng.choice(SIZE_SRC)
    if src == "grow" and S == 1:
        src = "let"
    pb.tags.append(f"size by {src}")
    if src == "shrink":
        e = pb.expr(S, "ov", decl=S + rng.choice([1, 1, 2, 3]))
    elif src == "grow":
        e = pb.expr(S, "ov", decl=rng.randrange(1, S))
    else:
        e = pb.expr(S, src)
    pb.reg("q", e)
    return S


def bound(pb, eff, default=None, decl_shift=None):
    """expression for a slice bound with effective value eff; may be omitted when eff is the default"""
    rng = pb.rng
    src = rng.choice(BOUND_SRC)
    if src == "omit":
        if eff == default:
            return None
        src = "lit"
    if src == "ov":
        d = eff + (decl_shift if decl_shift is not None else rng.choice([-1, 1, 1, 2]))
        return pb.expr(eff, "ov", decl=d)
    return pb.expr(eff, src)


def make_chain(pb, S, bad_slice=False):
    """0-3 aliases on top of q; -> name of the last one.  With bad_slice one slice reaches outside its source."""
    rng = pb.rng
    cur = "q"
    steps = rng.choice([0, 1, 1, 2, 2, 3]) if not bad_slice else rng.choice([1, 1, 2, 3])
    bad_at = rng.randrange(steps) if bad_slice else -1
    forms = []
    for k in range(steps):
        C = (geometry(pb, cur) or (1,))[0] or 1
        name = pb.fresh("a")
        form = rng.choice(["whole", "slice", "slice"]) if k != bad_at else "slice"
        if form == "whole":
            pb.map_whole(name, cur)
            forms.append("whole")
            cur = name
            continue
        kind = rng.choice(["full", "tail", "head", "stride", "rev", "mid", "rev2"])
        if kind == "full" or C == 1:
            s, e, st = 0, C, 1
        elif kind == "tail":
            s, e, st = rng.randrange(1, C), C, 1
        elif kind == "head":
            s, e, st = 0, rng.randrange(1, C), 1
        elif kind == "stride":
            s, e, st = rng.randrange(0, 2), C, 2
        elif kind == "rev":
            s, e, st = C - 1, -1, -1
        elif kind == "rev2":
            s, e, st = C - 1, rng.choice([-1, 0]), -2
        else:
            s = rng.randrange(0, C)
            e = rng.randrange(s + 1, C + 1)
            st = 1
        if k == bad_at:
            how = rng.choice(["stop+1", "stop+2", "start-1", "start=size", "rev below", "stride over", "huge stop"])
            pb.tags.append(f"bad slice {how}")
            if how == "stop+1":
                s, e, st = s if st > 0 else 0, C + 1, 1
            elif how == "stop+2":
                s, e, st = 0, C + 2, rng.choice([1, 2]) if C % 2 == 0 else 1
            elif how == "start-1":
                s, e, st = -1, max(e, 1) if st > 0 else C, 1
            elif how == "start=size":
                s, e, st = C, C + 1, 1
            elif how == "rev below":
                s, e, st = C - 1, -2, -1
            elif how == "stride over":
                s, e, st = 0, C + 1, C
            else:
                s, e, st = 0, rng.choice(BIG[:8]), 1
        forms.append(f"slice {kind}")
        se = bound(pb, s, default=0, decl_shift=None if k != bad_at else rng.choice([0, 1]) - s if s < 0 else None)
        if k == bad_at and st > 0 and e > C and rng.random() < 0.6:
            # declared bound inside, overridden bound outside (or the literal / let outside)
            ee = pb.expr(e, rng.choice(["ov", "lit", "let"]), decl=rng.randrange(max(s, 0) + 1, C + 1) if C > max(s, 0) else C)
        else:
            ee = bound(pb, e, default=C if st > 0 else None)
        ste = bound(pb, st, default=1, decl_shift=0)
        pb.map_slice(name, cur, se, ee, ste)
        cur = name
    pb.tags.append("chain " + (" > ".join(forms) if forms else "direct"))
    return cur


IDX_SRC = ["lit", "lit", "let", "ov", "ov", "ovsame", "macro_lit", "macro_let", "macro_ov", "macro2", "macro_reg", "macro_reglit",
           "alias_lit", "alias_let", "alias_ov", "macro_count"]


def index_values(pb, C, declC):
    """(valid values, invalid values) for an index into a register of C qubits whose declared size is declC"""
    valid = [0, C - 1, C - 1] + ([C // 2] if C > 2 else [])
    valid_f = [0.0, -0.0, float(C - 1)]
    invalid = [C, C, C + 1, -1, -1] + [pb.rng.choice(BIG)]
    if declC is not None and declC > C:
        invalid += [pb.rng.randrange(C, declC)] * 4
    import math
    invalid_f = [C - 0.5, 0.5, float(C), -1.0, math.nextafter(float(C - 1), 9.0) if C > 1 else 0.25,
                 math.nextafter(float(C), 0.0), 1e300, 1e-300, 2.0**53, 5e-324]
    if NONFINITE_OVERRIDES:
        invalid_f += [float("nan"), float("inf"), float("-inf")]
    return valid, valid_f, invalid, invalid_f


def use_index(pb, T, v, src, valid_decl):
    """statements (and macros / aliases, added to pb) that apply a gate to T[v], the index v arriving by `src`.
    valid_decl: an index that is fine for the declared sizes (what an overridden let declares).  -> the statement"""
    rng = pb.rng
    g = rng.choice(["X", "X", "X", "Z", "P", "PF"])

    def call(qarg):
        if g == "P":
            return gate("P", qarg, anum(rng.choice([0, 1, 2, 3, -1, 1.0])))
        if g == "PF":
            return gate("PF", anum(rng.choice([0.25, 1, 0, -0.0, 2.5])), qarg)
        return gate(g, qarg)

    if src in ("lit", "let", "ov", "ovsame"):
        return call(item(T, pb.expr(v, src, decl=valid_decl)))
    if src.startswith("alias_"):
        m = pb.fresh("m")
        pb.map_index(m, T, pb.expr(v, src[6:], decl=valid_decl))
        return call(aid(m))
    f = pb.fresh("f")
    if src in ("macro_lit", "macro_let", "macro_ov"):
        pb.macro(f, ["i"], [call(item(T, ident("i")))], par=rng.random() < 0.2)
        e = pb.expr(v, src[6:], decl=valid_decl)
        return gate(f, anum(v) if "lit" in e else aid(e["id"]))
    if src == "macro2":
        pb.macro(f, ["i"], [call(item(T, ident("i")))])
        g2 = pb.fresh("g")
        if rng.random() < 0.5:
            pb.macro(g2, ["j"], [gate(f, aid("j"))])
            return gate(g2, anum(v))
        pb.macro(g2, [], [gate(f, anum(v))])   # the literal sits inside the second macro
        return gate(g2)
    if src == "macro_reg":
        pb.macro(f, ["r", "i"], [call(item("r", ident("i")))])
        e = pb.expr(v, rng.choice(["lit", "let", "ov"]), decl=valid_decl)
        return gate(f, aid(T), anum(v) if "lit" in e else aid(e["id"]))
    if src == "macro_reglit":
        pb.macro(f, ["r"], [call(item("r", pb.expr(v, rng.choice(["lit", "let", "ov"]), decl=valid_decl)))])
        return gate(f, aid(T))
    if src == "macro_count":
        # the same parameter is loop count and index: loop k { < G T[k] > }
        pb.macro(f, ["k"], [{"k": "loop", "count": ident("k"), "par": rng.random() < 0.5, "body": [call(item(T, ident("k")))]}])
        return gate(f, anum(v))
    raise ValueError(src)


def gen_refs(rng):
    pb = PB(rng)
    S = make_register(pb)
    mode = rng.choice(["valid", "valid", "valid", "bad_index", "bad_index", "bad_index", "bad_slice", "late_override"])
    T = make_chain(pb, S, bad_slice=(mode == "bad_slice"))
    pb.tags.append(f"mode {mode}")
    geo = geometry(pb, T)
    if geo is None or geo[0] == 0:
        # the chain is broken (intended: bad_slice) or empty — still index it
        C, declC = 1, None
    else:
        C = geo[0]
        d = geometry(pb, T, declared=True)
        declC = d[0] if d else None
    valid, valid_f, invalid, invalid_f = index_values(pb, C, declC)
    src = rng.choice(IDX_SRC)
    floats_ok = src not in ("lit", "macro_count") and not src.startswith("alias_l")
    if mode == "bad_index":
        v = rng.choice(invalid + (invalid_f if floats_ok and rng.random() < 0.5 else []))
    else:
        v = rng.choice(valid + (valid_f if floats_ok else []))
    if src == "macro_count" and not (isinstance(v, int) and 0 <= v <= 8):
        src = "macro_lit"
    if src == "lit" and isinstance(v, float):
        src = "let"
    pb.tags.append(f"index by {src}")
    pb.tags.append("index " + _value_class(v, C, declC))
    valid_decl = rng.choice([0, 0, (declC or C) - 1 if (declC or C) > 0 else 0])
    main = use_index(pb, T, v, src, valid_decl)
    stmts = []
    # neighbours: valid gates on the fundamental register
    for _ in range(rng.choice([0, 1, 2])):
        stmts.append(gate("X", item("q", lit(rng.randrange(S)))))
    stmts.insert(rng.randrange(len(stmts) + 1), wrap(pb, main))
    if S >= 2 and rng.random() < 0.3:
        a, b = rng.sample(range(S), 2)
        stmts.append(gate(rng.choice(["CX", "SWAP"]), item("q", lit(a)), item("q", lit(b))))
    pb.top.extend(stmts)
    if mode == "late_override":
        # a program that is fine as declared; ONE let (a size, a bound, an index, a loop count) gets an overriding value,
        # mostly a falsy one — the reference decides what that does to the program
        free = [h for h in pb.header if h["k"] == "let" and h["name"] not in [n for n, _v in pb.ov]]
        if free:
            h = rng.choice(free)
            d = dec(h["v"])
            d = int(d) if is_intval(d) else 1
            cand = [0, {"f": "0.0"}, {"f": "-0.0"}, {"b": False}, {"npi": 0}, {"npf": "0.0"}, 1, {"b": True}, -1, {"f": "2.5"},
                    d + 1, d - 1, {"f": repr(float(d))}, d + rng.choice(BIG[:5])]
            v = rng.choice(cand if h["name"] not in pb.count_lets else cand[:8] + [2, 3])
            pb.ov.append([h["name"], v])
            pb.tags.append("late override to " + ("a falsy value" if not dec(v) else "another value"))
    return finish(pb, "refs")


def _value_class(v, C, declC):
    if isinstance(v, float):
        if v != v or v in (float("inf"), float("-inf")):
            return "non-finite float"
        if v.is_integer():
            return "integral float inside" if 0 <= v < C else "integral float outside"
        return "non-integral float"
    if 0 <= v < C:
        return "0" if v == 0 else "size-1" if v == C - 1 else "inside"
    if v < 0:
        return "negative"
    if v in (C, C + 1):
        return "size / size+1"
    if declC is not None and v < declC:
        return "between overridden and declared size"
    return "huge"


def gen_nonreg(rng):
    """an index / alias applied to something that is not a register"""
    pb = PB(rng)
    S = max(2, make_register(pb))
    pb.header[-1]["size"] = pb.header[-1]["size"]  # (size already chosen; S >= 2 wanted only for the arguments below)
    geo = geometry(pb, "q")
    S = geo[0] if geo else S
    n = pb.let(rng.choice([0, 1, 2]), name="n")
    if rng.random() < 0.4:
        pb.ov.append([n, pb.ov_repr(rng.choice([0, 1]))])
    pb.map_index("m", "q", lit(rng.randrange(S)))
    pb.map_whole("w", "q")
    pb.map_slice("s", "q", lit(0), lit(S), None)
    things = {
        "register": aid("q"), "whole alias": aid("w"), "slice alias": aid("s"),
        "let": aid(n), "qubit alias": aid("m"), "qubit": item("q", lit(rng.randrange(S))),
        "int": anum(rng.choice([3, 1, 2, S])), "zero": anum(0), "float zero": anum(rng.choice([0.0, -0.0])),
        "negative": anum(-1), "float": anum(rng.choice([2.5, 0.25, 1e300])), "integral float": anum(1.0),
        "huge": anum(rng.choice(BIG)),
    }
    what = rng.choice(list(things))
    where = rng.choice(["macro", "macro", "macro", "macro2", "macro2", "macro_loop_par", "macro_lit_index", "direct", "map"])
    pb.tags.append(f"nonreg {what} via {where}")
    i0 = rng.choice([0, 0, S - 1])
    if where in ("direct", "map"):
        # only named things can be written in these positions
        name = {"register": "q", "whole alias": "w", "slice alias": "s", "let": n, "qubit alias": "m"}.get(what, n)
        if where == "direct":
            pb.top.append(wrap(pb, gate("X", item(name, lit(i0)))))
        else:
            form = rng.choice(["whole", "index", "slice"])
            if form == "whole":
                pb.map_whole("z", name)
            elif form == "index":
                pb.map_index("z", name, lit(0))
            else:
                pb.map_slice("z", name, lit(0), lit(1), None)
            pb.top.append(gate("X", aid("z") if form == "index" else item("z", lit(0))))
    else:
        g = rng.choice(["X", "X", "Z", "P"])

        def call(qarg):
            return gate("P", qarg, anum(1)) if g == "P" else gate(g, qarg)

        arg = things[what]
        if where == "macro":
            pb.macro("f", ["r", "i"], [call(item("r", ident("i")))])
            pb.top.append(wrap(pb, gate("f", arg, anum(i0))))
        elif where == "macro_lit_index":
            pb.macro("f", ["r"], [call(item("r", lit(i0)))])
            pb.top.append(wrap(pb, gate("f", arg)))
        elif where == "macro2":
            pb.macro("f", ["r", "i"], [call(item("r", ident("i")))])
            pb.macro("g", ["r"], [gate("f", aid("r"), anum(i0))])
            pb.top.append(wrap(pb, gate("g", arg)))
        else:
            pb.macro("f", ["r", "i"], [call(item("r", ident("i")))])
            k = rng.choice([0, 1, 1])
            other = item("q", lit((k + 1) % S))
            pb.macro("h", ["r", "k"], [{"k": "loop", "count": ident("k"), "body": [
                {"k": "par", "body": [gate("f", aid("r"), aid("k")), gate("X", other)]}]}])
            pb.top.append(gate("h", arg, anum(k)))
    return finish(pb, "nonreg")


def gen_names(rng):
    pb = PB(rng)
    S = max(2, rng.choice([2, 3, 4]))
    n = pb.let(S, name="n")
    kind = rng.choice(["undefined"] * 3 + ["duplicate"] * 3 + ["valid"])
    if kind == "duplicate":
        pair = rng.choice(["let let same", "let let same float", "let let other", "let reg", "reg reg same", "reg reg other",
                           "reg map", "map map same", "map map other", "map let", "qubit qubit same", "let-sized reg twice",
                           "macro macro same", "macro macro other", "macro native", "let far apart"])
        pb.tags.append(f"duplicate {pair}")
        if pair.startswith("let let"):
            pb.header.append({"k": "let", "name": "n", "v": enc({"let let same": S, "let let same float": float(S), "let let other": S + 1}[pair])})
        pb.reg("q", rng.choice([lit(S), ident("n")]))
        if pair == "let reg":
            pb.header.append({"k": "let", "name": "q", "v": enc(S)})
        if pair == "reg reg same":
            pb.reg("q", pb.header[-1]["size"])
        if pair == "reg reg other":
            pb.reg("q", lit(S + 1))
        if pair == "let-sized reg twice":
            pb.header[-1]["size"] = ident("n")
            pb.reg("q", ident("n"))
        pb.map_slice("a", "q", lit(0), lit(S - 1), None)
        pb.map_index("m", "q", lit(1))
        if pair == "reg map":
            pb.map_whole("q", "a")
        if pair == "map map same":
            pb.map_slice("a", "q", lit(0), lit(S - 1), rng.choice([None, lit(1)]))
        if pair == "map map other":
            pb.map_whole("a", "q")
        if pair == "map let":
            pb.map_whole("n", "q")
        if pair == "qubit qubit same":
            pb.map_index("m", "q", lit(1))
        if pair == "let far apart":
            pb.map_whole("w", "q")
            pb.header.append({"k": "let", "name": "n", "v": enc(S)})
        pb.macro("f", ["x"], [gate("X", aid("x"))])
        if pair == "macro macro same":
            pb.macro("f", ["x"], [gate("X", aid("x"))])
        if pair == "macro macro other":
            pb.macro("f", [], [gate("X", item("q", lit(0)))])
        if pair == "macro native":
            pb.macro(rng.choice(["X", "CX", "prepare_all", "Z"]), ["x"], [gate("Z", aid("x"))])
        pb.top.append(gate("f", item("q", lit(0))))
        pb.top.append(gate("X", item("a", lit(0))))
        return finish(pb, "names")
    pb.reg("q", rng.choice([lit(S), ident("n")]))
    pb.map_slice("a", "q", lit(0), lit(S - 1), None)
    pb.let(1, name="k")
    if kind == "valid":
        pb.tags.append("names valid")
        pb.macro("f", ["x", "n"], [gate("X", aid("x")), gate("P", item("q", lit(0)), aid("n"))])  # parameter shadows let n
        pb.top.append(gate("f", item("a", lit(0)), anum(2)))
        pb.top.append(wrap(pb, gate("P", item("q", ident("k")), aid("k"))))
        return finish(pb, "names")
    u = rng.choice(["nope", "N0", "Q", "x"])  # `x` is a macro parameter elsewhere
    pos = rng.choice(["gate arg", "indexed register", "index", "map source", "slice bound", "map index", "register size", "loop count",
                      "macro body arg", "macro body index", "macro call arg", "map before source", "let after use",
                      "parameter outside its macro"])
    pb.tags.append(f"undefined at {pos}")
    pb.macro("f", ["x"], [gate("X", aid("x"))])
    st = gate("X", item("q", lit(0)))
    if pos == "gate arg":
        st = gate(rng.choice(["X", "P"]), aid(u)) if rng.random() < 0.5 else gate("P", item("q", lit(0)), aid(u))
    elif pos == "indexed register":
        st = gate("X", item(u, lit(0)))
    elif pos == "index":
        st = gate("X", item("q", ident(u)))
    elif pos == "map source":
        form = rng.choice(["whole", "index", "slice"])
        {"whole": lambda: pb.map_whole("z", u), "index": lambda: pb.map_index("z", u, lit(0)),
         "slice": lambda: pb.map_slice("z", u, lit(0), lit(1), None)}[form]()
    elif pos == "slice bound":
        b = [lit(0), lit(1), None]
        b[rng.randrange(3)] = ident(u)
        pb.map_slice("z", "q", *b)
    elif pos == "map index":
        pb.map_index("z", "q", ident(u))
    elif pos == "register size":
        for h in pb.header:
            if h["k"] == "reg":
                h["size"] = ident(u)
    elif pos == "loop count":
        st = {"k": "loop", "count": ident(u), "body": [st]}
    elif pos == "macro body arg":
        pb.macro("g", ["y"], [gate("X", aid(u if u != "y" else "nope"))])
        st = gate("g", item("q", lit(0))) if rng.random() < 0.7 else st
    elif pos == "macro body index":
        pb.macro("g", ["y"], [gate("X", item("q", ident(u)))])
        st = gate("g", anum(0))
    elif pos == "macro call arg":
        st = gate("f", aid(u))
    elif pos == "map before source":
        pb.header.insert(2, {"k": "map", "name": "z", "src": "a", "form": "whole"})  # a is defined after it
    elif pos == "let after use":
        pb.header.append({"k": "let", "name": "late", "v": 1})
        pb.header.insert(1, {"k": "map", "name": "z", "src": "q", "form": "index", "index": ident("late")})
        # (register q comes after this map as well: both names are undefined there)
    else:
        st = gate("X", aid("x"))  # x is f's parameter
    pb.top.append(wrap(pb, st) if pos != "loop count" else st)
    return finish(pb, "names")


def gen_calls(rng):
    pb = PB(rng)
    S = rng.choice([3, 4, 5])
    pb.reg("q", lit(S))
    pb.map_whole("w", "q")
    pb.map_index("m", "q", lit(S - 1))
    kind = rng.choice(["arity", "arity", "kind", "kind", "kind", "unknown", "unknown", "valid"])
    qs = list(range(S))
    rng.shuffle(qs)
    q0, q1, q2 = (item(rng.choice(["q", "w"]), lit(i)) for i in qs[:3])
    natives = {"X": [q0], "P": [q0, anum(2)], "PF": [anum(0.5), q0], "CX": [q0, q1], "CCX": [q0, q1, q2], "prepare_all": [],
               "SWAP": [q0, aid("m")] if qs[0] != S - 1 else [q0, q1]}
    pb.macro("f", ["a", "k"], [gate("P", aid("a"), aid("k"))])
    pb.macro("g0", [], [gate("X", item("q", lit(0)))])
    pb.macro("fw", ["a", "k"], [gate("f", aid("a"), aid("k"))])
    macros = {"f": [q0, anum(1)], "g0": [], "fw": [q0, anum(3)]}
    if kind == "valid":
        pb.tags.append("calls valid")
        for name in rng.sample(["X", "P", "PF", "CX", "CCX", "SWAP"], 3):
            pb.top.append(wrap(pb, gate(name, *natives[name])))
        for name in rng.sample(list(macros), 2):
            pb.top.append(gate(name, *macros[name]))
        return finish(pb, "calls")
    if kind == "arity":
        name = rng.choice(list(natives) + list(macros) * 2)
        args = list((natives.get(name) if name in natives else macros[name]))
        how = rng.choice(["-1", "+1", "+1", "none", "+2"])
        if how == "-1" and args:
            args.pop(rng.randrange(len(args)))
        elif how == "none" and args:
            args = []
        else:
            extra = rng.choice([anum(0), anum(1), anum(0.0), q2, aid("w")])
            args.insert(rng.randrange(len(args) + 1), extra)
            if how == "+2":
                args.append(anum(0))
        pb.tags.append(f"arity {how} on {'macro' if name in macros else 'native'}")
        inner = rng.random() < 0.3
        if inner:
            # the wrong call sits inside a macro body
            pb.macro("bad", [], [gate(name, *args)])
            pb.top.append(gate("bad") if rng.random() < 0.8 else gate("X", q0))
        else:
            pb.top.append(wrap(pb, gate(name, *args)) if name != "prepare_all" else gate(name, *args))
        return finish(pb, "calls")
    if kind == "unknown":
        how = rng.choice(["name", "case", "before definition", "recursive", "mutual", "let as gate", "register as gate"])
        pb.tags.append(f"unknown gate: {how}")
        if how == "name":
            pb.top.append(wrap(pb, gate(rng.choice(["Nope", "R", "Sxx", "prepare"]), q0)))
        elif how == "case":
            pb.top.append(wrap(pb, gate(rng.choice(["x", "cx", "Prepare_all", "F"]), q0)))
        elif how == "before definition":
            pb.top.append(gate("late", q0))
            pb.macro("late", ["a"], [gate("X", aid("a"))])
            pb.top.append(gate("late", q0))
        elif how == "recursive":
            pb.macro("rec", ["a"], [gate("X", aid("a")), gate("rec", aid("a"))])
            pb.top.append(gate("rec", q0) if rng.random() < 0.7 else gate("X", q0))
        elif how == "mutual":
            pb.macro("m1", ["a"], [gate("m2", aid("a"))])
            pb.macro("m2", ["a"], [gate("X", aid("a"))])
            pb.top.append(gate("m1", q0))
        elif how == "let as gate":
            pb.header.insert(0, {"k": "let", "name": "L", "v": 1})
            pb.top.append(gate("L", q0))
        else:
            pb.top.append(gate(rng.choice(["q", "w", "m"])))
        return finish(pb, "calls")
    # wrong kinds
    n25 = None
    how = rng.choice(["literal", "literal", "let", "override", "macro", "macro", "macro forward"])
    target = rng.choice(["int gets 2.5", "int gets qubit", "int gets register", "qubit gets int", "qubit gets zero", "qubit gets let",
                         "qubit gets register", "qubit gets whole alias", "float gets qubit", "float gets register",
                         "int gets tiny", "int gets huge float"])
    pb.tags.append(f"kind: {target} by {how}")
    badnum = {"int gets 2.5": 2.5, "int gets tiny": 1e-300, "int gets huge float": 1.5e300}.get(target)
    if badnum is not None:
        if how == "let":
            n25 = pb.let(badnum)
        elif how == "override":
            n25 = pb.let(rng.choice([2, 0, 2.0]), {"f": repr(badnum)} if rng.random() < 0.7 else {"npf": repr(badnum)})
        val = aid(n25) if n25 else anum(badnum)
        bad_call = ("P", [q0, val])
    else:
        pb.header.insert(0, {"k": "let", "name": "L", "v": rng.choice([0, 1, {"f": "0.0"}])})
        wrong = {"int gets qubit": ("P", [q0, q1]), "int gets register": ("P", [q0, aid(rng.choice(["q", "w"]))]),
                 "qubit gets int": ("X", [anum(rng.choice([1, 2, -1]))]), "qubit gets zero": ("X", [anum(rng.choice([0, 0.0]))]),
                 "qubit gets let": ("X", [aid("L")]), "qubit gets register": ("CX", [q0, aid("q")]),
                 "qubit gets whole alias": ("X", [aid("w")]), "float gets qubit": ("PF", [q1, q0]),
                 "float gets register": ("PF", [aid("w"), q0])}[target]
        bad_call = wrong
    name, args = bad_call
    if how in ("macro", "macro forward"):
        # the offending argument arrives through a macro parameter
        pos = next(i for i, (a, b) in enumerate(zip(args, natives[name])) if a != b) if name in natives and len(args) == len(natives[name]) else len(args) - 1
        inner = list(args)
        inner[pos] = aid("p")
        pb.macro("k1", ["p"], [gate(name, *inner)])
        if how == "macro forward":
            pb.macro("k2", ["p"], [{"k": "par", "body": [gate("k1", aid("p"))]}])
            pb.top.append(gate("k2", args[pos]))
        else:
            pb.top.append(wrap(pb, gate("k1", args[pos])))
    else:
        pb.top.append(wrap(pb, gate(name, *args)))
    return finish(pb, "calls")


def gen_big(rng):
    pb = PB(rng)
    how = rng.choice(["reg 65536", "reg 65535", "reg 70000 by let", "digits 4299", "digits 4300", "digits 4301", "alias of big"])
    pb.tags.append(f"big {how}")
    if how.startswith("digits"):
        nd = int(how.split()[1])
        S = rng.choice([2, 3])
        pb.reg("q", lit(S))
        v = big_int(rng.choice("123456789") + "".join(rng.choice("0123456789") for _ in range(nd - 1)))
        src = rng.choice(["lit", "let", "macro_lit"])
        pb.top.append(use_index(pb, "q", v, src, 0))
        return finish(pb, "big")
    S = {"reg 65536": 65536, "reg 65535": 65535, "reg 70000 by let": 70000, "alias of big": 65537}[how]
    pb.reg("q", pb.expr(S, "let") if "let" in how else lit(S))
    T = "q"
    C = S
    if how == "alias of big":
        st = rng.choice([1, 2, -1])
        if st == -1:
            pb.map_slice("a", "q", lit(S - 1), lit(rng.choice([-1, 0])), lit(-1))
        else:
            pb.map_slice("a", "q", lit(1), rng.choice([lit(S), None, lit(S + 1)]), lit(st) if st != 1 else None)
        T = "a"
        C = (geometry(pb, "a") or [1])[0] or 1
    v = rng.choice([C - 1, C, C + 1, 65535, 65536, 0, -1])
    pb.top.append(use_index(pb, T, v, rng.choice(["lit", "let", "ov", "macro_lit", "macro_reg"]), 0))
    return finish(pb, "big")


STREAMS = {"refs": gen_refs, "nonreg": gen_nonreg, "names": gen_names, "calls": gen_calls, "big": gen_big}
WEIGHTS = [("refs", 10), ("nonreg", 4), ("names", 3), ("calls", 4)]


def plan_streams(rng, n):
    names = []
    tot = sum(w for _s, w in WEIGHTS)
    for s, w in WEIGHTS:
        names += [s] * max(1, (n * w) // tot)
    names += ["big"] * max(1, n // 60)
    while len(names) < n:
        names.append("refs")
    rng.shuffle(names)
    return names[: max(n, 1)] if n >= len(WEIGHTS) + 1 else names


# ---------------------------------------------------------------------------------------------------------------
# running

ORACLES = ["invalid_reference_rejected", "rejected_when_known", "rejection_is_jaqalerror", "accepted_runs_on_reference_qubits",
           "terminates"]


def run_program(prog, pipes, report, count):
    verdict = judge(prog)
    try:
        text = render_text(prog)
    except NoText:
        text = None
    todo = [p for p in pipes if p in applicable(prog, text)]
    for pipe in todo:
        results, facts = check(prog, pipe, verdict, text)
        case = {"prog": prog, "pipe": pipe, "text": text, "override": prog["ov"]}
        for name, ok, detail in results:
            report(name, ok, case, detail)
        for f in facts:
            count(f)
            count(f"{prog.get('stream', '?')}: {f.split(' at ')[0].split(' (')[0]}")
        count(f"pipeline {pipe}")
    return verdict, text, todo


def choose_pipes(rng, prog, text, thorough):
    ps = applicable(prog, text)
    if thorough:
        return ps
    k = 3
    first = [p for p in ("A", "B", "C") if p in ps]
    chosen = [rng.choice(first)] if first else []
    rest = [p for p in ps if p not in chosen]
    rng.shuffle(rest)
    return chosen + rest[: k - len(chosen)]


def run(seed: int, n: int, driver: str = DEFAULT_DRIVER, thorough: bool = False) -> dict:
    lib()
    rng = random.Random(f"c14_edge/{seed}/{int(bool(thorough))}")
    oracle = {o: {"cases": 0, "failures": []} for o in ORACLES}
    dist = collections.Counter()
    samples = []
    distinct = set()

    def report(name, ok, case, detail):
        o = oracle[name]
        o["cases"] += 1
        if not ok:
            if len(o["failures"]) < 20:
                o["failures"].append({"case": case, "detail": detail})
            else:
                o["failures_not_listed"] = o.get("failures_not_listed", 0) + 1

    def count(f):
        dist[f] += 1

    for stream in plan_streams(rng, n):
        sub = random.Random(rng.getrandbits(64))
        prog = STREAMS[stream](sub)
        try:
            text = render_text(prog)
        except NoText:
            text = None
            count("no text form (S-expression / CircuitBuilder only)")
        pipes = choose_pipes(sub, prog, text, thorough)
        verdict, text, done = run_program(prog, pipes, report, count)
        count(f"stream {stream}")
        for t in prog["tags"]:
            count(t)
        for name, v in prog["ov"]:
            count("override value " + (next(iter(v)) if isinstance(v, dict) else "int"))
        count("reference: " + ("ambiguous" if verdict["ambiguous"] else "invalid" if verdict["invalid"][(True, True)] else "valid"))
        if verdict["invalid"][(True, True)] and not verdict["ambiguous"]:
            first = next(lv for lv in LEVELS if verdict["invalid"][lv])
            count("defect determined with knowledge of " + ("nothing but the text" if first == (False, False) else
                                                           "lets" if first == (True, False) else "macro arguments" if first == (False, True)
                                                           else "lets and macro arguments"))
            for d in verdict["defects"][:1]:
                count("defect " + d.split(":")[0])
        key = json.dumps([prog["header"], prog["top"], prog["ov"]], sort_keys=True)
        if key not in distinct:
            distinct.add(key)
        if len(samples) < 5 and (len(samples) < 2 or stream not in [s["stream"] for s in samples]):
            samples.append({"stream": stream, "tags": prog["tags"], "text": text, "override": prog["ov"],
                            "reference": {"invalid": verdict["invalid"][(True, True)], "defects": verdict["defects"],
                                          "ambiguous": verdict["ambiguous"], "state": verdict["state"]}, "pipelines": done})
    return {"corr": {}, "oracle": oracle, "distribution": dict(dist), "samples": samples, "nontrivial": len(distinct)}


def replay(case: dict, driver: str = DEFAULT_DRIVER) -> dict:
    lib()
    prog = case["prog"]
    verdict = judge(prog)
    try:
        text = render_text(prog)
    except NoText:
        text = None
    pipes = [case["pipe"]] if case.get("pipe") in applicable(prog, text) else applicable(prog, text)
    for pipe in pipes:
        results, _facts = check(prog, pipe, verdict, text)
        for name, ok, detail in results:
            if not ok:
                return {"oracle_ok": False,
                        "detail": f"{name} [pipeline {pipe}: {' -> '.join(PIPES[pipe])}]: {detail}\n--- override {prog['ov']}\n{text or render_sx(prog)}",
                        "impl": {"oracle": name, "pipeline": pipe, "text": text, "override": prog["ov"]},
                        "model": {"reference_invalid": verdict["invalid"][(True, True)], "defects": verdict["defects"],
                                  "state": verdict["state"], "calls": verdict["flat"]}}
    return {"oracle_ok": True, "detail": "no oracle fails on this case"}


def main():
    ap = argparse.ArgumentParser()
    ap.add_argument("--seed", type=int, default=0)
    ap.add_argument("--n", type=int, default=800)
    ap.add_argument("--thorough", action="store_true")
    ap.add_argument("--driver", default=DEFAULT_DRIVER)
    a = ap.parse_args()
    r = run(a.seed, a.n, a.driver, a.thorough)
    bad = 0
    for name, o in r["oracle"].items():
        print(f"{name:36s} cases {o['cases']:7d}  failures {len(o['failures'])}")
        bad += len(o["failures"])
        for f in o["failures"][:3]:
            c = f["case"]
            print(f"   [pipeline {c['pipe']}] {f['detail']}")
            print("   override", c["override"])
            print("   " + (c["text"] or json.dumps(render_sx(c["prog"]), default=str))[:3000].replace("\n", "\n   "))
    print("distribution:", json.dumps(r["distribution"], indent=1, sort_keys=True))
    print("nontrivial:", r["nontrivial"])
    sys.exit(1 if bad else 0)


if __name__ == "__main__":
    main()
