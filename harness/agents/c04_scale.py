#!/venv/bin/python
"""C04 at SCALE, with unusual but legal IDENTIFIERS, and over the DEFAULTS / optional parameters of the public
functions through which macros get expanded (oracles only, no Lean driver involved).

    PYTHONPATH=/verif JAQALPAQ_RUN_EMULATOR=1 /venv/bin/python -W ignore /verif/harness/agents/c04_scale.py [--seed 0] [--n 40] [--thorough]

The earlier C04 streams (pass1_diff, c04_entry) generate small programs: at most 6 macros, call depth <= 6, blocks
nested <= 4 deep, a handful of statements, parameters and header names, identifiers from a fixed pool of one-letter
names, and every optional argument either omitted or True.  This stream has three parts; each computes the gate
level meaning of the program with the independent reference of c04_entry (call-by-substitution on a small AST, then
evaluation of the header) and compares it, as a FLAT token sequence (deep structures are never compared with ==),
with what the library yields.

SCALE    programs whose size along ONE dimension crosses 8 / 16 / 32 / 64 / 128 / 256 (/ 1000) while the rest
         stays small (sizes 9, 17, 33, 65, 129, 257, 1001: one more than the threshold, so that a cut-off "at T" and
         one "beyond T" both show; plus 21 / 40 / 50 / 100 / 200):
  chain    N macros each calling the previous one (arguments forwarded, permuted, replaced, used as index /
           loop count; levels wrapped in loops / parallel blocks), N up to 129 (thorough: 190, plain levels only)
  nest     a call below N nested constructs (loop / parallel / sequential / subcircuit), a macro body nested N
           deep with an inner call at the bottom, or both
  stmts    N statements (calls and natives) in ONE block: top level, loop body, subcircuit, parallel block, a
           sequential block in a parallel block, a macro body
  macros   N macro definitions, each calling an earlier one or two, all called
  params   a macro with N parameters (qubits, ints, floats) forwarded in another order by an outer macro
  header   N lets, N aliases, up to 64 pulse imports, used inside macro bodies and as call arguments
  fanout   M_k calls M_{k-1} twice (2^k native gates)
  counts   loop counts / subcircuit iterations / indices / register sizes N handed through two macro levels
  qubits   registers of 8..14 qubits in the emulator, high indices through parameters
  each through: expand_macros(c) / (c, preserve_definitions=True); parse_jaqal_string / parse_jaqal_file(
  expand_macro=True [, expand_let=True]); the object-level front end (circuitbuilder.build of an s-expression, also
  with numpy numbers as gate / call arguments); run_jaqal_circuit and parse_jaqal_output_list against the macro-free
  reference program (runnable variants); wrong arity at depth (text and objects).
NAMES    the rich random programs of c04_entry (all its entry points, histories and arity cases) with every
         identifier renamed, consistently, to an unusual legal spelling: dotted (qualified) names, pairs that differ
         by a dotted prefix / suffix or only after 255 characters, dunder names, prefixes / extensions of keywords and
         of prepare_all / measure_all, names of Python / library internals (self, cls, args, kwargs, p0, I_X,
         __in_context__, parameters, ...), variables spelled like native gates or like macros, names of 256..1000
         characters; and the same with the native gates called through dotted copies (cal.X, std.v1.CX, ...).
DEFAULTS every way of leaving out / spelling out the optional parameters: expand_macros(c) / (c, False) / (c, True) /
         preserve_definitions= / circuit=;  parse_jaqal_string and parse_jaqal_file with return_usepulses, override_dict
         absent / None / {}, expand_let / expand_let_map absent / False, gates injected / invented (no inject_pulses) /
         AUTOLOADED from pulse files (autoload_pulses left at its default, import_path=..., the same file imported once,
         twice, or two files);  run_jaqal_circuit(c) with backend / emulator_backend / force_sim given or not,
         run_jaqal_string / run_jaqal_file.

oracles (name@part)
  C04s_yields     the entry point returns (a JaqalError is legitimate only where the same call WITHOUT macro expansion
                  is rejected too)
  C04s_no_calls   no statement anywhere in the result's body calls a macro
  C04s_meaning    meaning of the result == reference meaning of the original
  C04s_header     usepulses, constants, registers and aliases, native gates equal those of the same call without macro
                  expansion
  C04s_results    emulator / output-list results equal those of the macro-free reference program
  C04s_arity      a call with the wrong number of arguments (at any depth) raises JaqalError
  C04e_*@...:names  the oracles of c04_entry on the renamed programs

CPython itself bounds the depth: with the recursion limit raised (this script sets it to 8000 while it runs) the
unchanged library expands a plain chain of 245 macros and a chain of 145 whose levels are all wrapped in loops (beyond
that: RecursionError from the C stack guard, whatever the limit); the stream stays 20 % below that.  Deep recursion is
slow in CPython on a loaded machine, so in the quick tier the chains / nestings >= 100 go through expand_macros(c), the
parse flag and the emulator only; the thorough tier sends them through every entry point.
"""
import argparse
import json
import os
import random
import sys
import tempfile
import time
from collections import Counter

DEFAULT_DRIVER = "/verif/lean/.lake/build/bin/jaqal-model"
RECURSION = 8000
PULSE_A = "c04sc_pulses_a"
PULSE_B = "c04sc_pulses_b"


def _imports():
    global E, GX, GSIG, np, dump
    global parse_jaqal_string, parse_jaqal_file, expand_macros, build, run_jaqal_circuit, run_jaqal_string, run_jaqal_file
    global parse_jaqal_output_list, UnitarySerializedEmulator
    global GateStatement, BlockStatement, LoopStatement, Parameter, Constant, NamedQubit, Register, JaqalError
    os.environ["JAQALPAQ_RUN_EMULATOR"] = "1"
    import numpy as np
    from harness.agents import c04_entry as E
    E._imports()
    from harness import dump
    from harness.gates import GATES
    from jaqalpaq.parser import parse_jaqal_string, parse_jaqal_file
    from jaqalpaq.core.algorithm import expand_macros
    from jaqalpaq.core.circuitbuilder import build
    from jaqalpaq.run import run_jaqal_circuit, run_jaqal_string, run_jaqal_file
    from jaqalpaq.core.result import parse_jaqal_output_list
    from jaqalpaq.emulator.unitary import UnitarySerializedEmulator
    from jaqalpaq.core.gate import GateStatement
    from jaqalpaq.core.block import BlockStatement, LoopStatement
    from jaqalpaq.core.parameter import Parameter
    from jaqalpaq.core.constant import Constant
    from jaqalpaq.core.register import NamedQubit, Register
    from jaqalpaq.error import JaqalError
    GX = dict(GATES)
    GSIG = dict(E.GATE_SIG)
    for alias, orig in DOTTED_GATES.items():
        GX[alias] = GATES[orig].copy(name=alias)
        GSIG[alias] = GSIG[orig]


# dotted (qualified) and otherwise unusual spellings of native gates, as copies of gates of the injected set
DOTTED_GATES = {"cal.X": "X", "X.cal": "X", "std.v1.CX": "CX", "cal.P": "P", "cal.PF": "PF", "__Y": "Y", "loop_": "Z",
                "prepare_all.S": "S", "I_X": "SX", "X_": "X", "macro.CZ": "CZ", "SWAP.SWAP": "SWAP"}

PULSE_FILE = """from harness.gates import GATES
class jaqal_gates:
    ALL_GATES = {k: v for k, v in GATES.items() if %s}
"""


# ------------------------------------------------------------------------------------------------
# AST helpers (format of c04_entry)

def lit(v):
    return ["lit", v]


def par(n):
    return ["par", n]


def let(n):
    return ["let", n]


def rq(reg, i):
    return ["idx", ["reg", reg], i if isinstance(i, list) else ["lit", i]]


def G(name, *args):
    return ["g", name, list(args)]


def B(stmts, par=False, sub=False, it=None):
    return ["blk", bool(par), bool(sub), it, list(stmts)]


def L(count, body):
    return ["loop", count, body if body[0] == "blk" else B([body])]


def base(rng, R=None, usepulses=None):
    R = R or rng.randrange(4, 7)
    if usepulses is None:
        usepulses = rng.choice([[], [], ["qscout.v1.std"], ["a.b", "my.pulses"]])
    return {"usepulses": list(usepulses), "lets": [["n", rng.randrange(0, 3)], ["t", rng.choice([1.5, 0.25, -3.0])]],
            "reg": ["r", lit(R)], "maps": [["a", ["slice", ["reg", "r"], lit(1), None, None]], ["b", rq("r", rng.randrange(R))]],
            "macros": [], "body": [], "_R": R}


def wrap(kinds, inner, count_of):
    """the statements `inner` below the chain of constructs `kinds` (outermost first) -> statements for a sequential context"""
    stmts = list(inner)
    for depth in range(len(kinds) - 1, -1, -1):
        k = kinds[depth]
        if k == "loop":
            body = stmts[0] if len(stmts) == 1 and stmts[0][0] == "blk" and stmts[0][1] and not stmts[0][2] else B(stmts)
            stmts = [L(count_of(depth), body)]
        elif k == "par":
            stmts = [B([s if s[0] == "g" or (s[0] == "blk" and not s[1] and not s[2]) else B([s]) for s in stmts], par=True)]
        elif k == "seq":
            stmts = [B(stmts)]
        elif k == "sub":
            stmts = [B(stmts, sub=True, it=lit(depth % 3 + 2) if depth % 2 else None)]
        else:
            raise ValueError(k)
    return stmts


def construct_kinds(rng, n, allow_sub, allow_par=True):
    out, ctx, in_par, sub_used = [], "seq", False, not allow_sub
    while len(out) < n:
        if ctx == "par":
            out.append("seq")
            ctx = "seq"
            continue
        c = rng.random()
        if c < 0.62 or (not allow_par and (sub_used or in_par)):
            out.append("loop")
        elif c < 0.9 and allow_par:
            out.append("par")
            ctx, in_par = "par", True
        elif not sub_used and not in_par:
            out.append("sub")
            sub_used = True
        else:
            out.append("loop")
    return out


# ------------------------------------------------------------------------------------------------
# SCALE families: (rng, N, runnable) -> program

ALL_PARAMS = [("u", "q"), ("v", "q"), ("i", "i"), ("x", "f"), ("c", "c"), ("w", "r")]


def fam_chain(rng, N, runnable):
    p = base(rng)
    R = p["_R"]
    sig = [q for q in ALL_PARAMS if rng.random() < 0.6 and not (runnable and q[1] == "r")]
    if rng.random() < 0.1:
        sig = []
    names = {k: n for n, k in sig}
    qs = [n for n, k in sig if k == "q"]
    aq = par(qs[0]) if qs else (["idx", par("w"), lit(0)] if "r" in names else rq("r", 0))
    body0 = [G("X", aq)]
    if len(qs) == 2:
        body0.append(G("CX", par(qs[0]), par(qs[1])))
    if "i" in names:
        body0.append(G("P", aq, par("i")))
    if "f" in names:
        body0.append(G("PF", par("x"), aq))
    if "c" in names:
        body0.append(L(par("c"), B([G("Y", aq)])))
    if "r" in names:
        body0.append(G("Z", ["idx", par("w"), par("i") if "i" in names else lit(1)]))
    gname = rng.choice(["X", "cal.X", "X.cal", "__Y"])
    body0.append(G(gname, aq))
    p["macros"].append(["M0", [list(q) for q in sig], "plain", B(body0)])
    budget = 190.0
    pw = 0.0 if N <= 1 else min(0.45, max(0.0, (budget - N) / (0.67 * N)))
    twos = 0
    for k in range(1, N):
        args = []
        for n, kind in sig:
            c = rng.random()
            if kind == "q":
                other = [m for m in qs if m != n]
                if other and c < 0.3 and not runnable:
                    args.append(par(other[0]))
                elif "r" in names and c < 0.4 and not runnable:
                    args.append(["idx", par("w"), par("i") if "i" in names and rng.random() < 0.5 else lit(rng.randrange(3))])
                elif c < 0.45 and not runnable:
                    args.append(rng.choice([rq("r", rng.randrange(R)), rq("a", let("n")), ["qa", "b"]]))
                else:
                    args.append(par(n))
            elif kind == "i":
                args.append(par(n) if c < 0.85 else rng.choice([lit(rng.randrange(3)), let("n")]))
            elif kind == "f":
                args.append(par(n) if c < 0.7 else par("i") if "i" in names and c < 0.8 else rng.choice([lit(2.5), lit(7), let("t"), let("n")]))
            elif kind == "c":
                args.append(par(n) if c < 0.9 or runnable else lit(rng.randrange(4)))
            else:
                args.append(par(n) if c < 0.9 else ["reg", rng.choice(["r", "a"])])
        if runnable and len(qs) == 2 and rng.random() < 0.3:
            ia, ib = [j for j, (n, kk) in enumerate(sig) if kk == "q"]
            args[ia], args[ib] = args[ib], args[ia]
        call = G(f"M{k - 1}", *args)
        stmts = [call]
        if rng.random() < 0.25:
            stmts.insert(rng.randrange(2), G(rng.choice(["S", "SX", "cal.X"]), aq))
        c = rng.random()
        if c < pw:
            w = rng.random()
            if w < 0.6 or runnable:
                if runnable:
                    cnt = lit(2) if twos < 5 and rng.random() < 0.3 else lit(1)
                    twos += cnt[1] == 2
                else:
                    cnt = par("c") if "c" in names and rng.random() < 0.5 else rng.choice([lit(rng.randrange(5)), let("n")])
                stmts = [L(cnt, B(stmts))]
            elif w < 0.85:
                stmts = [B([s if s[0] == "g" else B([s]) for s in stmts], par=True)]
            else:
                stmts = [B([B(stmts), G("N", aq)], par=True)]
        p["macros"].append([f"M{k}", [list(q) for q in sig], "plain", B(stmts)])
    # the call
    top = []
    for n, kind in sig:
        if kind == "q":
            top.append(rq("r", len([t for t in top if t[0] == "idx"])))
        elif kind == "i":
            top.append(lit(rng.randrange(3)))
        elif kind == "f":
            top.append(rng.choice([lit(0.25), lit(3), let("t")]))
        elif kind == "c":
            top.append(lit(1) if runnable else rng.choice([lit(2), lit(3), let("n")]))
        else:
            top.append(["reg", "r"])
    calls = [G(f"M{N - 1}", *top)]
    if N > 4 and rng.random() < 0.5:
        calls.append(G(f"M{rng.randrange(N)}", *top))
    if runnable:
        p["body"] = [B(calls, sub=True)]
    else:
        place = rng.choice(["top", "loop", "par", "sub", "loop-par"])
        kinds = {"top": [], "loop": ["loop"], "par": ["par"], "sub": ["sub"], "loop-par": ["loop", "par", "seq"]}[place]
        p["body"] = wrap(kinds, calls, lambda d: lit(2 + d))
    return p


def fam_nest(rng, N, runnable):
    p = base(rng)
    variant = rng.choice(["call-below", "body-deep", "both"])
    p["_variant"] = variant
    inner = ["inner", [["u", "q"], ["k", "i"]], "plain", B([G("P", par("u"), par("k")), G("cal.X", par("u"))])]
    p["macros"].append(inner)

    def cnt_body(d):
        if runnable:
            return lit(2) if d % 61 == 3 else lit(1)
        return par("c") if d % 3 == 0 else lit(d % 5) if d % 3 == 1 else let("n")

    def cnt_top(d):
        if runnable:
            return lit(2) if d % 67 == 5 else lit(1)
        return lit(d % 4 + 1) if d % 2 else let("n")

    nb = {"call-below": 1, "body-deep": N, "both": N // 2}[variant]
    nt = {"call-below": N, "body-deep": 0, "both": N - N // 2}[variant]
    kinds_b = construct_kinds(rng, nb, allow_sub=False, allow_par=not runnable)
    bottom = [G("inner", par("u"), par("i")), G("X", par("u"))]
    if rng.random() < 0.5:
        bottom.append(G("inner", rq("r", 1), par("c")))
    body = wrap(kinds_b, bottom, cnt_body)
    p["macros"].append(["m", [["u", "q"], ["i", "i"], ["c", "i"]], "plain", B(body)])
    kinds_t = construct_kinds(rng, nt, allow_sub=not runnable, allow_par=not runnable)
    calls = [G("m", rq("r", rng.randrange(p["_R"])), lit(rng.randrange(3)), lit(1) if runnable else lit(rng.randrange(1, 4)))]
    if rng.random() < 0.6:
        calls.append(G("inner", rq("a", 0), let("n")))
    if rng.random() < 0.4:
        calls.append(G("S", ["qa", "b"]))
    if runnable:
        kinds_t = ["sub"] + kinds_t
    p["body"] = wrap(kinds_t, calls, cnt_top)
    return p


def fam_stmts(rng, N, runnable):
    p = base(rng)
    R = p["_R"]
    ctx = rng.choice(["sub", "macro"] if runnable else ["top", "loop", "sub", "par", "seqinpar", "macro", "macro"])
    p["_variant"] = ctx
    p["macros"].append(["g1", [["u", "q"], ["k", "i"]], "plain", B([G("P", par("u"), par("k"))])])
    p["macros"].append(["g2", [["u", "q"], ["v", "q"]], "plain", B([G("CX", par("u"), par("v")), G("g1", par("v"), lit(3))])])
    p["macros"].append(["g0", [], "plain", B([G("cal.X", rq("r", 0))])])
    in_macro = ctx == "macro"
    stmts = []
    for i in range(N):
        c = rng.random()
        qa = par("u") if in_macro and c < 0.5 else rq("r", i % R)
        qb = rq("r", (i + 1) % R)
        if in_macro and qa[0] == "par":
            qb = par("v")
        k = par("k") if in_macro and rng.random() < 0.5 else lit(i % 4)
        c = rng.random()
        if c < 0.4:
            stmts.append(G("g1", qa, k))
        elif c < 0.6:
            stmts.append(G("g2", qa, qb))
        elif c < 0.7:
            stmts.append(G("g0"))
        elif c < 0.9:
            stmts.append(G(rng.choice(["X", "Y", "S", "X.cal"]), qa))
        elif ctx == "par":
            stmts.append(B([G("g1", qa, k), G("Z", qa)]))
        else:
            stmts.append(L(lit(1) if runnable else lit(i % 3), B([G("g1", qa, k)])))
    if in_macro:
        p["macros"].append(["big", [["u", "q"], ["v", "q"], ["k", "i"]], "plain", B(stmts)])
        stmts = [G("big", rq("r", 0), rq("r", 1), lit(2))]
        if rng.random() < 0.5:
            stmts.append(G("big", rq("r", 2), rq("r", 3), let("n")))
    if ctx in ("top", "macro") and not runnable:
        p["body"] = stmts
    elif ctx == "loop":
        p["body"] = [L(let("n"), B(stmts))]
    elif ctx == "sub" or runnable:
        p["body"] = [B(stmts, sub=True, it=rng.choice([None, lit(2)]))]
    elif ctx == "par":
        p["body"] = [B(stmts, par=True)]
    else:
        p["body"] = [B([G("X", rq("r", 0)), B(stmts)], par=True)]
    return p


def fam_macros(rng, N, runnable):
    p = base(rng)
    R = p["_R"]
    sigs, size = [], []
    for k in range(N):
        sig = rng.choice([[["u", "q"]], [["u", "q"], ["k", "i"]], [["k", "i"], ["u", "q"]], [["u", "q"], ["x", "f"], ["k", "i"]], []])
        body = []
        size.append(2)
        names = [n for n, _ in sig]
        aq = par("u") if "u" in names else rq("r", k % R)
        body.append(G("P", aq, par("k") if "k" in names else lit(k % 4)))
        if "x" in names:
            body.append(G("PF", par("x"), aq))
        ncall = 0 if not sigs else rng.choice([0, 1, 1, 1, 2]) if k % 7 else 1
        for _ in range(ncall):
            j = rng.randrange(max(0, k - 40), k) if rng.random() < 0.8 else rng.randrange(k)
            if size[k] + size[j] > 40:       # the expansion stays small: only the NUMBER of macros is large
                continue
            size[k] += size[j]
            args = [aq if kk == "q" else (par("k") if "k" in names and rng.random() < 0.6 else lit(k % 3)) if kk == "i"
                    else (par("x") if "x" in names else lit(0.5 + k)) for _, kk in sigs[j]]
            body.insert(rng.randrange(len(body) + 1), G(f"m{j}", *args))
        sigs.append(sig)
        p["macros"].append([f"m{k}", sig, "plain", B(body)])
    # expanded size stays linear-ish: cap by dropping second calls if it explodes (checked by the caller via cost)
    which = list(range(N)) if N <= 300 else sorted(set(rng.sample(range(N), 120) + [N - 1]))
    calls = []
    for k in which:
        calls.append(G(f"m{k}", *[rq("r", k % R) if kk == "q" else lit(k % 3) if kk == "i" else lit(k / 4) for _, kk in sigs[k]]))
    p["body"] = [B(calls, sub=True)] if runnable else calls
    return p


def fam_params(rng, N, runnable):
    p = base(rng, R=rng.randrange(4, 7))
    R = p["_R"]
    kinds = [rng.choice("qqif") for _ in range(N)]
    kinds[0] = "q"
    sig = [[f"p{i}", kinds[i]] for i in range(N)]
    body = []
    lastq = par("p0")
    for n, k in sig:
        if k == "q":
            lastq = par(n)
            body.append(G("X", lastq))
        elif k == "i":
            body.append(G("P", lastq, par(n)))
        else:
            body.append(G("PF", par(n), lastq))
    p["macros"].append(["big", sig, "plain", B(body)])
    # outer forwards in another order (within each kind), some replaced
    order = {}
    for k in "qif":
        idx = [i for i in range(N) if kinds[i] == k]
        sh = idx[:]
        rng.shuffle(sh)
        order.update(dict(zip(idx, sh)))
    osig = [[f"a{i}", kinds[i]] for i in range(N)]
    fwd = [par(f"a{order[i]}") if rng.random() < 0.9 else (rq("r", i % R) if kinds[i] == "q" else lit(i % 3) if kinds[i] == "i" else lit(i + 0.5))
           for i in range(N)]
    p["macros"].append(["outer", osig, "plain", B([G("big", *fwd), G("S", par("a0"))])])
    args = [rq("r", i % R) if kinds[i] == "q" else (let("n") if i % 5 == 0 else lit(i % 4)) if kinds[i] == "i" else (let("t") if i % 7 == 0 else lit(i / 8))
            for i in range(N)]
    calls = [G("outer", *args), G("big", *args)]
    p["body"] = [B(calls, sub=True)] if runnable else wrap(rng.choice([[], ["loop"], ["par"]]), calls, lambda d: lit(3))
    return p


def fam_header(rng, N, runnable):
    nu = rng.choice([0, 1, 2, min(N, 64)])
    p = base(rng, usepulses=[f"pulses.m{i}" if i % 3 else f"pm{i}" for i in range(nu)])
    R = p["_R"]
    what = rng.choice(["lets", "maps", "both"])
    p["_variant"] = what
    nl = N if what in ("lets", "both") else 3
    nm = N if what in ("maps", "both") else 3
    for i in range(nl):
        p["lets"].append([f"c{i}", (i % 3) if i % 2 == 0 else i + 0.5])
    for i in range(nm):
        k = i % 4
        if k == 0:
            p["maps"].append([f"q{i}", rq("r", i % R)])
        elif k == 1:
            p["maps"].append([f"q{i}", ["slice", ["reg", "r"], lit(i % 2), None, None]])      # size >= 3
        elif k == 2:
            p["maps"].append([f"q{i}", ["reg", "r"]])
        else:
            src = f"q{i - 2}" if i >= 2 else "r"                                     # alias of an alias (depth 2)
            p["maps"].append([f"q{i}", ["slice", ["reg", src], lit(0), lit(3), None]])
    ilets = [f"c{i}" for i in range(0, nl, 2)]
    flets = [f"c{i}" for i in range(1, nl, 2)] or ["t"]
    qmaps = [f"q{i}" for i in range(0, nm, 4)]
    rmaps = [f"q{i}" for i in range(nm) if i % 4]
    # macros use the globals directly and through parameters (some parameters shadow header names)
    p["macros"].append(["m0", [["u", "q"], ["k", "i"], ["x", "f"]], "plain",
                        B([G("P", par("u"), par("k")), G("PF", par("x"), par("u")),
                           G("P", ["qa", rng.choice(qmaps)], let(rng.choice(ilets))),
                           G("X", rq(rng.choice(rmaps), let(rng.choice(ilets))))])])
    shadow = rng.choice(ilets)          # a parameter that shadows a header name
    others = [x for x in ilets if x != shadow] or ["n"]
    p["macros"].append(["m1", [[shadow, "q"], ["w", "r"], ["k", "i"]], "plain",
                        B([G("m0", par(shadow), par("k"), let(rng.choice(flets))), G("Y", ["idx", par("w"), par("k")]),
                           L(let(rng.choice(others)), B([G("m0", ["idx", par("w"), lit(1)], let(rng.choice(others)), par("k"))]))])])
    calls = []
    step = max(1, N // 24)
    for i in range(0, N, step):
        il, fl = ilets[i % len(ilets)], flets[i % len(flets)]
        if i % 2:
            calls.append(G("m0", ["qa", qmaps[i % len(qmaps)]], let(il), let(fl)))
        else:
            calls.append(G("m1", rq(rmaps[i % len(rmaps)], let(il)), ["reg", rmaps[(i + 1) % len(rmaps)]], let(il)))
    p["body"] = [B(calls, sub=True)] if runnable else wrap(rng.choice([[], ["loop"], ["sub"]]), calls, lambda d: let(ilets[0]))
    return p


def fam_fanout(rng, K, runnable):
    p = base(rng)
    p["macros"].append(["f0", [["u", "q"], ["v", "q"], ["k", "i"]], "plain", B([G("CX", par("u"), par("v")), G("P", par("v"), par("k"))])])
    for k in range(1, K + 1):
        second = G(f"f{k - 1}", par("v"), par("u"), lit(k % 4) if rng.random() < 0.5 else par("k"))
        p["macros"].append([f"f{k}", [["u", "q"], ["v", "q"], ["k", "i"]], "plain",
                            B([G(f"f{k - 1}", par("u"), par("v"), par("k")), second if rng.random() < 0.8 or runnable else L(lit(2), B([second]))])])
    call = G(f"f{K}", rq("r", 0), rq("r", 2), lit(1))
    p["body"] = [B([call], sub=True)] if runnable else wrap(rng.choice([[], ["loop"], ["sub"]]), [call], lambda d: lit(2))
    return p


def fam_counts(rng, N, runnable):
    p = base(rng, R=max(4, min(N, 300)))
    R = p["_R"]
    p["lets"].append(["big", N])
    p["maps"].append(["hi", ["slice", ["reg", "r"], lit(R - 3), None, None]])
    p["macros"].append(["m0", [["c", "i"], ["j", "i"], ["w", "r"]], "plain",
                        B([L(par("c"), B([G("X", ["idx", par("w"), par("j")]), G("P", rq("r", par("j")), par("c"))])),
                           B([G("Y", rq("r", par("j")))], sub=True, it=par("c"))])])
    p["macros"].append(["m1", [["c", "i"], ["j", "i"]], "plain",
                        B([G("m0", par("c"), par("j"), ["reg", "r"]), G("m0", let("big"), lit(2), ["reg", "hi"]),
                           L(let("big"), B([G("m0", lit(N), par("j"), ["reg", "r"])]))])])
    p["body"] = [G("m1", lit(N), lit(R - 1)), G("m1", let("big"), lit(0)), L(lit(N), B([G("m0", lit(1), lit(R - 1), ["reg", "r"])]))]
    return p


def fam_qubits(rng, N, runnable):
    p = base(rng, R=N)
    p["maps"] = [["a", ["slice", ["reg", "r"], lit(1), None, None]], ["b", rq("r", N - 1)],
                 ["ev", ["slice", ["reg", "r"], lit(0), None, lit(2)]]]
    p["macros"].append(["m0", [["u", "q"], ["v", "q"], ["j", "i"]], "plain",
                        B([G("CX", par("u"), par("v")), G("P", rq("r", par("j")), lit(1)), G("SX", rq("a", par("j")))])])
    p["macros"].append(["m1", [["j", "i"], ["w", "r"]], "plain",
                        B([G("m0", ["idx", par("w"), par("j")], ["qa", "b"], par("j")), G("X", ["idx", par("w"), lit(0)]),
                           G("m0", rq("r", 0), ["idx", par("w"), lit(1)], lit(N - 2))])])
    sub = []
    for j in sorted(rng.sample(range(1, N - 1), min(4, N - 2))):
        sub.append(G("m1", lit(j), ["reg", "r"]))
    sub.append(G("m1", lit(2), ["reg", "ev"]))
    sub.append(G("m0", rq("r", N - 2), rq("r", 0), lit(N - 2)))
    p["body"] = [B(sub, sub=True), B([G("m0", rq("r", N - 1), rq("r", 1), lit(0)), G("X", rq("r", N - 1))], sub=True, it=lit(2))]
    return p


# sizes: one more than each threshold (a cut-off "at T" or "beyond T" both show at T + 1), and the sizes named in the brief
FAMILIES = {
    #            quick sizes                                     thorough extra     runnable allowed
    "chain":  (fam_chain,  [9, 17, 33, 40, 65, 100, 129],           [150, 160, 190], True),
    "nest":   (fam_nest,   [9, 17, 21, 33, 41, 65, 129, 200],       [257],           True),
    "stmts":  (fam_stmts,  [9, 17, 33, 65, 129, 201, 257, 1001],    [2001],          True),
    "macros": (fam_macros, [9, 17, 33, 65, 101, 129, 257],          [1001],          True),
    "params": (fam_params, [9, 17, 33, 65, 129, 257],               [1001],          False),
    "header": (fam_header, [9, 17, 33, 50, 65, 101, 129, 257],      [1001],          True),
    "fanout": (fam_fanout, [3, 5, 8, 9],                            [10],            True),
    "counts": (fam_counts, [9, 17, 33, 35, 65, 129, 257, 1001, 65537], [],           False),
    "qubits": (fam_qubits, [8, 10, 12],                             [13, 14],        True),
}


# ------------------------------------------------------------------------------------------------
# reference (flat token sequences) and lifting of library objects

def _clean(p):
    return {k: v for k, v in p.items() if not k.startswith("_")}


def tokens(m, out=None):
    """a normalised meaning (c04_entry.norm) as a flat list of hashable tokens"""
    out = [] if out is None else out
    if "g" in m:
        out.append(("g", m["g"], json.dumps(m["a"])))
    elif "l" in m:
        out.append(("loop", m["l"]))
        tokens(m["body"], out)
        out.append(("end-loop",))
    else:
        out.append(("blk", m["par"], m["sub"], m["it"]))
        for s in m["b"]:
            tokens(s, out)
        out.append(("end-blk",))
    return out


def reference(p, vals=None):
    """-> (macro-free statements, tokens of the meaning)"""
    macros = {name: ([q for q, _ in params], blk) for name, params, _cls, blk in p["macros"]}
    flat = [E.expand_stmt(s, {}, macros, 10 ** 6) for s in p["body"]]
    close = E.names_of(p)
    m = E.norm(E.meaning(["blk", False, False, None, [E.close_stmt(s, close) for s in flat]], vals or {}))
    return flat, tokens(m)


def cost(p, flat):
    """number of native gate applications when every loop / subcircuit count is unrolled"""
    close = E.names_of(p)

    def c(s):
        if s[0] == "g":
            return 1
        if s[0] == "loop":
            return max(0, int(E.ev_num(close(s[1]), {}))) * c(s[2])
        return sum(c(x) for x in s[4])

    return sum(c(s) for s in flat)


def lift_term(v):
    if isinstance(v, np.generic):
        v = v.item()
    if isinstance(v, bool):
        raise E.RefError("bool")
    if isinstance(v, (int, float)):
        return ["lit", v]
    if isinstance(v, Constant):
        x = v.value
        while isinstance(x, Constant):
            x = x.value
        if isinstance(x, np.generic):
            x = x.item()
        return ["const", v.name, x]
    if isinstance(v, Parameter):
        return ["par", v.name]
    if isinstance(v, NamedQubit):
        return ["idx", lift_term(v.alias_from), lift_term(v.alias_index)]
    if isinstance(v, Register):
        if v.fundamental:
            return ["freg", v.name, lift_term(v._size)]
        sl = v.alias_slice
        if sl is None:
            return lift_term(v.alias_from)
        return ["slice", lift_term(v.alias_from)] + [None if x is None else lift_term(x) for x in (sl.start, sl.stop, sl.step)]
    raise E.RefError(f"cannot lift {type(v).__name__}")


def lift_stmt(s):
    if isinstance(s, GateStatement):
        return ["g", s.name, [lift_term(v) for v in s.parameters.values()]]
    if isinstance(s, LoopStatement):
        return ["loop", lift_term(s.iterations), lift_stmt(s.statements)]
    if isinstance(s, BlockStatement):
        return ["blk", bool(s.parallel), bool(s.subcircuit), lift_term(s.iterations), [lift_stmt(x) for x in s.statements]]
    raise E.RefError(f"cannot lift statement {type(s).__name__}")


def lifted_tokens(c, vals=None):
    """reference meaning of a library circuit that may still have macros"""
    macros = {n: ([q.name for q in m.parameters], lift_stmt(m.body)) for n, m in c.macros.items()}
    return tokens(E.norm(E.meaning(E.expand_stmt(lift_stmt(c.body), {}, macros, 10 ** 6), vals or {})))


def result_tokens(c):
    return tokens(E.norm(E.meaning(lift_stmt(c.body), {})))


def first_diff(a, b):
    n = min(len(a), len(b))
    i = next((k for k in range(n) if a[k] != b[k]), n)
    return f"{len(a)} vs {len(b)} tokens, first difference at token {i}: reference {a[i:i + 3]} / result {b[i:i + 3]}"


# ------------------------------------------------------------------------------------------------
# the object-level front end

def sx_term(t, num):
    k = t[0]
    if k == "lit":
        return num(t[1])
    if k in ("let", "par", "reg", "qa"):
        return t[1]
    if k == "idx":
        return ("array_item", sx_term(t[1], lambda v: v), sx_term(t[2], lambda v: v))
    raise ValueError(t)


def sx_stmt(s, num, kinds):
    """`num` converts the literal arguments of native gates, and those macro arguments that can only end up as the
    numeric argument of a native gate (parameters of kind "f"); loop counts and indices stay Python integers (a numpy
    integer is not a legal loop count even without macros)"""
    if s[0] == "g":
        ks = kinds.get(s[1])
        return ("gate", s[1]) + tuple(sx_term(a, num if ks is None or ks[i] == "f" else (lambda v: v)) for i, a in enumerate(s[2]))
    if s[0] == "loop":
        return ("loop", sx_term(s[1], lambda v: v), sx_stmt(s[2], num, kinds))
    _, par_, sub, it, body = s
    inner = tuple(sx_stmt(x, num, kinds) for x in body)
    if sub:
        return ("subcircuit_block", None if it is None else sx_term(it, lambda v: v)) + inner
    return ("parallel_block" if par_ else "sequential_block",) + inner


def sexpr_of(p, num=lambda v: v):
    out = ["circuit"]
    out += [("usepulses", u, "*") for u in p["usepulses"]]
    out += [("let", n, v) for n, v in p["lets"]]
    out.append(("register", p["reg"][0], sx_term(p["reg"][1], lambda v: v)))
    for n, src in p["maps"]:
        if src[0] == "slice":
            out.append(("map", n, src[1][1]) + tuple(None if x is None else sx_term(x, lambda v: v) for x in src[2:]))
        elif src[0] == "idx":
            out.append(("map", n, src[1][1], sx_term(src[2], lambda v: v)))
        else:
            out.append(("map", n, src[1]))
    kinds = {name: [k for _, k in params] for name, params, _cls, _blk in p["macros"]}
    for name, params, _cls, blk in p["macros"]:
        out.append(("macro", name) + tuple(q for q, _ in params) + (sx_stmt(blk, num, kinds),))
    out += [sx_stmt(s, num, kinds) for s in p["body"]]
    return tuple(out)


def np_num(rng_seed):
    r = random.Random(rng_seed)

    def num(v):
        # numpy.float64 is a Python float, hence a legal value wherever a float is; numpy.float32 and the numpy integers
        # are rejected by the typed native gates of the injected set with or without macros (JaqalError: Type-checking
        # failed), so C04 says nothing about them
        if isinstance(v, float) and r.random() < 0.8:
            return np.float64(v)
        return v

    return num


# ------------------------------------------------------------------------------------------------
# checking

def parse(text, **kw):
    return parse_jaqal_string(text, inject_pulses=GX, autoload_pulses=False, **kw)


def parse_file(path, **kw):
    return parse_jaqal_file(path, inject_pulses=GX, autoload_pulses=False, **kw)


class Checker(object):
    def __init__(self, tmpdir):
        self.oracle = {}
        self.dist = Counter()
        self.tmpdir = tmpdir
        self.nfile = 0
        self.E = E.Checker(tmpdir)
        for cond, name in (("True", PULSE_A), ("k not in ('CCX', 'ROT3', 'N')", PULSE_B)):
            with open(os.path.join(tmpdir, name + ".py"), "w") as fd:
                fd.write(PULSE_FILE % cond)

    def rec(self, name, ok, case, detail=""):
        o = self.oracle.setdefault(name, {"cases": 0, "failures": []})
        o["cases"] += 1
        if not ok:
            o["failures"].append({"case": case, "detail": detail})

    def path_for(self, text):
        self.nfile += 1
        path = os.path.join(self.tmpdir, f"s{self.nfile}.jaqal")
        with open(path, "w") as fd:
            fd.write(text)
        return path

    def result(self, part, label, out, expect, base, case, legit_reject=False, macro_names=(), get=lambda x: x):
        """one result circuit against the property"""
        self.dist[f"{part} entry: {label.split(' [')[0] if part != 'defaults' or label.startswith(('expand_macros', 'run_')) else label.split('(')[0]}"] += 1
        if out[0] == "err":
            if out[1] == "JaqalError" and legit_reject:
                self.dist[f"{part}: rejected like the same call without expansion"] += 1
                return None
            self.rec(f"C04s_yields@{part}", False, case, f"{label}: {out[1]}: {out[2]}")
            return None
        self.rec(f"C04s_yields@{part}", True, case)
        try:
            c = get(out[1])
            left = E.calls_left(c, macro_names)
        except Exception as e:  # noqa
            self.rec(f"C04s_no_calls@{part}", False, case, f"{label}: result unusable: {type(e).__name__}: {e}")
            return None
        self.rec(f"C04s_no_calls@{part}", not left, case, f"{label}: macro calls left in the body: {left[:4]}")
        if not left:
            try:
                got = result_tokens(c)
                ok, det = got == expect, ""
                if not ok:
                    det = first_diff(expect, got)
            except E.RefError as e:
                ok, det = False, f"unreadable result: {e}"
            self.rec(f"C04s_meaning@{part}", ok, case, f"{label}: {det}")
        if base is not None:
            try:
                hc, hb = E.header_of(c), E.header_of(base)
                ok = hc == hb
                det = "" if ok else "header differs from the same call without macro expansion: " + ", ".join(
                    f"{k}: {str(hb[k])[:150]} -> {str(hc[k])[:150]}" for k in hb if hb[k] != hc[k])
            except Exception as e:  # noqa
                ok, det = False, f"header not dumpable: {type(e).__name__} {e}"
            self.rec(f"C04s_header@{part}", ok, case, f"{label}: {det}")
        return c

    def arity(self, part, label, out, case):
        self.dist[f"{part} arity: {label}"] += 1
        ok = out[0] == "err" and out[1] == "JaqalError"
        self.rec(f"C04s_arity@{part}", ok, case,
                 f"{label}: " + ("returned a circuit/result" if out[0] == "ok" else f"{out[1]}: {out[2]}"))

    def results(self, part, label, a, b, case):
        """a = outcome for the program with macros, b = for the macro-free reference program"""
        self.dist[f"{part} entry: {label}"] += 1
        if a[0] == "err" and b[0] == "err" and a[1] == b[1] == "JaqalError":
            self.dist[f"{part}: both programs rejected ({b[2][:40]})"] += 1
        elif a[0] == "ok" and b[0] == "ok":
            ok = E.close_enough(a[1][0], b[1][0]) and len(a[1][1]) == len(b[1][1])
            self.rec(f"C04s_results@{part}", ok, case, f"{label}: probabilities / number of readouts differ from the "
                     f"macro-free reference program: {json.dumps(a[1][0])[:200]} vs {json.dumps(b[1][0])[:200]}")
        else:
            self.rec(f"C04s_results@{part}", False, case, f"{label} -> {str(a)[:200]} but the macro-free reference "
                     f"program -> {str(b)[:200]}")


def run_results(f):
    def g():
        np.random.seed(12345)
        return E.results_of(f())
    return E.guarded(g)


def prepare(ck, p, text, part):
    """reference + plain parse + self check; -> (flat, M, c0) or None"""
    try:
        flat, M = reference(p)
    except E.RefError as e:
        ck.dist[f"{part} generator: reference undefined ({e})"] += 1
        return None
    o = E.guarded(lambda: parse(text))
    if o[0] == "err":
        ck.dist[f"{part} generator: plain parse rejects ({o[1]}: {o[2][:60]})"] += 1
        return None
    c0 = o[1]
    try:
        if lifted_tokens(c0) != M:
            ck.dist[f"{part} SELFCHECK (case skipped): AST reference != reference on the lifted parse"] += 1
            return None
    except E.RefError as e:
        ck.dist[f"{part} SELFCHECK (case skipped): lifted reference undefined ({e})"] += 1
        return None
    return flat, M, c0


def check_scale(ck, case, p):
    part = "scale"
    text = case["text"] if "text_full" not in case else case["text_full"]
    pre = prepare(ck, p, text, part)
    if pre is None:
        return False
    flat, M, c0 = pre
    names = set(c0.macros)
    rng = random.Random(case["rseed"] + 17)
    # deep recursion is slow in CPython (seconds per expansion on a loaded machine): in the quick tier the deepest cases
    # go through the pass, the parse flag and the emulator only
    light = not case.get("thorough") and case["family"] in ("chain", "nest") and case["size"] >= 100

    def res(label, out, base=c0, legit=False):
        return ck.result(part, label, out, M, base, case, legit, names)

    res("expand_macros(c)", E.guarded(lambda: expand_macros(c0)))
    if not light:
        res("expand_macros(c, preserve_definitions=True)", E.guarded(lambda: expand_macros(c0, preserve_definitions=True)))
    res("parse_jaqal_string(expand_macro=True)", E.guarded(lambda: parse(text, expand_macro=True)))
    if rng.random() < 0.4 and not light:
        path = ck.path_for(text)
        res("parse_jaqal_file(expand_macro=True)", E.guarded(lambda: parse_file(path, expand_macro=True)))
    if rng.random() < 0.5 and not light:
        base = E.guarded(lambda: parse(text, expand_let=True))
        if base[0] == "ok" or base[1] == "JaqalError":
            res("parse_jaqal_string(expand_macro=True, expand_let=True)", E.guarded(lambda: parse(text, expand_macro=True, expand_let=True)),
                base[1] if base[0] == "ok" else None, base[0] == "err")
    # the object-level front end (also with numpy numbers as arguments)
    quick = not case.get("thorough")
    variants = [("build(s-expression)", lambda v: v), ("build(s-expression with numpy.float64 arguments)", np_num(case["rseed"]))]
    if quick:
        variants = [rng.choice(variants)]
    for label, num in variants:
        if rng.random() < 0.6 and not light:
            b = E.guarded(lambda: build(sexpr_of(p, num), inject_pulses=GX))
            if b[0] == "err":
                ck.dist[f"{part} generator: {label} rejects ({b[1]}: {b[2][:60]})"] += 1
                continue
            cb = b[1]
            try:
                same = lifted_tokens(cb) == M
            except E.RefError as e:
                same = False
            if not same:
                ck.dist[f"{part} SELFCHECK (entry skipped): reference on the lifted {label} differs"] += 1
                continue
            res(f"expand_macros({label})", E.guarded(lambda: expand_macros(cb)), cb)
    # through the results
    if case["runnable"]:
        n = cost(p, flat)
        if n <= 6000:
            ref_text = E.program_text(p, with_macros=False, body=E.splice(flat, False))
            cr = E.guarded(lambda: parse(ref_text))
            if cr[0] == "err":
                ck.dist[f"{part} generator: reference program rejected ({cr[1]}: {cr[2][:60]})"] += 1
            else:
                cref = cr[1]
                a, b = run_results(lambda: run_jaqal_circuit(c0)), run_results(lambda: run_jaqal_circuit(cref))
                ck.results(part, "run_jaqal_circuit(c)", a, b, case)
                if b[0] == "ok" and not light:
                    outs = [x[0] for x in b[1][1]]
                    a2 = E.guarded(lambda: E.freq_of(parse_jaqal_output_list(c0, list(outs))))
                    b2 = E.guarded(lambda: E.freq_of(parse_jaqal_output_list(cref, list(outs))))
                    ck.dist[f"{part} entry: parse_jaqal_output_list(c, outputs)"] += 1
                    if b2[0] == "ok" or not (a2[0] == "err" and a2[1] == b2[1]):
                        ck.rec(f"C04s_results@{part}", a2 == b2, case,
                               f"parse_jaqal_output_list: {str(a2)[:200]} vs macro-free reference {str(b2)[:200]}")
        else:
            ck.dist[f"{part}: too many gate applications for the emulator, not run"] += 1
    if not quick:
        res("expand_macros(c) again, after the other entry points", E.guarded(lambda: expand_macros(c0)))
    # wrong arity somewhere in the reachable call graph (often deep)
    if case.get("arity") and not light:
        q = _clean(p)
        bad = E.make_bad(random.Random(case["rseed"] + 5), q)
        if bad:
            bt = bad["text"]
            ck.arity(part, "parse_jaqal_string(expand_macro=True) of a text with one bad call",
                     E.guarded(lambda: parse(bt, expand_macro=True)), case)
            for label, f in (("expand_macros(c)", lambda c: expand_macros(c)),
                             ("expand_macros(c, preserve_definitions=True)", lambda c: expand_macros(c, preserve_definitions=True))):
                o = E.guarded(lambda: parse(text))
                if o[0] == "ok":
                    c = o[1]
                    where = E.mutate(c, bad["which"], bad["how"])
                    if where is not None:
                        ck.arity(part, label + f" with a mutated call ({where})", E.guarded(lambda: f(c)), case)
    return True


# ------------------------------------------------------------------------------------------------
# NAMES

LONG = "z" * 255
NAME_POOLS = {
    "dotted": ["cal.x", "a.b.c", "x.y", "q.r", "lib.m", "p.a", "jaqal.std.v1", "x.1", "r.0", "x.e5", "a.b", "b.a"],
    "dotted-pair": ["x", "a.x", "x.a", "x.x", "a.x.a", "a.a.x", "m", "m.m", "lib.m.m"],
    "dunder": ["__macro__", "__c10", "__r0", "__", "_", "___", "__in_context__", "__init__", "__class__", "__dict__", "_0", "__0.__1"],
    "keyword-like": ["le", "lett", "let_", "ma", "mapp", "macr", "macros", "loo", "loops", "reg", "registers", "fro", "from_",
                     "usepulse", "usepulses_", "impor", "imports", "a_s", "as_", "branc", "branches", "subcircui", "subcircuits",
                     "Let", "LOOP", "Macro", "Register", "MAP", "let.x", "loop.macro", "x.let", "register.map", "as.from"],
    "prepare-like": ["prepare_al", "prepare_all_", "prepare", "measure_al", "measure_all2", "prepare_all.x", "x.measure_all",
                     "measure", "prepare_all.measure_all", "Prepare_all", "measure_All"],
    "internal": ["self", "cls", "args", "kwargs", "p0", "p1", "p2", "I_X", "I_", "name", "parameters", "body", "statements",
                 "iterations", "all", "None", "True", "False", "sequential", "parallel", "sequential_block", "gate", "array_item",
                 "circuit", "gate_def", "alias_from", "alias_index", "size", "value", "lambda", "def", "class", "import_", "extra_",
                 "visitor", "macro_", "other", "kind", "pi", "inf", "nan", "e", "j", "E1", "e5", "x0", "b0", "b1", "o7"],
    "gate-like": ["X", "Y", "CX", "P", "PF", "N", "Xx", "x", "cX", "Cx", "cal.X", "X.cal", "SWAP.SWAP"],
    "long": ["L" * 256, "m" * 300, "v" * 1000, LONG + "a", LONG + "b", LONG + ".a", LONG + "_", "w" * 255, "k." * 200 + "k"],
}
# macro names must not collide with the native gates (incl. the dotted copies); no name may be "extra__", the key that
# c04_entry.mutate adds to a call to give it one argument too many


def rename_program(rng, p, ov, pools, dotted_gates):
    """-> (program, overrides) with the identifiers renamed consistently; variables (parameters, lets, registers,
    aliases) form one name space (shadowing is preserved because the renaming is a function of the old name), macro
    names another one (a variable and a macro may get the same spelling)"""
    q = json.loads(json.dumps(p))
    vars_, gates = [], []

    def seen(l, n):
        if n not in l:
            l.append(n)

    def walk_t(t):
        if t is None:
            return
        if t[0] in ("let", "par", "reg", "qa"):
            seen(vars_, t[1])
        elif t[0] == "idx":
            walk_t(t[1]), walk_t(t[2])
        elif t[0] == "slice":
            for x in t[1:]:
                walk_t(x)

    def walk_s(s):
        if s[0] == "g":
            for a in s[2]:
                walk_t(a)
        elif s[0] == "loop":
            walk_t(s[1]), walk_s(s[2])
        else:
            walk_t(s[3])
            for x in s[4]:
                walk_s(x)

    # the parameters of one macro come first and next to each other: they get neighbouring spellings of the pool
    for name, params, _cls, blk in q["macros"]:
        seen(gates, name)
        for x, _ in params:
            seen(vars_, x)
    for n, _ in q["lets"]:
        seen(vars_, n)
    seen(vars_, q["reg"][0])
    walk_t(q["reg"][1])
    for n, src in q["maps"]:
        seen(vars_, n)
        walk_t(src)
    for name, params, _cls, blk in q["macros"]:
        walk_s(blk)
    for s in q["body"]:
        walk_s(s)
    pool = [n for k in pools for n in NAME_POOLS[k]]

    def assign(olds, forbidden, keep):
        cand = [n for n in pool if n not in forbidden]
        if rng.random() < 0.6 and cand:
            # pool order (confusable spellings are neighbours in the pools), from a random start; pop() takes from the end
            k = rng.randrange(len(cand))
            cand = (cand[k:] + cand[:k])[::-1]
        else:
            rng.shuffle(cand)
        m = {}
        for o in olds:
            if rng.random() < keep or not cand:
                m[o] = o
            else:
                m[o] = cand.pop()
        # injective: an unrenamed old name may coincide with a new one
        if len(set(m.values())) != len(m):
            used = set()
            for o in olds:
                while m[o] in used:
                    m[o] = cand.pop() if cand else o + "_" + str(len(used))
                used.add(m[o])
        return m

    vm = assign(vars_, set(), 0.15)
    gm = assign(gates, set(GX) | {"prepare_all", "measure_all"}, 0.15)
    natives = {}
    if dotted_gates:
        inv = {}
        for alias, orig in DOTTED_GATES.items():
            inv.setdefault(orig, []).append(alias)
        natives = {o: rng.choice(a) for o, a in inv.items() if rng.random() < 0.7 and not (set(a) & set(gm.values()))}

    def ren_t(t):
        if t is None:
            return None
        if t[0] in ("let", "par", "reg", "qa"):
            return [t[0], vm[t[1]]]
        if t[0] == "idx":
            return ["idx", ren_t(t[1]), ren_t(t[2])]
        if t[0] == "slice":
            return ["slice"] + [ren_t(x) for x in t[1:]]
        return t

    def ren_s(s):
        if s[0] == "g":
            return ["g", gm.get(s[1], natives.get(s[1], s[1])), [ren_t(a) for a in s[2]]]
        if s[0] == "loop":
            return ["loop", ren_t(s[1]), ren_s(s[2])]
        return ["blk", s[1], s[2], ren_t(s[3]), [ren_s(x) for x in s[4]]]

    out = {"usepulses": q["usepulses"], "lets": [[vm[n], v] for n, v in q["lets"]], "reg": [vm[q["reg"][0]], ren_t(q["reg"][1])],
           "maps": [[vm[n], ren_t(src)] for n, src in q["maps"]],
           "macros": [[gm[name], [[vm[x], k] for x, k in params], cls, ren_s(blk)] for name, params, cls, blk in q["macros"]],
           "body": [ren_s(s) for s in q["body"]]}
    return out, {vm[k]: v for k, v in (ov or {}).items()}, {"vars": vm, "macros": gm, "natives": natives}


def make_names_case(rseed, idx, thorough):
    rng = random.Random(rseed)
    base_case = E.gen_case(rng, idx, thorough)
    kinds = list(NAME_POOLS)
    pools = rng.sample(kinds, rng.choice([1, 1, 2, 3]))
    dotted = rng.random() < 0.35
    steps, maps = [], None
    for i, s in enumerate(base_case["steps"]):
        r2 = random.Random(rseed * 31 + 7)     # the same renaming at every step of a history
        p2, ov2, maps = rename_program(r2, s["p"], s.get("ov"), pools, dotted)
        st = {"p": p2, "text": E.program_text(p2), "ov": ov2, "run": s.get("run")}
        if "entries" in s:
            st["entries"] = s["entries"]
        if s.get("bad"):
            st["bad"] = E.make_bad(random.Random(rseed + i), p2)
        steps.append(st)
    full = dict(base_case)
    full["steps"] = steps
    return full, pools, dotted, maps


def check_names(ck, case, full, dotted):
    part = "names+dotted-gates" if dotted else "names"
    if not dotted:
        # every entry point, history and arity case of c04_entry on the renamed programs
        before = {k: len(v["failures"]) for k, v in ck.E.oracle.items()}
        for i in range(len(full["steps"])):
            E.check_step(ck.E, full, i)
        for k, v in ck.E.oracle.items():
            for f in v["failures"][before.get(k, 0):]:
                f["case"] = case
        return
    # native gates called through dotted copies: the injected set of this script is needed
    for i, st in enumerate(full["steps"]):
        p, text = st["p"], st["text"]
        pre = prepare(ck, p, text, part)
        if pre is None:
            continue
        flat, M, c0 = pre
        names = set(c0.macros)
        ck.result(part, "expand_macros(c)", E.guarded(lambda: expand_macros(c0)), M, c0, case, False, names)
        ck.result(part, "expand_macros(c, True)", E.guarded(lambda: expand_macros(c0, True)), M, c0, case, False, names)
        ck.result(part, "parse_jaqal_string(expand_macro=True)", E.guarded(lambda: parse(text, expand_macro=True)), M, c0, case, False, names)
        path = ck.path_for(text)
        ck.result(part, "parse_jaqal_file(expand_macro=True)", E.guarded(lambda: parse_file(path, expand_macro=True)), M, c0, case, False, names)
        b = E.guarded(lambda: build(sexpr_of(p), inject_pulses=GX))
        if b[0] == "ok":
            cb = b[1]
            try:
                same = lifted_tokens(cb) == M
            except E.RefError:
                same = False
            if same:
                ck.result(part, "expand_macros(build(s-expression))", E.guarded(lambda: expand_macros(cb)), M, cb, case, False, names)
            else:
                ck.dist[f"{part} SELFCHECK (entry skipped): reference on the lifted build differs"] += 1
        else:
            ck.dist[f"{part} generator: build rejects ({b[1]}: {b[2][:60]})"] += 1
        if st.get("run"):
            ref_text = E.program_text(p, with_macros=False, body=E.splice(flat, False))
            cr = E.guarded(lambda: parse(ref_text))
            if cr[0] == "ok":
                cref = cr[1]
                ck.results(part, "run_jaqal_circuit(c)", run_results(lambda: run_jaqal_circuit(c0)),
                           run_results(lambda: run_jaqal_circuit(cref)), case)
        if st.get("bad"):
            bt = st["bad"]["text"]
            ck.arity(part, "parse_jaqal_string(expand_macro=True) of a text with one bad call",
                     E.guarded(lambda: parse(bt, expand_macro=True)), case)
            o = E.guarded(lambda: parse(text))
            if o[0] == "ok" and E.mutate(o[1], st["bad"]["which"], st["bad"]["how"]) is not None:
                ck.arity(part, "expand_macros(c) with a mutated call", E.guarded(lambda: expand_macros(o[1])), case)


# ------------------------------------------------------------------------------------------------
# DEFAULTS

def make_defaults_case(rseed, idx, thorough):
    rng = random.Random(rseed)
    place = rng.choice(E.PLACES)
    runnable = place not in ("par", "seqinpar") and rng.random() < 0.6
    for _ in range(8):
        g = E.Gen(rng, place, runnable, thorough, True)
        p = g.program()
        if E.expanded_size(p) <= 250:
            break
    p["usepulses"] = []
    return p, runnable, place


def with_imports(p, imports):
    q = dict(p)
    q["usepulses"] = list(imports)
    return q


def check_defaults(ck, case, p):
    part = "defaults"
    rng = random.Random(case["rseed"] + 3)
    plain_imports = rng.choice([[], ["qscout.v1.std"], ["a.b", "a.b"], ["a.b", "c04.not_there"]])
    p = with_imports(p, plain_imports)
    text = E.program_text(p)
    pre = prepare(ck, p, text, part)
    if pre is None:
        return False
    flat, M, c0 = pre
    names = set(c0.macros)

    def res(label, out, base, legit=False, get=lambda x: x):
        return ck.result(part, label, out, M, base, case, legit, names, get)

    # --- the pass: every way of (not) giving preserve_definitions
    for label, f in (("expand_macros(c)", lambda: expand_macros(c0)),
                     ("expand_macros(c, False)", lambda: expand_macros(c0, False)),
                     ("expand_macros(c, True)", lambda: expand_macros(c0, True)),
                     ("expand_macros(c, preserve_definitions=False)", lambda: expand_macros(c0, preserve_definitions=False)),
                     ("expand_macros(c, preserve_definitions=True)", lambda: expand_macros(c0, preserve_definitions=True)),
                     ("expand_macros(circuit=c)", lambda: expand_macros(circuit=c0)),
                     ("expand_macros(preserve_definitions=False, circuit=c)", lambda: expand_macros(preserve_definitions=False, circuit=c0))):
        res(label, E.guarded(f), c0)
    # --- the parse functions: gate sources x optional arguments
    imports = rng.choice([["." + PULSE_A], ["." + PULSE_A, "." + PULSE_A], ["." + PULSE_A, "." + PULSE_B], ["." + PULSE_B, "." + PULSE_A],
                          ["." + PULSE_A] * 3])
    uses = {g[1] for _n, _p, _c, blk in p["macros"] for g in E.walk_gates(blk)} | {g[1] for s in p["body"] for g in E.walk_gates(s)}
    if imports[-1] == "." + PULSE_B and uses & {"CCX", "ROT3", "N"}:
        # a later import of the same gate names replaces earlier ones; the smaller file last would leave these to the
        # first file, which is fine too, but keep the case simple: every gate from the last file
        imports = ["." + PULSE_B, "." + PULSE_A]
    auto_text = E.program_text(with_imports(p, imports))
    inj_text = text
    sources = [
        ("gates injected, autoload_pulses=False", inj_text, {"inject_pulses": GX, "autoload_pulses": False}),
        ("gates invented (no inject_pulses), autoload_pulses=False", inj_text, {"autoload_pulses": False}),
        ("gates AUTOLOADED (autoload_pulses left out), import_path=tmp, imports " + "+".join(x[-1] for x in imports), auto_text,
         {"import_path": ck.tmpdir}),
        ("gates AUTOLOADED (autoload_pulses=True, inject_pulses=None), import_path=tmp", auto_text,
         {"import_path": ck.tmpdir, "autoload_pulses": True, "inject_pulses": None}),
    ]
    options = [("return_usepulses", [None, False, True]), ("override_dict", ["absent", None, {}]), ("expand_let", [None, False]),
               ("expand_let_map", [None, False])]
    for slabel, stext, skw in sources:
        combos = [dict()]
        for _ in range(2):
            c = {}
            for name, vals in options:
                v = rng.choice(vals)
                if v is None and name != "override_dict":
                    continue
                if v == "absent":
                    continue
                c[name] = v
            combos.append(c)
        for kw in combos:
            for fn in ("string", "file"):
                if fn == "file" and rng.random() < 0.5:
                    continue
                okw = ", ".join(f"{k}={v!r}" for k, v in kw.items())
                label = f"parse_jaqal_{fn}(expand_macro=True{', ' + okw if okw else ''}) [{slabel}]"
                ck.dist[f"defaults: parse_jaqal_{fn}, {slabel.split(', import_path')[0]}"] += 1
                for k, v in kw.items():
                    ck.dist[f"defaults: parse_jaqal_{fn}({k}={v!r})"] += 1
                if not kw:
                    ck.dist[f"defaults: parse_jaqal_{fn}(no optional argument but expand_macro)"] += 1
                allkw = dict(skw)
                allkw.update(kw)
                if fn == "string":
                    call = lambda **more: parse_jaqal_string(stext, **allkw, **more)  # noqa
                else:
                    path = ck.path_for(stext)
                    if "import_path" not in allkw and rng.random() < 0.5:
                        allkw["import_path"] = ck.tmpdir
                    call = lambda **more: parse_jaqal_file(path, **allkw, **more)  # noqa
                get = (lambda x: x[0]) if kw.get("return_usepulses") else (lambda x: x)
                base = E.guarded(lambda: call())
                if base[0] == "err":
                    ck.dist[f"{part}: the call without expand_macro fails ({base[1]}) [{slabel}]"] += 1
                    if base[1] != "JaqalError":
                        continue
                c = res(label, E.guarded(lambda: call(expand_macro=True)), get(base[1]) if base[0] == "ok" else None, base[0] == "err", get)
                if c is not None and kw.get("return_usepulses") and base[0] == "ok":
                    out = E.guarded(lambda: call(expand_macro=True))
                    same = out[0] == "ok" and repr(out[1][1]) == repr(base[1][1])
                    ck.rec(f"C04s_header@{part}", same, case, f"{label}: the returned usepulses differ from those without expand_macro")
    # --- running: optional arguments of run_jaqal_circuit, and the string / file front ends (autoload)
    if case["runnable"]:
        ref_p = with_imports(p, imports)
        ref_text = E.program_text(ref_p, with_macros=False, body=E.splice(flat, False))
        cr = E.guarded(lambda: parse_jaqal_string(ref_text, import_path=ck.tmpdir))
        ca = E.guarded(lambda: parse_jaqal_string(auto_text, import_path=ck.tmpdir))
        if cr[0] == "ok" and ca[0] == "ok":
            cref, cauto = cr[1], ca[1]
            b = run_results(lambda: run_jaqal_circuit(cref))
            path = ck.path_for(auto_text)
            for label, f in (("run_jaqal_circuit(c)", lambda: run_jaqal_circuit(cauto)),
                             ("run_jaqal_circuit(c) [gates injected]", lambda: run_jaqal_circuit(c0)),
                             ("run_jaqal_circuit(c, backend=None)", lambda: run_jaqal_circuit(cauto, backend=None)),
                             ("run_jaqal_circuit(c, None, False, None)", lambda: run_jaqal_circuit(cauto, None, False, None)),
                             ("run_jaqal_circuit(c, emulator_backend=None)", lambda: run_jaqal_circuit(cauto, emulator_backend=None)),
                             ("run_jaqal_circuit(c, force_sim=True)", lambda: run_jaqal_circuit(cauto, force_sim=True)),
                             ("run_jaqal_circuit(c, backend=UnitarySerializedEmulator())", lambda: run_jaqal_circuit(cauto, backend=UnitarySerializedEmulator())),
                             ("run_jaqal_circuit(c, emulator_backend=UnitarySerializedEmulator())", lambda: run_jaqal_circuit(cauto, emulator_backend=UnitarySerializedEmulator())),
                             ("run_jaqal_string(text, import_path=tmp)", lambda: run_jaqal_string(auto_text, import_path=ck.tmpdir)),
                             ("run_jaqal_file(path)", lambda: run_jaqal_file(path)),
                             ("run_jaqal_file(path, import_path=tmp)", lambda: run_jaqal_file(path, import_path=ck.tmpdir))):
                ck.results(part, label, run_results(f), b, case)
        else:
            ck.dist[f"{part} generator: autoload parse rejected ({(cr if cr[0] == 'err' else ca)[1:3]})"] += 1
    return True


# ------------------------------------------------------------------------------------------------
# cases

def scale_grid(thorough):
    out = []
    for fam, (_f, sizes, extra, _r) in FAMILIES.items():
        for n in sizes + (extra if thorough else []):
            out.append((fam, n))
    return out


def build_scale(case):
    f, _s, _e, _r = FAMILIES[case["family"]]
    p = f(random.Random(case["rseed"]), case["size"], case["runnable"])
    return p


def compact(text):
    return text if len(text) <= 6000 else text[:3000] + f"\n... [{len(text) - 6000} characters left out; the case regenerates the full text] ...\n" + text[-3000:]


def gen_cases(seed, n, thorough):
    rng = random.Random(seed * 1000003 + 404)
    cases = []
    reps = max(1, n // 40)
    grid = scale_grid(thorough)
    for rep in range(reps):
        for fam, size in grid:
            runnable = FAMILIES[fam][3] and (fam == "qubits" or rng.random() < 0.3)
            cases.append({"stream": "scale", "family": fam, "size": size, "runnable": runnable, "rseed": rng.randrange(1 << 30),
                          "arity": rng.random() < 0.4, "thorough": thorough})
    for i in range(n):
        cases.append({"stream": "names", "idx": i, "rseed": rng.randrange(1 << 30), "thorough": thorough})
    for i in range(max(2, n // 3)):
        cases.append({"stream": "defaults", "idx": i, "rseed": rng.randrange(1 << 30), "thorough": thorough})
    for i, c in enumerate(cases):
        c["id"] = i
    return cases


def run_case(ck, case):
    """-> nontrivial?"""
    if case["stream"] == "scale":
        p = build_scale(case)
        variant = p.get("_variant")
        p = _clean(p)
        text = E.program_text(p)
        if "text" in case and case["text"] != compact(text):
            ck.rec("C04s_yields@scale", False, case, "replay: the generator no longer produces the recorded text")
            return False
        case["text"] = compact(text)
        run = dict(case)
        run["text_full"] = text
        shown = dict(case)
        ck.dist[f"scale {case['family']} size {case['size']}" + (" (runnable)" if case["runnable"] else "")] += 1
        if variant:
            ck.dist[f"scale {case['family']} variant {variant}"] += 1
        # failures carry the compact case
        before = {k: len(v["failures"]) for k, v in ck.oracle.items()}
        ok = check_scale(ck, run, p)
        for k, v in ck.oracle.items():
            for f in v["failures"][before.get(k, 0):]:
                f["case"] = shown
        return ok
    if case["stream"] == "names":
        full, pools, dotted, maps = make_names_case(case["rseed"], case["idx"], case["thorough"])
        texts = [compact(s["text"]) for s in full["steps"]]
        if "texts" in case and case["texts"] != texts:
            ck.rec("C04s_yields@names", False, case, "replay: the generator no longer produces the recorded texts")
            return False
        case["texts"] = texts
        case["pools"] = pools
        case["kind"] = full["kind"]
        ck.dist["names: case kind " + full["kind"] + (" with dotted native gates" if dotted else "")] += 1
        for k in pools:
            ck.dist[f"names: pool {k}"] += 1
        for new in list(maps["vars"].values()) + list(maps["macros"].values()):
            if len(new) > 255:
                ck.dist["names: an identifier longer than 255 characters"] += 1
                break
        if set(maps["vars"].values()) & set(maps["macros"].values()):
            ck.dist["names: a variable and a macro with the same spelling"] += 1
        check_names(ck, case, full, dotted)
        return True
    p, runnable, place = make_defaults_case(case["rseed"], case["idx"], case["thorough"])
    text = compact(E.program_text(p))
    if "text" in case and case["text"] != text:
        ck.rec("C04s_yields@defaults", False, case, "replay: the generator no longer produces the recorded text")
        return False
    case["text"] = text
    case["runnable"] = runnable
    ck.dist[f"defaults: calls placed {place}" + (" (runnable)" if runnable else "")] += 1
    return check_defaults(ck, case, p)


def merged_oracles(ck):
    out = {k: v for k, v in ck.oracle.items()}
    for k, v in ck.E.oracle.items():
        out[k + ":names"] = v
    for v in out.values():
        v["failures"] = v["failures"][:20]
    return dict(sorted(out.items()))


def run(seed: int, n: int, driver: str = DEFAULT_DRIVER, thorough: bool = False) -> dict:
    _imports()
    if thorough:
        n = n * 3
    old_limit = sys.getrecursionlimit()
    sys.setrecursionlimit(max(old_limit, RECURSION))
    cases = gen_cases(seed, n, thorough)
    nontrivial = 0
    try:
        with tempfile.TemporaryDirectory(prefix="c04_scale_") as tmp:
            ck = Checker(tmp)
            for case in cases:
                t0 = time.time()
                if run_case(ck, case):
                    nontrivial += 1
                dt = time.time() - t0
                if dt > 3:
                    ck.dist[f"slow case (> 3 s): {case['stream']} {case.get('family', '')} {case.get('size', '')}"] += 1
    finally:
        sys.setrecursionlimit(old_limit)
    dist = dict(ck.dist)
    for k, v in ck.E.dist.items():
        dist["names/c04_entry: " + k] = v
    samples = [c for c in cases if c["stream"] == "scale"][:2] + [c for c in cases if c["stream"] == "names"][:2] + \
        [c for c in cases if c["stream"] == "defaults"][:1]
    return {"corr": {}, "oracle": merged_oracles(ck), "distribution": dict(sorted(dist.items())),
            "samples": samples, "nontrivial": nontrivial}


def replay(case: dict, driver: str = DEFAULT_DRIVER) -> dict:
    _imports()
    old_limit = sys.getrecursionlimit()
    sys.setrecursionlimit(max(old_limit, RECURSION))
    try:
        with tempfile.TemporaryDirectory(prefix="c04_scale_") as tmp:
            ck = Checker(tmp)
            run_case(ck, json.loads(json.dumps(case)))
    finally:
        sys.setrecursionlimit(old_limit)
    fails = {k: v["failures"][0]["detail"] for k, v in merged_oracles(ck).items() if v["failures"]}
    return {"model": None, "impl": None, "oracle_ok": not fails,
            "detail": "all oracles hold" if not fails else json.dumps(fails)[:3000]}


def main():
    ap = argparse.ArgumentParser()
    ap.add_argument("--driver", default=DEFAULT_DRIVER)
    ap.add_argument("--seed", type=int, default=0)
    ap.add_argument("--n", type=int, default=40)
    ap.add_argument("--thorough", action="store_true")
    ap.add_argument("--quiet", action="store_true")
    a = ap.parse_args()
    t0 = time.time()
    r = run(a.seed, a.n, a.driver, a.thorough)
    bad = 0
    for k, v in r["oracle"].items():
        print(f"oracle {k}: {v['cases']} cases, {len(v['failures'])} failures")
        bad += len(v["failures"])
        for d in v["failures"][:2]:
            print("  FAIL", d["detail"][:600])
            c = d["case"]
            print("       ", json.dumps({k2: c[k2] for k2 in c if k2 not in ("text", "texts")})[:400])
            print("       ", json.dumps(c.get("text") or c.get("texts"))[:1200])
    if not a.quiet:
        for k, v in r["distribution"].items():
            print(f"  {k}: {v}")
    print("nontrivial:", r["nontrivial"], f"time {time.time() - t0:.1f} s")
    sys.exit(1 if bad else 0)


if __name__ == "__main__":
    main()
