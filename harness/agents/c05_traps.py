#!/venv/bin/python
"""C05, sixth strengthening round: cooperating sites, language traps, exception paths, re-entrancy, numeric form, access order.

    PYTHONPATH=/verif /venv/bin/python /verif/harness/agents/c05_traps.py [--seed 0] [--n 250] [--thorough]

Oracles only (`corr` is empty).  A case is a program given as a syntax tree (the format of c05_edge: rendered to text
here, evaluated by that script's own reference interpreter `Ref` - environment = override value if given, else declared
value; registers as progressions; macros call-by-value; nothing of the library's let machinery), a way to obtain the
circuit (SOURCE), a HISTORY of calls on that one circuit object and, for every call, the ORDER in which the result is
looked at.

What the earlier C05 streams never did, and this one does systematically:

  indirect positions  a constant reaches an INTEGER position only through a macro argument (parameter used as loop count,
                      subcircuit count, qubit index over the register / over an alias, INT-typed gate argument), one and
                      two macro levels deep, with the parameter possibly shadowing another constant - crossed with the
                      FORM of the overriding number (int, integral float, numpy.float64, 0 / 0.0 / -0.0, fractional float
                      for FLOAT positions).  The result must be USABLE: expand_macros of it, its generated text and the
                      emulator must give the meaning of the program in the environment; an exception there is a failure
                      (c05_edge only recorded it in its distribution).
  sources             parser; generate -> parse again; the builder fed with an S-expression in which the SAME Python list
                      objects (gate statements, qubit expressions) stand at several places; expand_macros applied BEFORE
                      fill_in_let (constants that arrived in loop / subcircuit counts and indices by macro substitution);
                      native gate tables that are DERIVED objects (add_idle_gates, GateDefinition.copy(name=...))
  history             several override dictionaries on ONE circuit, invalid environments in between (one or two defects);
                      after a refused call the next valid call must behave as on a fresh circuit, the input circuit and the
                      caller's dictionary must be unchanged; results fed back: fill_in_let(result, other overrides) and
                      fill_in_let(expand_macros(result), other overrides) must mean the same (nothing left to override)
  language traps      let / alias / macro / parameter names that are substrings of each other (n, n0, nn; a, ab; m, m0, mm;
                      r0 next to register r), constants declared in shuffled order, override dictionaries with shuffled
                      insertion order and keys made at run time (never interned), empty blocks / empty loops / empty macros /
                      empty subcircuits (falsy), macros calling macros defined before them, parameters shadowing constants
                      and aliases
  access order        the observations of one result (registers / macros / body, expansion, text, used qubits, emulator)
                      are made in a permuted order stored in the case

oracle (each states part of C05, nothing else)
  no_constant_left      no gate argument, index, size, alias bound, loop or subcircuit count of the result is a Constant
  value_exact           every such position holds the value of its constant in the chosen environment (by value; an integral
                        float may appear as the int), qubits and aliases denote what the reference computes
  frame_preserved       block kinds, subcircuit flags, skeleton, macro signatures, native gates (the very definitions of the
                        input, also derived ones), usepulses as in the original
  meaning_expanded      expand_macros(result) exists and, normalised, equals the call-by-value interpretation of the program
                        in the environment (also for results fed back through fill_in_let / expand_macros)
  meaning_by_text       generate_jaqal_program(result) parses back under the same gate set and expands to that same meaning
  meaning_used_qubits   get_used_qubit_indices(result) == that of the program with the numbers written as literals
  meaning_emulated      the emulator's outcome for the result (probabilities per subcircuit, or refusal) == its outcome for
                        the program with the numbers written as literals
  invalid_env_rejected  an environment in which the program has no meaning is refused
  rejection_is_jaqal_error  ... with JaqalError
  valid_env_accepted    an environment in which every position evaluates is not refused - whatever was called before
  input_unchanged       the input circuit (text and structure) and the caller's dictionary are the same after every call,
                        refused or not
  terminates            every library call returns within the alarm

Never generated: defaulted slice stops over aliases (open finding defaulted-stop-frozen; guarded again with
harness.extra_c05.frozen_default_shape), float LITERALS as macro arguments for integer positions (not C05's business).
"""
import argparse
import json
import os
import random
import signal
import sys
import warnings
from collections import Counter

DEFAULT_DRIVER = "/verif/lean/.lake/build/bin/jaqal-model"

E = None


def _imports():
    global E, T, GATES, GATES_IDLE, np, parse_jaqal_string, fill_in_let, expand_macros, get_used_qubit_indices
    global generate_jaqal_program, build, JaqalError, frozen_default_shape
    os.environ["JAQALPAQ_RUN_EMULATOR"] = "1"
    import numpy as np
    from harness.agents import c05_edge as E
    E._imports()
    from harness import timeouts as T
    from harness.gates import GATES, GATES_IDLE
    from harness.extra_c05 import frozen_default_shape
    from jaqalpaq.parser import parse_jaqal_string
    from jaqalpaq.core.algorithm import expand_macros, fill_in_let, get_used_qubit_indices
    from jaqalpaq.core.circuitbuilder import build
    from jaqalpaq.generator import generate_jaqal_program
    from jaqalpaq.error import JaqalError


class Hang(Exception):
    pass


def _alarm(*a):
    raise Hang()


def call(f, *a, **k):
    signal.alarm(int(T.limit()))
    try:
        with warnings.catch_warnings():
            warnings.simplefilter("ignore")
            return f(*a, **k)
    finally:
        signal.alarm(0)


# ------------------------------------------------------------------------------------------------
# gate tables (some of them derived objects)

_GS = {}


def gate_set(kind):
    if kind not in _GS:
        if kind == "std":
            g = GATES
        elif kind == "idle":
            g = GATES_IDLE
        else:  # copies made with .copy(), one of them renamed
            g = {n: d.copy() for n, d in GATES.items()}
            g["XC"] = GATES["X"].copy(name="XC")
        _GS[kind] = g
    return _GS[kind]


def parse_kw(case):
    return {"autoload_pulses": False, "inject_pulses": gate_set(case.get("gates", "std"))}


# ------------------------------------------------------------------------------------------------
# the builder path: S-expression with shared list objects

def to_sexpr(prog, share):
    memo = {}

    def sh(x):
        """the SAME list object for equal sub-expressions when `share`"""
        if not share:
            return x
        key = json.dumps(x, default=repr)
        return memo.setdefault(key, x)

    def ex(e):
        if e is None:
            return None
        if e[0] == "lit":
            return E.dec(e[1])
        return e[1]

    def arg(a):
        if a[0] == "num":
            return ex(a[1])
        if a[0] == "q":
            return sh(["array_item", a[1], ex(a[2])])
        return a[1]

    def st(s):
        k = s[0]
        if k == "gate":
            return sh(["gate", s[1]] + [arg(a) for a in s[2]])
        if k == "loop":
            b = st(s[2])
            return ["loop", ex(s[1]), b]
        if k == "sub":
            return ["subcircuit_block", ex(s[1])] + [st(x) for x in s[2]]
        return [("parallel_block" if k == "par" else "sequential_block")] + [st(x) for x in s[1]]

    out = ["circuit"]
    for name, v in prog["lets"]:
        out.append(["let", name, E.dec(v)])
    out.append(["register", "r", ex(prog["size"])])
    for m in prog["maps"]:
        if m[1] == "whole":
            out.append(["map", m[0], m[2]])
        elif m[1] == "single":
            out.append(["map", m[0], m[2], ex(m[3])])
        else:
            out.append(["map", m[0], m[2], ex(m[3]), ex(m[4]), ex(m[5])])
    for name, params, body in prog["macros"]:
        out.append(["macro", name] + list(params) + [st(body)])
    for s in prog["body"]:
        out.append(st(s))
    return out


# ------------------------------------------------------------------------------------------------
# overrides:  [[name, enc, keymode]]   keymode "lit" | "runtime"

def ov_build(l):
    d = {}
    for name, e, km in l:
        key = "".join(list(name)) if km == "runtime" else name
        d[key] = E.dec(e)
    return d


def same_dict(a, b):
    if list(a) != list(b):
        return False
    for k in a:
        x, y = a[k], b[k]
        if type(x) is not type(y) or repr(x) != repr(y):
            return False
    return True


FORMS = ("int", "float", "npfloat")


def in_form(v, form):
    if form == "int":
        return int(v)
    if form == "float":
        return float(v)
    return np.float64(v)


# ------------------------------------------------------------------------------------------------
# generator

LET_NAMES = ["n", "n0", "nn", "k", "kk", "z", "r0", "s"]
FLOAT_LETS = ["th", "t"]
ALIAS_NAMES = ["a", "ab", "b"]
MACRO_NAMES = ["m", "m0", "mm", "g", "mg"]
PARAM_POOL = ["c", "i", "x", "p", "cc"]
QGATES = ["X", "Y", "Z", "S", "SX"]
Q2GATES = ["CX", "CZ", "SWAP", "NS"]


class Gen:
    def __init__(self, rng, gates="std"):
        self.r = rng
        self.gates = gates
        self.lets = {}
        self.sizes = {}
        self.qal = []
        self.macros = []     # (name, [(param, role)], has_sub)
        self.feat = Counter()

    # --- expressions
    def ilets(self, v, excl=()):
        return [l for l, x in self.lets.items() if l not in excl and not isinstance(x, float) and x == v]

    def expr(self, v, excl=(), p=0.65):
        ls = self.ilets(v, excl)
        if ls and self.r.random() < p:
            return E.I(self.r.choice(ls))
        return E.L(v)

    def header(self):
        r = self.r
        names = list(LET_NAMES)
        r.shuffle(names)
        names = names[: r.randrange(4, len(names) + 1)]
        vals = [0, 1, 2, 3, 1, 2, 3, 0, 2]
        r.shuffle(vals)
        for nm, v in zip(names, vals):
            self.lets[nm] = v
        for nm in FLOAT_LETS:
            if r.random() < 0.6:
                self.lets[nm] = r.choice([0.5, 0.25, -1.5, 2.5, 1e-3, 0.75])
        order = list(self.lets)
        r.shuffle(order)       # declaration order is arbitrary
        self.lets = {k: self.lets[k] for k in order}
        size = r.choice([2, 3, 3, 4])
        self.size_expr = self.expr(size, p=0.5)
        if self.size_expr[0] == "id":
            self.feat["let register size"] += 1
        self.sizes["r"] = size
        maps = []
        prev = "r"
        for name in ALIAS_NAMES[: r.choice([0, 0, 1, 1, 2, 3])]:
            srcs = [s for s, k in self.sizes.items() if k > 0]
            src = prev if (prev in srcs and r.random() < 0.6) else r.choice(srcs)
            n = self.sizes[src]
            c = r.random()
            if c < 0.15:
                maps.append([name, "whole", src])
                self.sizes[name] = n
                prev = name
            elif c < 0.3:
                i = r.randrange(n)
                maps.append([name, "single", src, self.expr(i)])
                self.qal.append(name)
            else:
                step = r.choice([1, 1, 1, 2, -1, -1, -2])
                a = r.randrange(0, n)
                e = r.randrange(a, n + 1) if step > 0 else r.randrange(-1, a + 1)
                k = E.rlen(a, e, step)
                ea, ee, es = self.expr(a), self.expr(e), self.expr(step)
                if step > 0 and a == 0 and r.random() < 0.3:
                    ea = None
                if step > 0 and e == n and src == "r" and r.random() < 0.3:
                    ee = None      # defaulted stop over the fundamental register only
                if step == 1 and r.random() < 0.5:
                    es = None
                maps.append([name, "slice", src, ea, ee, es])
                self.sizes[name] = k
                if step < 0:
                    self.feat["negative-step alias" + (" down to qubit 0 (stop -1)" if e == -1 else "")] += 1
                if k == 0:
                    self.feat["empty alias"] += 1
                prev = name
        return maps

    # --- arguments
    def index(self, params, size, excl):
        r = self.r
        ips = [p for p, role in params if role == "i"]
        if ips and r.random() < 0.45:
            return E.I(r.choice(ips))
        return self.expr(r.randrange(max(1, size)), excl)

    def qubit(self, params):
        r = self.r
        excl = [p for p, _ in params]
        qps = [p for p, role in params if role == "q"]
        if qps and r.random() < 0.4:
            return ["id", r.choice(qps)]
        srcs = [s for s, k in self.sizes.items() if k > 0 and s not in excl]
        qal = [q for q in self.qal if q not in excl]
        if qal and r.random() < 0.15:
            return ["id", r.choice(qal)]
        src = r.choice(srcs)
        if src != "r" and r.random() < 0.5:
            src = "r"
        return ["q", src, self.index(params, self.sizes[src], excl)]

    def count(self, params, what):
        r = self.r
        cps = [p for p, role in params if role == "c"]
        if cps and r.random() < 0.55:
            return E.I(r.choice(cps))
        v = r.choice([0, 1, 1, 2, 2, 3])
        return self.expr(v, [p for p, _ in params], p=0.7)

    def number(self, params, integer):
        r = self.r
        excl = [p for p, _ in params]
        ps = [p for p, role in params if role == ("ki" if integer else "kf")]
        if ps and r.random() < 0.5:
            return ["num", E.I(r.choice(ps))]
        if integer:
            return ["num", self.expr(r.choice([0, 1, 2, 3]), excl)]
        fl = [l for l in FLOAT_LETS if l in self.lets and l not in excl]
        c = r.random()
        if fl and c < 0.5:
            return ["num", E.I(r.choice(fl))]
        if c < 0.8:
            il = [l for l, v in self.lets.items() if l not in excl and not isinstance(v, float)]
            if il:
                return ["num", E.I(r.choice(il))]
        return ["num", E.L(r.choice([0.5, 2, 0.0, -0.25]))]

    def gate(self, params):
        r = self.r
        c = r.random()
        if c < 0.45:
            nm = r.choice(QGATES + (["I_X"] if self.gates == "idle" else []) + (["XC"] if self.gates == "copied" else []))
            return ["gate", nm, [self.qubit(params)]]
        if c < 0.65:
            return ["gate", "P", [self.qubit(params), self.number(params, True)]]
        if c < 0.8:
            return ["gate", "PF", [self.number(params, False), self.qubit(params)]]
        # two-qubit gate on two DIFFERENT literal positions of r when possible (else the emulator refuses; still compared)
        n = self.sizes["r"]
        i, j = r.sample(range(n), 2)
        excl = [p for p, _ in params]
        if "r" in excl:
            return ["gate", "Z", [self.qubit(params)]]
        return ["gate", r.choice(Q2GATES), [["q", "r", self.expr(i, excl, p=0.4)], ["q", "r", self.expr(j, excl, p=0.4)]]]

    def call_args(self, roles, params):
        """arguments of a macro call; integer roles get a CONSTANT most of the time (that is the point), never a float literal"""
        r = self.r
        excl = [p for p, _ in params]
        out = []
        for _, role in roles:
            if role == "c":
                same = [p for p, ro in params if ro == "c"]
                if same and r.random() < 0.4:
                    out.append(["num", E.I(r.choice(same))])
                else:
                    out.append(["num", self.expr(r.choice([0, 1, 2, 2, 3]), excl, p=0.85)])
            elif role == "i":
                same = [p for p, ro in params if ro == "i"]
                if same and r.random() < 0.4:
                    out.append(["num", E.I(r.choice(same))])
                else:
                    out.append(["num", self.expr(r.randrange(self.sizes["r"]), excl, p=0.85)])
            elif role == "ki":
                out.append(self.number(params, True))
            elif role == "kf":
                out.append(self.number(params, False))
            else:
                out.append(self.qubit(params))
        return out

    def items(self, params, depth, allow_sub_calls, k=None):
        r = self.r
        out = []
        for _ in range(r.choice([0, 1, 2, 2, 3]) if k is None else k):
            c = r.random()
            plain = [m for m in self.macros if not m[2]]
            if c < 0.4 or depth >= 3:
                out.append(self.gate(params))
            elif c < 0.62 and plain:
                m = r.choice(plain)
                out.append(["gate", m[0], self.call_args(m[1], params)])
                self.feat["macro call" + (" inside a macro (two levels)" if params else "")] += 1
            elif c < 0.78:
                inner = self.items(params, depth + 1, False)
                if not inner:
                    self.feat["empty loop body"] += 1
                out.append(["loop", self.count(params, "loop"), ["seq", inner]])
            elif c < 0.92:
                # a sequential block may only stand inside a parallel one (and the other way round)
                n = self.sizes["r"]
                excl = [p for p, _ in params]
                if "r" not in excl and n >= 2:
                    i, j = r.sample(range(n), 2)
                    first = ["gate", r.choice(QGATES), [["q", "r", self.expr(i, excl, p=0.3)]]]
                    if r.random() < 0.45:
                        inner = [first][: r.choice([0, 1, 1])] + ([["gate", "P", [["q", "r", self.expr(i, excl)], self.number(params, True)]]] if r.random() < 0.5 else [])
                        if not inner:
                            self.feat["empty sequential block"] += 1
                        first = ["seq", inner]
                    out.append(["par", [first, ["gate", r.choice(QGATES), [["q", "r", E.L(j)]]]]])
            else:
                out.append(self.gate(params))
        return out

    def macro(self, idx):
        r = self.r
        name = MACRO_NAMES[idx]
        roles = []
        pool = list(PARAM_POOL)
        if r.random() < 0.45:
            pool += [l for l in self.lets][:3]          # parameters shadowing constants
        if r.random() < 0.15:
            pool += [a for a in self.sizes if a != "r"][:1] + self.qal[:1]   # ... or an alias
        r.shuffle(pool)
        for role in r.sample(["c", "c", "i", "ki", "kf", "q", "q"], r.choice([0, 1, 1, 2, 2, 3])):
            roles.append((pool.pop(), role))
        for p, _ in roles:
            if p in self.lets:
                self.feat["macro parameter shadows a constant"] += 1
        has_sub = r.random() < 0.3
        if has_sub:
            inner = self.items(roles, 1, False)
            if not inner:
                self.feat["empty subcircuit block"] += 1
            body = self.items(roles, 1, False, k=r.choice([0, 0, 1])) + [["sub", self.count(roles, "sub"), inner]]
            self.feat["macro with a subcircuit block"] += 1
        else:
            body = self.items(roles, 1, False)
            if not body:
                self.feat["empty macro"] += 1
        self.macros.append((name, roles, has_sub))
        return [name, [p for p, _ in roles], ["seq", body]]

    def program(self):
        r = self.r
        maps = self.header()
        macros = [self.macro(i) for i in range(r.choice([1, 2, 2, 3, 4]))]
        body = []
        for _ in range(r.choice([1, 2, 2, 3])):
            c = r.random()
            subm = [m for m in self.macros if m[2]]
            if c < 0.45:
                body += [["gate", "prepare_all", []]] + self.items((), 0, False, k=r.choice([1, 2, 3])) + [["gate", "measure_all", []]]
            elif c < 0.65:
                body.append(["sub", self.count((), "sub"), self.items((), 1, False)])
            elif c < 0.8 and subm:
                m = r.choice(subm)
                body.append(["gate", m[0], self.call_args(m[1], ())])
                self.feat["call of a macro with a subcircuit block"] += 1
            elif c < 0.9:
                body.append(["loop", self.count((), "loop"), ["seq", [["gate", "prepare_all", []]] + self.items((), 1, False) + [["gate", "measure_all", []]]]])
            else:
                body += [["gate", "prepare_all", []]] + self.items((), 0, False, k=2) + [["gate", "measure_all", []]]
        return {"lets": [[k, E.enc(v)] for k, v in self.lets.items()], "size": self.size_expr, "maps": maps,
                "macros": macros, "body": body, "usepulses": False, "mode": "gates"}


def roles_prog():
    """every INDIRECT position once: a constant as macro argument, the parameter used as ..."""
    I, L = E.I, E.L
    q = lambda src, e: ["q", src, e]
    g = lambda n, *a: ["gate", n, list(a)]
    num = lambda e: ["num", e]
    return {
        "lets": [[k, E.enc(v)] for k, v in (("nn", 1), ("n", 2), ("k", 1), ("z", 0), ("th", 0.5), ("s", 3), ("n0", 2), ("kk", 1))],
        "size": I("s"),
        "maps": [["a", "slice", "r", L(0), I("s"), None], ["ab", "slice", "a", L(2), L(-1), L(-1)]],
        "macros": [
            ["rep", ["c", "x"], ["seq", [["loop", I("c"), ["seq", [g("X", ["id", "x"])]]]]]],
            ["runs", ["c"], ["seq", [["sub", I("c"), [g("X", q("r", I("kk")))]]]]],
            ["at", ["i"], ["seq", [g("X", q("r", I("i"))), g("Z", q("ab", I("i")))]]],
            ["ph", ["c", "x"], ["seq", [g("P", ["id", "x"], num(I("c")))]]],
            ["pf", ["c", "x"], ["seq", [g("PF", num(I("c")), ["id", "x"])]]],
            ["two", ["c", "x"], ["seq", [g("rep", num(I("c")), ["id", "x"]), g("ph", num(I("c")), ["id", "x"])]]],
            ["shadow", ["n", "x"], ["seq", [["loop", I("n"), ["seq", [g("X", ["id", "x"])]]], g("P", ["id", "x"], num(I("n0")))]]],
            ["three", ["i", "c"], ["seq", [g("two", num(I("c")), q("a", I("i"))), ["loop", I("c"), ["seq", []]]]]],
            ["empty", [], ["seq", []]],
        ],
        "body": [
            g("prepare_all"),
            g("rep", num(I("n")), q("r", L(0))),
            g("at", num(I("k"))),
            g("ph", num(I("nn")), q("r", L(1))),
            g("pf", num(I("th")), q("r", L(0))),
            g("two", num(I("n0")), q("r", I("kk"))),
            g("shadow", num(I("kk")), q("r", I("z"))),
            g("three", num(I("z")), num(I("nn"))),
            g("empty"),
            g("measure_all"),
            g("runs", num(I("n"))),
        ],
        "usepulses": False, "mode": "gates",
    }


ROLE_OF = {"n": "macro argument -> loop count / subcircuit count", "k": "macro argument -> index over r and over an alias",
           "nn": "macro argument -> INT gate argument; two levels -> empty loop count", "th": "macro argument -> FLOAT gate argument",
           "n0": "two levels: macro argument -> macro argument -> loop count and INT argument; direct INT argument in a macro",
           "kk": "argument of a macro whose parameter shadows n -> loop count; direct index", "z": "two levels: macro argument -> index over an alias",
           "s": "register size and alias stop (direct)"}


def literal_text(prog, env):
    """c05_edge.literal_text leaves the alias bounds alone; here they are written out too"""
    def ex(e):
        if e is None or e[0] == "lit":
            return e
        v = env[e[1]]
        if isinstance(v, float) and v == int(v):
            v = int(v)
        return E.L(v)

    p = dict(prog)
    p["maps"] = [m[:3] + [ex(e) for e in m[3:]] for m in prog["maps"]]
    return E.literal_text(p, env)


def decl_of(prog):
    return {k: E.dec(v) for k, v in prog["lets"]}


def classify(prog, env):
    try:
        ref = E.Ref(prog, env)
        ref.tree()
    except E.Invalid:
        return "invalid"
    except (E.Grey, OverflowError):
        return "grey"
    try:
        ref.run()
    except (E.Grey, E.Invalid):
        return "grey"
    return "ok"


def rand_ov(rng, prog, want_valid, force=None):
    """one override list [[name, enc, keymode]] whose class (by the reference) is what is wanted, if one is found"""
    decl = decl_of(prog)
    names = list(decl)
    best = None
    for _ in range(8):
        chosen = rng.sample(names, rng.choice([1, 1, 2, 2, 3]) if len(names) >= 3 else 1)
        if force and force not in chosen:
            chosen[0] = force
        rng.shuffle(chosen)
        ov = []
        for nm in chosen:
            if isinstance(decl[nm], float) and rng.random() < 0.7:
                v = rng.choice([0.5, -0.75, 1.25, 3.0, 0.0, -0.0, 2, 1e-3])
                v = np.float64(v) if (isinstance(v, float) and rng.random() < 0.3) else v
            else:
                base = rng.choice([0, 0, 1, 1, 2, 2, 3, 3, 4]) if want_valid else rng.choice([0, 1, 2, 3, 4, 5, 7, -1, -2])
                form = rng.choice(FORMS)
                v = in_form(base, form)
                if base == 0 and form != "int" and rng.random() < 0.4:
                    v = in_form(-0.0, form)
                if not want_valid and rng.random() < 0.25:
                    v = rng.choice([0.5, 1.5, -0.5, 2.25])
            ov.append([nm, E.enc(v), rng.choice(["lit", "runtime"])])
        env = dict(decl)
        env.update({n: E.dec(e) for n, e, _ in ov})
        cl = classify(prog, env)
        if (cl == "ok") == want_valid and cl != "grey":
            return ov
        if best is None and cl != "grey":
            best = ov
    return best or ov


OBSERVERS = ["tree", "expand", "text", "used", "emu"]
SOURCES = ["parse", "parse", "parse", "reparse", "sexpr", "sexpr_shared", "pre_expand"]


def make_step(rng, prog, valid, force=None):
    obs = list(OBSERVERS)
    rng.shuffle(obs)
    st = {"ov": rand_ov(rng, prog, valid, force), "entry": "fill", "observe": obs, "share_dict": rng.random() < 0.5}
    c = rng.random()
    if c < 0.25:
        st["post"] = "refill"
    elif c < 0.45:
        st["post"] = "expand_refill"
    if "post" in st:
        st["post_ov"] = rand_ov(rng, prog, True)
    return st


def gen_random(rng, idx, thorough):
    gates = rng.choice(["std", "std", "idle", "copied"])
    for _ in range(20):
        g = Gen(random.Random(rng.randrange(1 << 62)), gates)
        prog = g.program()
        if classify(prog, decl_of(prog)) == "ok":
            break
    source = rng.choice(SOURCES)
    nsteps = rng.choice([1, 2, 2, 3, 4])
    steps = []
    for i in range(nsteps):
        valid = not (nsteps > 1 and i < nsteps - 1 and rng.random() < 0.4)
        st = make_step(rng, prog, valid)
        if source == "parse" and rng.random() < 0.3:
            st["entry"] = "parse"
        steps.append(st)
    if rng.random() < 0.1:
        steps[0]["ov"] = []           # no override: None / {} / declared values only
    return {"stream": "random", "prog": prog, "source": source, "gates": gates, "steps": steps, "features": dict(g.feat)}


def gen_roles(rng, idx, thorough):
    prog = roles_prog()
    names = list(ROLE_OF)
    nm = names[idx % len(names)]
    form = FORMS[(idx // len(names)) % 3]
    base = rng.choice([0, 1, 2, 3])
    if nm == "th":
        v = rng.choice([in_form(base, form), 0.5 * base + 0.25, np.float64(base + 0.5), -0.0])
    else:
        v = in_form(base, form)
        if base == 0 and form != "int" and rng.random() < 0.5:
            v = in_form(-0.0, form)
    obs = list(OBSERVERS)
    rng.shuffle(obs)
    st = {"ov": [[nm, E.enc(v), rng.choice(["lit", "runtime"])]], "entry": ("fill", "parse")[(idx // 7) % 2], "observe": obs,
          "share_dict": False}
    source = "parse" if st["entry"] == "parse" else SOURCES[(idx // 3) % len(SOURCES)]
    steps = [st]
    if rng.random() < 0.3:
        steps = [make_step(rng, prog, False)] + steps       # a refused call first
    return {"stream": "roles", "prog": prog, "source": source, "gates": ("std", "idle", "copied")[idx % 3], "steps": steps,
            "note": ROLE_OF[nm]}


def grid_cases():
    """thorough: every indirect position x value 0..4 x form x entry x source"""
    out = []
    i = 0
    for nm in ROLE_OF:
        for base in (0, 1, 2, 3, 4):
            for form in FORMS:
                vals = [in_form(base, form)] + ([in_form(-0.0, form)] if base == 0 and form != "int" else [])
                for v in vals:
                    for entry, source in (("fill", "parse"), ("parse", "parse"), ("fill", "sexpr_shared"), ("fill", "pre_expand"), ("fill", "reparse")):
                        obs = OBSERVERS[i % 5:] + OBSERVERS[: i % 5]
                        out.append({"stream": "roles", "prog": roles_prog(), "source": source, "gates": ("std", "idle", "copied")[i % 3],
                                    "steps": [{"ov": [[nm, E.enc(v), ("lit", "runtime")[i % 2]]], "entry": entry, "observe": obs,
                                               "share_dict": False, **({"post": "refill", "post_ov": [["n", E.enc(1), "lit"], ["s", E.enc(2), "lit"]]} if i % 4 == 0 else {})}],
                                    "note": ROLE_OF[nm], "id": f"grid-{nm}-{i}"})
                        i += 1
    return out


STREAMS = [("roles", gen_roles, 0.3), ("random", gen_random, 0.7)]


def gen_cases(seed, n, thorough):
    rng = random.Random(f"c05_traps:{seed}")
    cases = []
    for name, fn, share in STREAMS:
        k = max(3, int(round(n * share)))
        sub = random.Random(rng.randrange(1 << 62))
        for i in range(k):
            c = fn(sub, i, thorough)
            c["id"] = f"{name}-{seed}-{i}"
            cases.append(c)
    if thorough:
        cases += grid_cases()
    return cases


# ------------------------------------------------------------------------------------------------
# running one case

def snap(c):
    have, consts = E.impl_tree(c)
    return (generate_jaqal_program(c), repr(E.canon(have)), tuple(consts), tuple(sorted(c.native_gates)), tuple((k, repr(v.value)) for k, v in c.constants.items()))


def emu_outcome(c):
    from jaqalpaq.emulator import run_jaqal_circuit
    try:
        res = run_jaqal_circuit(c)
    except JaqalError as e:
        return ("refused",)
    return ("ok", [[float(x) for x in s.probability_by_int] for s in res.subcircuits])


def expanded(c):
    hm, consts = E.impl_tree(expand_macros(c))
    return E.canon(E.norm(hm[2])), consts


def run_case(case, rec, dist):
    prog = case["prog"]
    text = E.render(prog)
    case["text"] = text
    decl = decl_of(prog)
    kw = parse_kw(case)
    source = case["source"]
    all_names = set(decl)
    if frozen_default_shape(text, all_names):
        dist["skipped: shape of the open finding defaulted-stop-frozen"] += 1
        return
    old = signal.signal(signal.SIGALRM, _alarm)
    try:
        # ---------------- the circuit
        try:
            if source in ("sexpr", "sexpr_shared"):
                c0 = call(build, to_sexpr(prog, source == "sexpr_shared"), inject_pulses=kw["inject_pulses"])
            else:
                c0 = call(parse_jaqal_string, text, **kw)
                if source == "reparse":
                    c0 = call(parse_jaqal_string, call(generate_jaqal_program, c0), **kw)
                elif source == "pre_expand":
                    c0 = call(expand_macros, c0)
        except Hang:
            T.saw_hang()
            rec("terminates", False, "building the input circuit: no result within the time limit")
            return
        except JaqalError as e:
            dist[f"front end rejects the declared program ({source}): {str(e).split('error:')[-1][:50]}"] += 1
            return
        frame0 = E.frame_of(c0)
        snap0 = call(snap, c0)
        refused_before = False
        for si, step in enumerate(case["steps"]):
            ovl = step["ov"]
            ov = ov_build(ovl)
            env = dict(decl)
            env.update({n: E.dec(e) for n, e, _ in ovl})
            tag = f"step {si} ({step['entry']}, source {source}" + (", after a refused call" if refused_before else "") + f") overrides {ov!r}: "
            for n_, e_, km in ovl:
                dist["override form: " + ("numpy.float64" if "npfloat" in e_ else "float" if "float" in e_ else "int")
                     + (" (negative zero)" if e_.get("float", e_.get("npfloat")) == "-0.0" else "")] += 1
                dist["override key: " + km] += 1
            # ---------------- reference
            ref = None
            try:
                ref = E.Ref(prog, env)
                want = ("ok", ref.tree())
            except E.Invalid as e:
                want = ("invalid", str(e))
            except (E.Grey, OverflowError) as e:
                want = ("grey", str(e))
            if source == "pre_expand":
                # the macros are gone from the input: what is wrong only inside a macro body no longer exists, what is
                # wrong only after substitution now stands in the body - the reference decides neither
                if want[0] == "invalid":
                    want = ("grey", "pre_expand: invalid in the unexpanded program")
                elif want[0] == "ok":
                    try:
                        ref.run()
                    except (E.Grey, E.Invalid) as e:
                        want = ("grey", "pre_expand: " + str(e))
            # ---------------- library
            passed = dict(ov)
            before = dict(passed)
            try:
                if step["entry"] == "parse":
                    f = call(parse_jaqal_string, text, expand_let=True, override_dict=passed, **kw)
                elif not ov and si % 2 == 0:
                    f = call(fill_in_let, c0)
                else:
                    f = call(fill_in_let, c0, passed)
                got = ("ok", f)
            except Hang:
                T.saw_hang()
                rec("terminates", False, tag + "no result within the time limit")
                return
            except JaqalError as e:
                got = ("err", "JaqalError", str(e)[:120])
            except Exception as e:  # noqa
                got = ("err", type(e).__name__, str(e)[:120])
            rec("terminates", True)
            dist[f"{case['stream']}/{step['entry']}/{source}: reference {want[0]}, library {'ok' if got[0] == 'ok' else got[1]}"] += 1
            if refused_before:
                dist["call after a refused call on the same circuit"] += 1
            # the input and the caller's dictionary
            try:
                s1 = call(snap, c0)
                ok = s1 == snap0 and same_dict(passed, before)
                rec("input_unchanged", ok, "" if ok else tag + ("the override dictionary was modified: " + repr(passed) if not same_dict(passed, before)
                                                               else "the input circuit changed: " + E.first_diff(s1, snap0, "input")))
            except Hang:
                T.saw_hang()
                rec("terminates", False, tag + "reading the input circuit again: no result within the time limit")
                return
            except Exception as e:  # noqa
                rec("input_unchanged", False, tag + f"the input circuit cannot be read any more: {type(e).__name__}: {str(e)[:150]}")
            if want[0] == "invalid":
                rec("invalid_env_rejected", got[0] == "err", tag + f"no meaning in this environment ({want[1]}), but a circuit was returned")
                if got[0] == "err":
                    rec("rejection_is_jaqal_error", got[1] == "JaqalError", tag + f"({want[1]}) raised {got[1]}: {got[2]}")
                    refused_before = True
                continue
            if want[0] == "grey":
                dist["grey: " + want[1].split(":")[0][:50]] += 1
                continue
            if got[0] == "err":
                rec("valid_env_accepted", False, tag + f"every position evaluates in this environment, but {step['entry']} raised {got[1]}: {got[2]}")
                refused_before = refused_before or got[1] == "JaqalError"
                continue
            rec("valid_env_accepted", True)
            f = got[1]
            try:
                wm = ("ok", E.canon(ref.run()))
            except (E.Grey, E.Invalid) as e:
                wm = ("grey", str(e))
                dist["expanded meaning not decided by the reference: " + str(e)[:40]] += 1
            lit = {}

            def literal():
                """the program with the numbers written as literals, parsed (None when that text is not a program)"""
                if "c" not in lit:
                    try:
                        lit["c"] = call(parse_jaqal_string, literal_text(prog, env), **kw)
                    except (JaqalError, ValueError):
                        lit["c"] = None
                return lit["c"]

            def same_meaning(name, c, how):
                if wm[0] != "ok":
                    return
                try:
                    hm, consts = call(expanded, c)
                except Hang:
                    raise
                except Exception as e:  # noqa
                    rec(name, False, tag + f"{how}: {type(e).__name__}: {str(e)[:160]} - the program has a meaning in this environment")
                    return
                rec("no_constant_left", not consts, tag + how + f": {consts[:3]}")
                rec(name, hm == wm[1], (tag + how + ": " + E.first_diff(hm, wm[1], "body")) if hm != wm[1] else "")

            try:
                for ob in step["observe"]:
                    if ob == step["observe"][0]:
                        dist["first observation: " + ob] += 1
                    if ob == "tree":
                        try:
                            have, consts = call(E.impl_tree, f)
                        except Hang:
                            raise
                        except Exception as e:  # noqa
                            rec("value_exact", False, tag + f"the result cannot be read: {type(e).__name__}: {str(e)[:200]}")
                            continue
                        rec("no_constant_left", not consts, tag + f"{consts[:3]}")
                        fr = E.frame_of(f)
                        keys = ("natives", "usepulses", "registers") + (() if source == "pre_expand" else ("macros",))
                        fr_ok = all(fr[k] == frame0[k] for k in keys)
                        fr_ok = fr_ok and all(fr["native_defs"].get(k) is v or fr["native_defs"].get(k) == v for k, v in frame0["native_defs"].items())
                        if source == "pre_expand":
                            rec("frame_preserved", fr_ok, tag + "natives / usepulses / register names differ from the input")
                            if wm[0] == "ok":
                                hb = E.canon(E.norm(have[2]))
                                rec("value_exact", hb == wm[1], tag + "filled-in expansion: " + (E.first_diff(hb, wm[1], "body") if hb != wm[1] else ""))
                            continue
                        wt = want[1]
                        hs = (tuple(n for n, _ in have[0]), tuple((m[0], m[1], E.skeleton(m[2])) for m in have[1]), E.skeleton(have[2]))
                        ws = (tuple(n for n, _ in wt[0]), tuple((m[0], m[1], E.skeleton(m[2])) for m in wt[1]), E.skeleton(wt[2]))
                        rec("frame_preserved", fr_ok and hs == ws,
                            tag + (f"skeleton {E.show(hs, 300)} / expected {E.show(ws, 300)}" if hs != ws else "natives / usepulses / macro signatures / register names differ from the input"))
                        if hs == ws:
                            ch, cw = E.canon(have), E.canon(wt)
                            rec("value_exact", ch == cw, (tag + E.diff3(ch, cw)) if ch != cw else "")
                    elif ob == "expand":
                        same_meaning("meaning_expanded", f, "expand_macros(result)")
                    elif ob == "text":
                        if wm[0] != "ok":
                            continue
                        try:
                            t2 = call(generate_jaqal_program, f)
                            c2 = call(parse_jaqal_string, t2, **kw)
                        except Hang:
                            raise
                        except Exception as e:  # noqa
                            rec("meaning_by_text", False, tag + f"the text of the result does not parse back: {type(e).__name__}: {str(e)[:160]}")
                            continue
                        same_meaning("meaning_by_text", c2, "text of the result, parsed and expanded")
                    elif ob == "used":
                        lc = literal()
                        if lc is None:
                            dist["literal program not available"] += 1
                            continue
                        try:
                            wu = {k: sorted(v) for k, v in call(get_used_qubit_indices, lc).items()}
                        except Hang:
                            raise
                        except Exception:  # noqa
                            continue
                        try:
                            hu = {k: sorted(v) for k, v in call(get_used_qubit_indices, f).items()}
                        except Hang:
                            raise
                        except Exception as e:  # noqa
                            rec("meaning_used_qubits", False, tag + f"get_used_qubit_indices(result): {type(e).__name__}: {str(e)[:160]}")
                            continue
                        rec("meaning_used_qubits", hu == wu, tag + f"used qubits {hu} / of the program with literals {wu}")
                    elif ob == "emu":
                        lc = literal()
                        if lc is None:
                            continue
                        try:
                            wo = call(emu_outcome, lc)
                        except Hang:
                            raise
                        except Exception as e:  # noqa
                            dist[f"emulator on the literal program raised {type(e).__name__}"] += 1
                            continue
                        try:
                            ho = call(emu_outcome, f)
                        except Hang:
                            raise
                        except Exception as e:  # noqa
                            rec("meaning_emulated", False, tag + f"emulator on the result: {type(e).__name__}: {str(e)[:160]}; on the program with literals: {wo[0]}")
                            continue
                        dist["emulator: " + wo[0]] += 1
                        ok = ho[0] == wo[0] and (ho[0] != "ok" or (len(ho[1]) == len(wo[1]) and all(
                            len(a) == len(b) and np.allclose(a, b, atol=1e-12, rtol=0) for a, b in zip(ho[1], wo[1]))))
                        rec("meaning_emulated", ok, tag + f"emulator on the result {E.show(ho, 250)} / on the program with literals {E.show(wo, 250)}")
                # ---------------- the result fed back
                post = step.get("post")
                if post:
                    ov2 = ov_build(step["post_ov"])
                    dist["fed back: " + post] += 1
                    try:
                        f2 = call(fill_in_let, f if post == "refill" else call(expand_macros, f), ov2)
                    except Hang:
                        raise
                    except Exception as e:  # noqa
                        if wm[0] == "ok" or post == "refill":
                            rec("meaning_expanded", False, tag + f"{post} with {ov2!r}: {type(e).__name__}: {str(e)[:160]} (nothing is left to override)")
                        f2 = None
                    if f2 is not None:
                        same_meaning("meaning_expanded", f2, f"{post} with {ov2!r} (nothing is left to override)")
            except Hang:
                T.saw_hang()
                rec("terminates", False, tag + "observing the result: no result within the time limit")
                return
        # the input after the whole history
        try:
            s1 = call(snap, c0)
            rec("input_unchanged", s1 == snap0, "after the whole history the input circuit changed: " + (E.first_diff(s1, snap0, "input") if s1 != snap0 else ""))
        except Hang:
            T.saw_hang()
        except Exception as e:  # noqa
            rec("input_unchanged", False, f"after the whole history the input circuit cannot be read: {type(e).__name__}: {str(e)[:150]}")
    finally:
        signal.alarm(0)
        signal.signal(signal.SIGALRM, old)


def slim(case):
    return {k: case[k] for k in ("id", "stream", "source", "gates", "text", "steps", "prog", "note") if k in case}


def run(seed: int, n: int, driver: str = DEFAULT_DRIVER, thorough: bool = False) -> dict:
    _imports()
    sys.setrecursionlimit(max(sys.getrecursionlimit(), 3000))
    if thorough:
        n = n * 4
    cases = gen_cases(seed, n, thorough)
    oracle = {}
    dist = Counter()
    nontrivial = set()
    for case in cases:
        def rec(name, ok, detail="", case=case):
            o = oracle.setdefault(name, {"cases": 0, "failures": []})
            o["cases"] += 1
            if not ok:
                o["failures"].append({"case": slim(case), "detail": detail})
        dist["stream: " + case["stream"]] += 1
        dist["source: " + case["source"]] += 1
        dist["gate table: " + case["gates"]] += 1
        dist[f"calls on one circuit: {len(case['steps'])}"] += 1
        if "note" in case:
            dist["position: " + case["note"]] += 1
        for fname, k in case.get("features", {}).items():
            dist["feature: " + fname] += 1
        run_case(case, rec, dist)
        nontrivial.add(json.dumps([case.get("text"), case["steps"], case["source"]]))
    for v in oracle.values():
        v["failures"] = v["failures"][:20]
    samples = [slim(c) for c in cases[:1]] + [slim(c) for c in cases if c["stream"] == "random"][:3]
    samples = [{k: v for k, v in s.items() if k != "prog"} for s in samples]
    return {"corr": {}, "oracle": oracle, "distribution": dict(sorted(dist.items())), "samples": samples,
            "nontrivial": len(nontrivial)}


def replay(case: dict, driver: str = DEFAULT_DRIVER) -> dict:
    _imports()
    sys.setrecursionlimit(max(sys.getrecursionlimit(), 3000))
    case = dict(case)
    oracle = {}
    dist = Counter()

    def rec(name, ok, detail=""):
        o = oracle.setdefault(name, {"cases": 0, "failures": []})
        o["cases"] += 1
        if not ok:
            o["failures"].append(detail)

    run_case(case, rec, dist)
    fails = {k: v["failures"][0] for k, v in oracle.items() if v["failures"]}
    return {"model": None, "impl": dict(dist), "oracle_ok": not fails, "detail": json.dumps(fails) if fails else "all oracles hold"}


def main():
    ap = argparse.ArgumentParser()
    ap.add_argument("--seed", type=int, default=0)
    ap.add_argument("--n", type=int, default=250)
    ap.add_argument("--thorough", action="store_true")
    a = ap.parse_args()
    res = run(a.seed, a.n, thorough=a.thorough)
    print(json.dumps({"oracle": {k: {"cases": v["cases"], "failures": v["failures"][:3]} for k, v in res["oracle"].items()},
                      "distribution": res["distribution"], "nontrivial": res["nontrivial"]}, indent=1, default=str))


if __name__ == "__main__":
    main()
