#!/venv/bin/python
"""C07 at SCALE, with unusual identifier SPELLINGS, under every optional parameter, and for the LEGALITY of a statement
(oracles on the real code alone).

    PYTHONPATH=/verif /venv/bin/python /verif/harness/agents/c07_scale.py [--seed 0] [--n 100] [--thorough]

Why.  The other C07 streams (`build_diff.py`, `c07_entry.py`, `c07_edge.py`) draw programs with at most a dozen header
names, four macros, blocks three deep, names from a pool of nine letters - and they only judge programs the library
ACCEPTS against their meaning.  C07 quantifies over "all programs": a cut-off in the builder (a different data structure
beyond 48 header names, a memo table that changes beyond 64 entries, a depth counter), a name that happens to be
spelled like one of the builder's own keys, or a check that is skipped when the memo table already holds the statement
text, are all violations the small generators cannot reach.

Programs.  Every program starts as a collision-rich program of `c07_edge.Gen` (parameters named like lets / the register
/ aliases, statement texts re-used in every scope where they are valid) and is then stretched along ONE dimension to a
size drawn from {8, 16, 32, 48, 64, 100, 128, 256 (thorough also 1000)} - 1 / + 0 / + 1, everything else staying small:

* `header`   that many header names (lets / whole-register aliases / one-qubit aliases, before or after the original
             names; a program may hold only ONE register) plus a macro whose parameters are named like the first / 48th / 49th / last /
             random padded names, of the same or of ANOTHER sort than what they shadow, each used as a direct argument,
             as an array index and as an array name; the same texts again in the main body (where they mean the header
             objects) and in a later macro;
* `macros`   that many macros with colliding parameters whose bodies come from the shared pool of statement texts;
* `stmts`    that many statements in one block (main body, a macro body, a loop or a parallel block): distinct ones
             (to fill any table) mixed with re-used texts, and the re-used texts again after the block, in another scope;
             after `macros` and `stmts` also NEAR TWINS: statements that differ in one place only (gate ka / kb / kab,
             argument a let / the number it binds / its neighbour), in the main body and under a shadowing parameter;
* `nest`     a statement under that many nested blocks ({ } < > loop, one subcircuit), textually identical copies of it
             at several depths (<= 129 quick, <= 257 thorough: beyond ~190 the library says "Program is nested too deeply");
* `chain`    a chain of that many macros (<= 130 quick, <= 300 thorough) forwarding parameters under the same (or rotated)
             names, named like header names;
* `alias`    a chain of that many aliases (<= 101 quick, <= 130 thorough: fill_in_let is cubic in it), parameters named
             like links in the middle of the chain;
* `params`   a macro with that many parameters (all header names among them), the first / last / middle ones used;
* `args`     gate statements with that many arguments (9..13 always among the sizes: `p10` sorts before `p2`), in several scopes;
* `names`    no stretching; every name of the program - lets, registers, aliases, parameters, macros, gates - is replaced by
             an unusual but legal spelling: dotted names (`cal.x`, `cal.Rx`, `let.x`), pairs that differ by a dotted
             prefix / suffix, dunder names (`__macro__`, `__c10`, `__r0`, `__in_context__`), prefixes and extensions of
             keywords and of `prepare_all` / `measure_all`, names of the builder's own S-expression commands and
             anonymous parameters (`array_item`, `gate`, `p0`, `p10`), number look-alikes (`e5`, `inf`), names of 255 /
             256 / 300 / 1000 characters that differ only in the last one, and gate names spelled like identifiers of
             the program.  One in four programs of the other dimensions is renamed the same way.

Fixed programs (whatever the seed): the collisions of the property written out at every header size 7..257 (thorough
..1001); every spelling of the pools once as a let / as the register / as a direct argument only / as an alias - shadowed
and not shadowed, as argument, index and array name; and ~240 (thorough ~470) PAIRS of confusable spellings (`cal.x` / `x`,
`p1` / `p10`, two 256-character names that differ in the last character, ...) as the two parameters of one macro and as
two lets.

Reference.  The lexical evaluation of the JSON tree (the one of `c07_edge.py`, re-stated here without its depth bound
and with several registers): inside a macro a name is the parameter of that name if there is one, else the header
binding; in the main body the header binding.

Stages (every public function on the way and every optional parameter of it): `parse_jaqal_string` with each of
`expand_macro`, `expand_let`, both, `return_usepulses=True`, `inject_pulses=` (the gate definitions the program would
otherwise create anonymously) ; `expand_macros(c)` / `(c, preserve_definitions=True)` / `(c, preserve_definitions=False)`;
`fill_in_let(c)` / `(c, None)` / `(c, {})`; in both orders.

Oracles (all on the real code alone)
* `C07_scale_lexical`   at every stage that returns a circuit: walking the real objects gives exactly the lexical
  reference - the main body with calls followed into the macros, and every macro still defined opened on its symbolic
  parameters (block structure included while no macro has been expanded, gate applications in order afterwards).
* `C07_scale_accepts`   every generated program is valid under lexical scoping.  When a stage rejects (or crashes on)
  one, it must also reject (a) the same program with all macro parameters renamed to fresh names and (b) the same
  program with every name consistently replaced by a plain one (n0, n1, ... / G0, G1, ...): by C07 neither renaming
  changes what any identifier denotes.  Rejections of all three (e.g. "Program is nested too deeply") are tabulated.
* `C07_scale_unrelated` the LEGALITY of a statement depends only on its own text, its place and the bindings in scope:
  four programs P0, P0+T, P0+C, P0+T+C where C is textually identical to T and stands elsewhere (main body before or
  after, in a loop, in another macro; up to 256 unrelated statements in between); T is a macro call at a random place -
  under up to 128 nested blocks, inside parallel / subcircuit blocks, in the main body or in a macro - of a macro that
  (through a chain of up to 64 macros) may contain a subcircuit.  When P0 and P0+C are accepted, P0+T+C must have the
  outcome (accepted / JaqalError / exception class) of P0+T at `parse` and after `expand_macros`.  The oracle never
  decides itself what is legal.

Not covered here (said so that nobody assumes it): `expand_let_map` / `fill_in_map` and the emulator pipeline (covered,
at small sizes, by `c07_entry.py`).

Sizes: quick n=100 (about 7 s on a quiet machine, 10-25 s when all cores are busy: 100 stretched programs, ~1100 small
fixed ones, 50 legality cases of four programs; ~4000 judged stages), thorough n=400 (about 2 min; n is raised to 300 when smaller; ~35000 judged stages).
Deep recursion (nesting, chains) is slow in this sandbox and dominates the running time.
Importable: `run(seed, n, driver, thorough) -> dict`, `replay(case, driver) -> dict`; `corr` is empty (no Lean model here).
"""
import argparse
import json
import os
import random
import sys

sys.path.insert(0, os.path.dirname(os.path.dirname(os.path.dirname(os.path.abspath(__file__)))))

from harness.agents import c07_edge as E  # noqa: E402

DEFAULT_DRIVER = "/verif/lean/.lake/build/bin/jaqal-model"
MAXDEPTH = 700  # of the reference walks (macro calls followed); far above every generated size

THRESHOLDS = [8, 16, 32, 48, 64, 100, 128, 256]
DIMENSIONS = ["header", "header", "macros", "stmts", "stmts", "nest", "chain", "alias", "params", "args", "names", "names", "names"]


# ---------------------------------------------------------------------------------------------------------------
# programs: the JSON trees of c07_edge.py, plus "regs": [[name, size]] (extra registers, declared after "reg")


def render(prog, alpha=False):
    """Jaqal text; alpha=True renames every macro parameter to a fresh name"""
    lines = []
    for name, text, _role in prog["lets"]:
        lines.append(f"let {name} {text}")
    lines.append(f"register {prog['reg'][0]}[{prog['reg'][1]}]")
    for name, size in prog.get("regs", []):
        lines.append(f"register {name}[{size}]")
    for m in prog["maps"]:
        if m[1] == "whole":
            lines.append(f"map {m[0]} {m[2]}")
        elif m[1] == "qubit":
            lines.append(f"map {m[0]} {m[2]}[{m[3]}]")
        else:
            start, stop, step = ("" if v is None else str(v) for v in m[3:6])
            lines.append(f"map {m[0]} {m[2]}[{start}:{stop}" + (f":{step}" if step else "") + "]")
    for k, (name, params, _sorts, kind, body) in enumerate(prog["macros"]):
        ren = E.alpha_map(k, params) if alpha else {}
        lines.append("macro " + " ".join([name] + [ren.get(p, p) for p in params]) + " " + E.r_block(kind, body, ren))
    for s in prog["main"]:
        lines.append(E.r_stmt(s))
    return "\n".join(lines) + "\n"


def alpha_prog(prog):
    p2 = json.loads(json.dumps(prog))
    for k, m in enumerate(p2["macros"]):
        ren = E.alpha_map(k, m[1])
        m[4] = E.ren_stmts(m[4], ren)
        m[1] = [ren[p] for p in m[1]]
    return p2


def ren_gates(stmts, gmap):
    out = []
    for s in stmts:
        if s[0] in ("gate", "call"):
            out.append([s[0], gmap.get(s[1], s[1]), s[2]])
        elif s[0] == "loop":
            out.append(["loop", s[1], s[2], ren_gates(s[3], gmap)])
        elif s[0] in ("seq", "par"):
            out.append([s[0], ren_gates(s[1], gmap)])
        else:
            out.append(["sub", s[1], ren_gates(s[2], gmap)])
    return out


def rename_prog(prog, idmap, gmap):
    """the program with every identifier n replaced by idmap[n] and every gate / macro name by gmap[n] (both injective)"""
    p = json.loads(json.dumps(prog))
    ident = lambda n: idmap.get(n, n) if isinstance(n, str) else n  # noqa: E731
    p["lets"] = [[ident(n), t, r] for n, t, r in p["lets"]]
    p["reg"] = [ident(p["reg"][0]), ident(p["reg"][1])]
    p["regs"] = [[ident(n), ident(s)] for n, s in p.get("regs", [])]
    maps = []
    for m in p["maps"]:
        if m[1] == "whole":
            maps.append([ident(m[0]), "whole", ident(m[2])])
        elif m[1] == "qubit":
            maps.append([ident(m[0]), "qubit", ident(m[2]), ident(m[3])])
        else:
            maps.append([ident(m[0]), "slice", ident(m[2]), ident(m[3]), ident(m[4]), ident(m[5])])
    p["maps"] = maps
    p["macros"] = [[gmap.get(name, name), [ident(x) for x in params], sorts, kind, ren_gates(E.ren_stmts(body, idmap), gmap)]
                   for name, params, sorts, kind, body in p["macros"]]
    p["main"] = ren_gates(E.ren_stmts(p["main"], idmap), gmap)
    return p


def names_of(prog):
    """-> (identifiers, gate / macro names), each in order of first appearance"""
    ids, gates = [], []

    def add(lst, n):
        if isinstance(n, str) and n not in lst:
            lst.append(n)

    def arg(a):
        if a[0] == "id":
            add(ids, a[1])
        elif a[0] == "item":
            add(ids, a[1])
            arg(a[2])

    def stmts(ss):
        for s in ss:
            if s[0] in ("gate", "call"):
                add(gates, s[1])
                for a in s[2]:
                    arg(a)
            elif s[0] == "loop":
                arg(s[1])
                stmts(s[3])
            elif s[0] in ("seq", "par"):
                stmts(s[1])
            else:
                if s[1] is not None:
                    arg(s[1])
                stmts(s[2])

    for n, _t, _r in prog["lets"]:
        add(ids, n)
    add(ids, prog["reg"][0])
    add(ids, prog["reg"][1])
    for n, s in prog.get("regs", []):
        add(ids, n)
        add(ids, s)
    for m in prog["maps"]:
        for x in (m[0], m[2]) + tuple(m[3:]):
            add(ids, x)
    for name, params, _sorts, _kind, body in prog["macros"]:
        add(gates, name)
        for x in params:
            add(ids, x)
        stmts(body)
    stmts(prog["main"])
    return ids, gates


def plain_prog(prog):
    """every name consistently replaced by a plain one (collisions between parameters and header names are kept)"""
    ids, gates = names_of(prog)
    return rename_prog(prog, {n: f"n{k}" for k, n in enumerate(ids)}, {n: f"G{k}" for k, n in enumerate(gates)})


# ---------------------------------------------------------------------------------------------------------------
# lexical reference (c07_edge.lex_* without the depth bound, with several registers)


def lex_stmts(stmts, env, macros, henv, via, depth=0, memo=None):
    """memo: (macro name, bindings of its parameters) -> the opened body (a chain of n macros costs n, not n * n)"""
    memo = {} if memo is None else memo
    if depth > MAXDEPTH:
        raise E.LexError("macro nesting too deep")
    out = []
    for s in stmts:
        if s[0] == "gate":
            out.append(("gate", s[1], tuple(E.lex_arg(a, env, via) for a in s[2])))
        elif s[0] == "call":
            m = macros.get(s[1])
            if m is None or len(m[1]) != len(s[2]):
                raise E.LexError(f"bad call of {s[1]}")
            bound = tuple((p, E.lex_arg(a, env, via)) for p, a in zip(m[1], s[2]))
            key = (s[1], bound)
            if key not in memo:
                env2 = dict(henv)
                env2.update(dict(bound))
                memo[key] = lex_stmts(m[4], env2, macros, henv, via, depth + 1, memo)
            out.append(("blk", m[3], memo[key]))
        elif s[0] == "loop":
            out.append(("loop", E.lex_arg(s[1], env, via), s[2], lex_stmts(s[3], env, macros, henv, via, depth, memo)))
        elif s[0] in ("seq", "par"):
            out.append(("blk", s[0], lex_stmts(s[1], env, macros, henv, via, depth, memo)))
        elif s[0] == "sub":
            out.append(("sub", ("int", "1") if s[1] is None else E.lex_arg(s[1], env, via),
                        lex_stmts(s[2], env, macros, henv, via, depth, memo)))
        else:
            raise E.LexError(f"bad statement {s[0]}")
    return out


def lex_program(prog, via="text"):
    henv, lets = {}, {}
    for name, text, _role in prog["lets"]:
        henv[name] = ("hdr", name)
        lets[name] = E.iso_let(text, via)
        if lets[name] is None:
            raise E.LexError(f"`let {name} {text[:40]}` is rejected when it stands alone")
    henv[prog["reg"][0]] = ("hdr", prog["reg"][0])
    for name, _size in prog.get("regs", []):
        henv[name] = ("hdr", name)
    for m in prog["maps"]:
        if m[2] not in henv:
            raise E.LexError(f"alias of the undefined {m[2]}")
        if m[1] == "qubit":
            henv[m[0]] = ("item", henv[m[2]], ("hdr", m[3]) if isinstance(m[3], str) else ("int", str(m[3])))
        else:
            henv[m[0]] = ("hdr", m[0])
    macros, seen, memo = {}, {}, {}
    for m in prog["macros"]:
        env = dict(henv)
        env.update({p: ("P", p) for p in m[1]})
        macros[m[0]] = lex_stmts(m[4], env, seen, henv, via, 0, memo)  # a macro sees the macros defined before it
        seen[m[0]] = m
    return {"main": lex_stmts(prog["main"], henv, seen, henv, via, 0, memo), "macros": macros, "lets": lets}


# ---------------------------------------------------------------------------------------------------------------
# evaluation of the real objects (c07_edge.obj_* without the depth bound)


def obj_stmts(stmts, env, params, circuit, where, depth=0, memo=None):
    """memo: (id of the Macro object, bindings of its parameters) -> the opened body"""
    L = E.lib()
    memo = {} if memo is None else memo
    if depth > MAXDEPTH:
        raise E.ObjError(f"{where}: macro nesting too deep")
    out = []
    for s in stmts:
        if isinstance(s, L["GateStatement"]):
            macro = circuit.macros.get(s.name)
            if macro is None and isinstance(s.gate_def, L["Macro"]):
                macro = s.gate_def
            args = [E.obj_value(v, env, params, circuit, f"{where}, statement `{s.name[:60]}`") for v in s.parameters.values()]
            if macro is not None:
                if len(args) != len(macro.parameters):
                    raise E.ObjError(f"{where}: call of {s.name[:60]} with {len(args)} arguments")
                key = (id(macro), tuple((p.name, a) for p, a in zip(macro.parameters, args)))
                if key not in memo:
                    env2 = {p.name: a for p, a in zip(macro.parameters, args)}
                    params2 = {p.name: p for p in macro.parameters}
                    memo[key] = obj_stmts(macro.body.statements, env2, params2, circuit, f"macro {macro.name[:60]}", depth + 1, memo)
                out.append(("blk", "par" if macro.body.parallel else "seq", memo[key]))
            else:
                out.append(("gate", s.name, tuple(args)))
        elif isinstance(s, L["LoopStatement"]):
            out.append(("loop", E.obj_value(s.iterations, env, params, circuit, where), "par" if s.statements.parallel else "seq",
                        obj_stmts(s.statements.statements, env, params, circuit, where, depth, memo)))
        elif isinstance(s, L["BlockStatement"]):
            if s.subcircuit:
                out.append(("sub", E.obj_value(s.iterations, env, params, circuit, where),
                            obj_stmts(s.statements, env, params, circuit, where, depth, memo)))
            else:
                out.append(("blk", "par" if s.parallel else "seq", obj_stmts(s.statements, env, params, circuit, where, depth, memo)))
        else:
            raise E.ObjError(f"{where}: unexpected statement {type(s).__name__}")
    return out


def obj_program(circuit):
    res = {"macros": {}}
    memo = {}  # the Macro objects stay alive in `circuit` while it is used, so their ids are not re-used
    try:
        res["main"] = obj_stmts(circuit.body.statements, None, {}, circuit, "main body", 0, memo)
    except E.ObjError as e:
        res["main"] = str(e)
    for name, m in circuit.macros.items():
        env = {p.name: ("P", p.name) for p in m.parameters}
        params = {p.name: p for p in m.parameters}
        try:
            res["macros"][name] = obj_stmts(m.body.statements, env, params, circuit, f"macro {name[:60]}", 0, memo)
        except E.ObjError as e:
            res["macros"][name] = str(e)
    return res


# ---------------------------------------------------------------------------------------------------------------
# stages: (parse flags, passes)
#   flags:  expand_macro | expand_let | return_usepulses | inject
#   passes: M expand_macros(c) | Mp (c, preserve_definitions=True) | Mf (c, preserve_definitions=False)
#           L fill_in_let(c)   | Ln (c, None) | L0 (c, {})

ALL_STAGES = [
    ((), []), ((), ["M"]), ((), ["Mp"]), ((), ["Mf"]), ((), ["L"]), ((), ["Ln"]), ((), ["L0"]),
    ((), ["L", "M"]), ((), ["M", "L0"]), ((), ["Mp", "Ln"]), ((), ["L0", "Mp"]),
    (("expand_macro",), []), (("expand_let",), []), (("expand_let",), ["Mf"]), (("expand_let", "expand_macro"), []),
    (("return_usepulses",), []), (("return_usepulses",), ["M"]), (("return_usepulses", "expand_let", "expand_macro"), []),
    (("inject",), []), (("inject",), ["M"]), (("inject",), ["L0", "Mp"]), (("inject", "expand_let", "expand_macro"), []),
]
QUICK_CORE = [ALL_STAGES[k] for k in (0, 1, 7)]  # quick tier: these, plus two of the others per program (in rotation)
QUICK_EXTRA = [s for s in ALL_STAGES if s not in QUICK_CORE and s[1] != ["L"]]


def quick_stages(k, extra=2):
    return QUICK_CORE + [QUICK_EXTRA[(extra * k + j) % len(QUICK_EXTRA)] for j in range(extra)]

LEGAL_STAGES = [((), []), ((), ["M"])]


def stage_name(flags, passes):
    return "parse(" + ",".join(flags) + ")" + "".join("." + p for p in passes)


def stage_filled(flags, passes):
    return "expand_let" in flags or any(p in ("L", "Ln", "L0") for p in passes)


def stage_expanded(flags, passes):
    return "expand_macro" in flags or any(p in ("M", "Mp", "Mf") for p in passes)


def gate_arities(prog):
    """name -> number of arguments, for every gate of the program that is not a macro"""
    out = {}

    def stmts(ss):
        for s in ss:
            if s[0] == "gate":
                out.setdefault(s[1], len(s[2]))
            elif s[0] == "loop":
                stmts(s[3])
            elif s[0] in ("seq", "par"):
                stmts(s[1])
            elif s[0] == "sub":
                stmts(s[2])

    for m in prog["macros"]:
        stmts(m[4])
    stmts(prog["main"])
    return out


def do_first(prog, flags):
    L = E.lib()
    kw = {k: True for k in flags if k != "inject"}
    if "inject" in flags:
        from jaqalpaq.core import GateDefinition
        kw["inject_pulses"] = {name: GateDefinition(name, parameters=[L["Parameter"](f"p{i}", None) for i in range(n)])
                               for name, n in gate_arities(prog).items()}
    out = L["parse"](render(prog), autoload_pulses=False, **kw)
    if "return_usepulses" in flags:
        if not (isinstance(out, tuple) and len(out) == 2):
            raise TypeError(f"return_usepulses=True returned {type(out).__name__}")
        out = out[0]
    return out


def do_pass(c, p):
    L = E.lib()
    if p == "L":
        return L["fill_in_let"](c)
    if p == "Ln":
        return L["fill_in_let"](c, None)
    if p == "L0":
        return L["fill_in_let"](c, {})
    if p == "M":
        return L["expand_macros"](c)
    if p == "Mp":
        return L["expand_macros"](c, preserve_definitions=True)
    if p == "Mf":
        return L["expand_macros"](c, preserve_definitions=False)
    raise ValueError(p)


class StageRunner:
    def __init__(self, prog):
        self.prog = prog
        self.cache = {}

    def outcome(self, flags, passes):
        key = (tuple(flags), tuple(passes))
        if key in self.cache:
            return self.cache[key]
        if not passes:
            out = E.guarded(lambda: do_first(self.prog, flags))
        else:
            prev = self.outcome(flags, passes[:-1])
            out = ("prefix",) + tuple(prev[:2]) if prev[0] != "ok" else E.guarded(lambda: do_pass(prev[1], passes[-1]))
        self.cache[key] = out
        return out


def outcome_class(out):
    if out[0] == "prefix":
        return "prefix"
    if out[0] == "exc":
        return "exc " + str(out[1])
    return out[0]


# ---------------------------------------------------------------------------------------------------------------
# judging one (program, stage)


def judge_semantics(lx, flags, passes, circuit):
    filled, expanded = stage_filled(flags, passes), stage_expanded(flags, passes)
    want_main = E.fill_trees(lx["main"], lx["lets"]) if filled else lx["main"]
    want_macros = {k: (E.fill_trees(v, lx["lets"]) if filled else v) for k, v in lx["macros"].items()}
    got = obj_program(circuit)
    fails = []

    def compare(got_trees, want_trees, where):
        if isinstance(got_trees, str):
            fails.append(got_trees)
            return
        if expanded:
            d = E.first_difference(E.flatten(got_trees), E.flatten(want_trees), "gate application")
        else:
            d = E.first_difference(got_trees, want_trees, "statement")
        if d:
            fails.append(f"{where}, {d}")

    compare(got["main"], want_main, "main body")
    for name, trees in got["macros"].items():
        if name in want_macros:
            compare(trees, want_macros[name], f"macro {name[:60]}")
        else:
            fails.append(f"the circuit has a macro {name[:60]} the program does not define")
    keeps = not any(p in ("M", "Mf") for p in passes)  # the parse flag expand_macro and Mp keep the definitions
    if keeps:
        for name in want_macros:
            if name not in got["macros"]:
                fails.append(f"macro {name[:60]} is missing from the circuit")
    return fails


def judge_rejection(prog, flags, passes, out):
    """the stage did not return a circuit although the program is lexically valid -> (failure detail | None, tag)"""
    what = out[0] + (" " + " ".join(map(str, out[1:])) if len(out) > 1 else "")
    tags = []
    for label, other in (("its macro parameters renamed to fresh names", alpha_prog(prog)),
                         ("every name replaced by a plain one (n0, n1, ... / G0, G1, ...)", plain_prog(prog))):
        o = StageRunner(other).outcome(list(flags), list(passes))
        if o[0] == "ok":
            return (f"{stage_name(flags, passes)} gives `{what[:300]}` but accepts the same program with {label}"), "rejected: judged"
        tags.append(o[0])
    return None, f"rejected: {out[0]}" + (f" {out[1]}" if out[0] == "exc" else f" {str(out[1])[:50]}" if out[0] == "rej" else "") \
        + " (both renamed programs " + "/".join(tags) + " too)"


ORACLES = ("C07_scale_lexical", "C07_scale_accepts", "C07_scale_unrelated")


def _bump(res, key, by=1):
    res["distribution"][key] = res["distribution"].get(key, 0) + by


def _fail(res, oracle, case, detail):
    lst = res["oracle"][oracle]["failures"]
    if len(lst) < 20:
        lst.append({"case": case, "detail": detail})


def short(text, n=2500):
    return text if len(text) <= n else text[:n] + f" ... ({len(text)} characters)"


def _case(oracle, prog, flags, passes, meta):
    return {"oracle": oracle, "kind": "program", "prog": prog, "flags": list(flags), "passes": list(passes),
            "stage": stage_name(flags, passes), "meta": meta, "text": short(render(prog))}


def with_prefixes(stages):
    return E.with_prefixes(stages)


def run_program(res, prog, stages, meta):
    try:
        lx = lex_program(prog)
    except (E.LexError, ValueError, RecursionError) as e:  # the generator promised a lexically valid program
        _bump(res, f"generator: invalid program ({meta.get('dim')}: {str(e)[:80]})")
        return
    runner = StageRunner(prog)
    for flags, passes in with_prefixes(stages):
        out = runner.outcome(flags, passes)
        if out[0] == "prefix":
            continue
        name = stage_name(flags, passes)
        if out[0] != "ok":
            detail, tag = judge_rejection(prog, flags, passes, out)
            _bump(res, tag)
            res["oracle"]["C07_scale_accepts"]["cases"] += 1
            if detail:
                _fail(res, "C07_scale_accepts", _case("C07_scale_accepts", prog, flags, passes, meta), detail)
            continue
        _bump(res, f"stage accepted: {name}")
        res["oracle"]["C07_scale_lexical"]["cases"] += 1
        try:
            details = judge_semantics(lx, flags, passes, out[1])
        except RecursionError:
            details = ["the walk of the built objects exceeds the recursion limit"]
        for d in details[:2]:
            _fail(res, "C07_scale_lexical", _case("C07_scale_lexical", prog, flags, passes, meta), f"after {name}: {d}")


# ---------------------------------------------------------------------------------------------------------------
# generator: a c07_edge.Gen program stretched along one dimension


def _n(t):
    return ["num", str(t)]


def _id(n):
    return ["id", n]


def _it(a, i):
    return ["item", a, i]


def _G(name, *args):
    return ["gate", name, list(args)]


def _C(name, *args):
    return ["call", name, list(args)]


def copy(x):
    return json.loads(json.dumps(x))


class Stretch:
    def __init__(self, rng, thorough):
        self.rng = rng
        self.thorough = thorough
        self.gen = E.Gen(rng)
        self.prog, self.hscope, _twins = self.gen.program()
        self.prog["regs"] = []
        self.meta = {}

    # ---- helpers
    def pick(self, xs):
        return self.gen.pick(xs)

    def chance(self, p):
        return self.gen.chance(p)

    def size(self, cap=None, extra=(), only=None):
        ts = list(only) if only else list(THRESHOLDS) + list(extra)
        if self.thorough and cap is None and self.chance(0.08):
            ts = [1000]
        t = self.pick(ts)
        n = t + self.pick([-1, 0, 1, 1])
        if cap is not None:
            n = min(n, cap)
        self.meta["threshold"] = t
        self.meta["size"] = n
        return n

    def macros_dict(self, upto=None):
        ms = self.prog["macros"] if upto is None else self.prog["macros"][:upto]
        return {m[0]: m for m in ms}

    def scope_with(self, params, sorts):
        scope = dict(self.hscope)
        scope.update({p: (("reg", 2) if s == "reg" else s) for p, s in zip(params, sorts)})
        return scope

    def fix_sorts(self, params, sorts):
        """make sure a register-like name is left in scope"""
        scope = self.scope_with(params, sorts)
        if not any(isinstance(v, tuple) for v in scope.values()):
            cands = [j for j, p in enumerate(params) if isinstance(self.hscope.get(p), tuple)]
            sorts[self.pick(cands)] = "reg"
        return sorts

    def uses(self, p, sort, scope):
        """statements that use the name p, of the given sort, as a direct argument, as an index and as an array name"""
        regs = [n for n, v in scope.items() if isinstance(v, tuple)]
        idxs = [n for n, v in scope.items() if v == "idx"]
        R = self.pick(regs)
        out = []
        if sort == "idx":
            out = [_G("g", _it(R, _id(p))), _G("k", _id(p)), _G("u", _it(R, _id(p)), _id(p))]
        elif sort == "cnt":
            out = [["loop", _id(p), "seq", [_G("g", _it(R, _n(0)))]], _G("k", _id(p))]
        elif sort == "num":
            out = [_G("k", _id(p)), _G("u", _it(R, _n(self.pick([0, 1]))), _id(p))]
        elif sort == "reg":
            out = [_G("g", _it(p, _n(self.pick([0, 1])))), _G("w", _id(p))]
            if idxs:
                out.append(_G("g", _it(p, _id(self.pick(idxs)))))
        elif sort == "qubit":
            out = [_G("g", _id(p)), _G("h", _id(p), _it(R, _n(1)))]
        self.rng.shuffle(out)
        return out

    def sort_like(self, v):
        if isinstance(v, tuple):
            return "reg"
        return v if v in ("idx", "cnt", "num", "qubit") else "num"

    def sort_for(self, name):
        """a sort for a parameter that shadows the header name: the same sort, or another one"""
        same = self.sort_like(self.hscope.get(name, "num"))
        return same if self.chance(0.55) else self.pick(["idx", "reg", "num", "qubit", "cnt"])

    def call_args(self, m, scope, params):
        args = []
        for p, srt in zip(m[1], m[2]):
            args.append(self.gen.gen_arg(E.SORT_USAGE[srt], scope, params, p if self.chance(0.4) else None))
        return args

    def collision_macro(self, name, shadowed, extra_body=2, at=None):
        """a macro whose parameters are named like the given header names, every parameter used in every role; the gate
        statements of its body again in the main body (where they mean the header objects), and a call of it"""
        params = E.dedupe(shadowed)
        sorts = self.fix_sorts(params, [self.sort_for(p) for p in params])
        scope = self.scope_with(params, sorts)
        body = []
        for p, s in zip(params, sorts):
            body.extend(self.uses(p, s, scope)[: self.pick([1, 2, 3])])
        at = len(self.prog["macros"]) if at is None else at
        before = self.macros_dict(at)
        for _ in range(extra_body):
            body.append(self.gen.gen_simple(scope, params, before))
        self.rng.shuffle(body)
        m = [name, params, sorts, "seq", body]
        self.prog["macros"].insert(at, m)
        main = self.prog["main"]
        for s in body:
            if s[0] == "gate" and self.gen.fits(s, self.hscope, {}) and self.chance(0.7):
                main.insert(self.rng.randrange(len(main) + 1), copy(s))
        for _ in range(self.pick([1, 1, 2])):
            main.insert(self.rng.randrange(len(main) + 1), _C(name, *self.call_args(m, self.hscope, [])))
        return m

    def echo_macro(self, name, of):
        """a later macro with OTHER parameters that holds those statement texts of macro `of` that are valid in it"""
        hnames = list(self.hscope)
        params = E.dedupe([self.pick(hnames) for _ in range(self.pick([0, 1, 2]))])
        sorts = self.fix_sorts(params, [self.sort_for(p) for p in params])
        scope = self.scope_with(params, sorts)
        before = self.macros_dict()
        body = [copy(s) for s in of[4] if s[0] in ("gate", "call") and self.gen.fits(s, scope, before)]
        if not body:
            body = [self.gen.gen_simple(scope, params, before)]
        m = [name, params, sorts, "seq", body]
        self.prog["macros"].append(m)
        self.prog["main"].append(_C(name, *self.call_args(m, self.hscope, [])))

    def near_twins(self):
        """statements that differ from one another in ONE place only - the gate name (ka / kb / kab), the argument (a let /
        the number it binds / a neighbouring number) - at the end of the main body and in a macro whose parameter is named
        like the let: whatever was built before must not leak into any of them"""
        lets = [n for n, v in self.hscope.items() if v in ("idx", "cnt", "num")]
        x = self.pick(lets) if lets else None
        args = [_n(1), _n("1.0"), _n(2)] + ([_id(x)] if x else [])
        stmts = [_G(g, a) for a in args for g in ("ka", "kb", "kab")]
        self.rng.shuffle(stmts)
        self.prog["main"].extend(copy(stmts))
        if x:
            self.rng.shuffle(stmts)
            self.prog["macros"].append(["zt", [x], ["num"], "seq", copy(stmts)])
            self.prog["main"].append(_C("zt", _n(7)))
            self.prog["main"].extend(copy(stmts[:4]))

    # ---- the dimensions
    def header(self):
        n = self.size()
        kinds = self.pick(["lets", "lets", "aliases", "qubits", "mix", "mix"])  # (a program may hold ONE register)
        self.meta["padding"] = kinds
        front = self.chance(0.4)
        pads, lets, maps = [], [], []
        regs = [k for k, v in self.hscope.items() if isinstance(v, tuple)]
        need = max(0, n - len(self.hscope))
        for i in range(need):
            kind = kinds if kinds != "mix" else self.pick(["lets", "lets", "aliases", "qubits"])
            if kind == "lets":
                role = self.pick(["idx", "idx", "idx", "cnt", "num"])
                text = self.pick(["0", "1"]) if role == "idx" else self.pick(["0", "2", "3"]) if role == "cnt" else self.pick(["0.5", "2.5", "-1.5"])
                nm = f"k{i}"
                lets.append([nm, text, role])
                self.hscope[nm] = role
            elif kind == "aliases":
                nm, src = f"al{i}", self.pick(regs[:4])
                maps.append([nm, "whole", src])
                self.hscope[nm] = self.hscope[src]
            else:
                nm = f"qb{i}"
                maps.append([nm, "qubit", self.pick(regs[:4]), self.pick([0, 1])])
                self.hscope[nm] = "qubit"
            pads.append(nm)
        self.prog["lets"] = lets + self.prog["lets"] if front else self.prog["lets"] + lets
        self.prog["maps"] = self.prog["maps"] + maps
        cands = [pads[j] for j in (0, 1, 46, 47, 48, 49, 62, 63, 64, -2, -1) if pads and -len(pads) <= j < len(pads)]
        cands += [self.pick(pads) for _ in range(3)] if pads else []
        shadowed = [self.pick(cands) for _ in range(self.pick([1, 2, 2, 3, 4]))] if cands else []
        if self.chance(0.5) or not shadowed:
            shadowed.append(self.pick(list(self.hscope)))
        m = self.collision_macro("zz", shadowed, at=self.pick([0, len(self.prog["macros"])]))
        self.echo_macro("zy", m)
        self.meta["header names"] = len(self.hscope)

    def macros(self):
        n = self.size()
        hnames = list(self.hscope)
        for i in range(max(0, n - len(self.prog["macros"]))):
            params = E.dedupe([self.pick(hnames) for _ in range(self.pick([0, 1, 1, 2]))])
            sorts = self.fix_sorts(params, [self.sort_for(p) for p in params])
            scope = self.scope_with(params, sorts)
            before = self.macros_dict() if self.chance(0.3) else {}
            body = [self.gen.gen_simple(scope, params, before) for _ in range(self.pick([1, 1, 2]))]
            m = [f"pm{i}", params, sorts, "par" if self.chance(0.1) else "seq", body]
            self.prog["macros"].append(m)
            if self.chance(0.1):
                self.prog["main"].append(_C(m[0], *self.call_args(m, self.hscope, [])))
        m = self.collision_macro("zz", [self.pick(hnames) for _ in range(self.pick([1, 2, 3]))])
        self.echo_macro("zy", m)
        for _ in range(3):
            self.prog["main"].append(self.gen.gen_simple(self.hscope, [], self.macros_dict()))
        self.near_twins()
        self.meta["macros"] = len(self.prog["macros"])

    def fresh_stmt(self, i, scope):
        regs = [n for n, v in scope.items() if isinstance(v, tuple)]
        r = self.rng.random()
        if r < 0.5:
            return _G("k", _n(1000 + i))
        if r < 0.8:
            return _G("u", _it(self.pick(regs), _n(self.pick([0, 1]))), _n(f"{i}.5"))
        return _G("kk", _n(i), _n(-i))

    def stmts(self):
        n = self.size()
        k = self.pick([None, None] + [j for j, m in enumerate(self.prog["macros"]) if m[3] == "seq"])
        if k is None:
            scope, params, before, target = dict(self.hscope), [], self.macros_dict(), self.prog["main"]
        else:
            m = self.prog["macros"][k]
            scope, params, before, target = self.gen.scope_of(self.prog, self.hscope, k), m[1], self.macros_dict(k), m[4]
        fill = []
        for i in range(n):
            fill.append(self.fresh_stmt(i, scope) if self.chance(0.55) else self.gen.gen_simple(scope, params, before))
        shape = self.pick(["flat", "flat", "loop", "par", "split"])
        self.meta["block"] = shape + (" in the main body" if k is None else " in a macro")
        at = self.rng.randrange(len(target) + 1)
        if shape == "flat":
            target[at:at] = fill
        elif shape == "loop":
            target.insert(at, ["loop", _n(self.pick([0, 1, 2])), "seq", fill])
        elif shape == "par":
            target.insert(at, ["par", fill])
        else:
            half = len(fill) // 2
            target[at:at] = fill[:half]
            target.extend(fill[half:])
        # the re-used texts once more, after everything, in the main body and in a new macro
        for s in list(self.gen.pool):
            if self.gen.fits(s, self.hscope, self.macros_dict()) and self.chance(0.5):
                self.prog["main"].append(copy(s))
        m = self.collision_macro("zz", [self.pick(list(self.hscope)) for _ in range(self.pick([1, 2, 3]))])
        self.echo_macro("zy", m)
        self.near_twins()

    def nest(self):
        # (the library refuses programs nested deeper than about 190 blocks: "Program is nested too deeply")
        d = self.size(cap=257 if self.thorough else 129, extra=(20, 40))
        k = self.pick([None, None] + [j for j, m in enumerate(self.prog["macros"]) if m[3] == "seq"])
        if k is None:
            scope, params, before, target = dict(self.hscope), [], self.macros_dict(), self.prog["main"]
        else:
            m = self.prog["macros"][k]
            scope, params, before, target = self.gen.scope_of(self.prog, self.hscope, k), m[1], self.macros_dict(k), m[4]
        s = self.gen.gen_simple(scope, params, before)
        # wrappers from the outside in; ctx is the kind of block the next thing stands in
        ctx, shape = "seq", []
        sub_ok = k is None and self.chance(0.3)
        for level in range(d):
            if ctx == "par":
                w = "seq"
            else:
                w = self.pick(["par", "par", "loop-seq", "loop-seq", "loop-par"])
                if sub_ok and level == 0:
                    w = "sub"
            shape.append(w)
            ctx = "par" if w in ("par", "loop-par") else "seq"
        copies = set(self.rng.sample(range(d), min(d, self.pick([1, 2, 3, 5]))))
        inner = copy(s)
        for level in range(d - 1, -1, -1):
            w = shape[level]
            items = [inner]
            if level in copies:
                items.insert(self.pick([0, 1]), copy(s))
            if w == "par":
                inner = ["par", items]
            elif w == "seq":
                inner = ["seq", items]
            elif w == "sub":
                inner = ["sub", self.pick([None, _n(2)]), items]
            elif w == "loop-seq":
                inner = ["loop", _n(self.pick([1, 1, 2, 0])), "seq", items]
            else:
                inner = ["loop", _n(1), "par", items]
        at = self.rng.randrange(len(target) + 1)
        target.insert(at, inner)
        target.insert(self.pick([at, at + 1, len(target)]), copy(s))
        if self.gen.fits(s, self.hscope, self.macros_dict()):
            self.prog["main"].append(copy(s))
        self.meta["nesting"] = ("with a subcircuit" if "sub" in shape else "blocks and loops") + (" in the main body" if k is None else " in a macro")

    def chain(self):
        n = self.size(cap=300 if self.thorough else 130)
        hnames = list(self.hscope)
        params = E.dedupe([self.pick(hnames + E.NAMES) for _ in range(self.pick([1, 2, 2, 3]))])
        rotate = self.chance(0.5) and len(params) > 1
        if rotate:
            srt = self.pick(["idx", "num", "qubit", "reg"])
            sorts = [srt] * len(params)
        else:
            sorts = [self.sort_for(p) for p in params]
        sorts = self.fix_sorts(params, sorts)
        if rotate and len(set(sorts)) > 1:
            rotate = False
        scope = self.scope_with(params, sorts)
        before = self.macros_dict()
        body = []
        for p, s in zip(params, sorts):
            body.extend(self.uses(p, s, scope)[:2])
        body.append(self.gen.gen_simple(scope, params, before))
        self.prog["macros"].append(["ch0", params, sorts, "seq", body])
        extra_at = set(self.rng.sample(range(1, n), min(n - 1, 3))) if n > 1 else set()
        for i in range(1, n):
            args = [_id(p) for p in params]
            if rotate:
                args = args[1:] + args[:1]
            b = [_C(f"ch{i - 1}", *args)]
            if i in extra_at:
                b.insert(self.pick([0, 1]), copy(self.pick(body)))
            self.prog["macros"].append([f"ch{i}", list(params), list(sorts), "seq", b])
        for j in E.dedupe([n - 1, n - 1, self.rng.randrange(n), 0]):
            m = self.prog["macros"][-n + j]
            self.prog["main"].append(_C(m[0], *self.call_args(m, self.hscope, [])))
        for s in body:
            if s[0] == "gate" and self.gen.fits(s, self.hscope, {}):
                self.prog["main"].append(copy(s))
        self.meta["chain"] = "rotating the parameters" if rotate else "forwarding the parameters"

    def alias(self):
        # fill_in_let is cubic in the length of an alias chain
        n = self.size(cap=130, only=[8, 16, 32, 48, 64, 100, 128] if self.thorough else [8, 16, 16, 32, 32, 48, 48, 64, 64, 100])
        regs = [k for k, v in self.hscope.items() if isinstance(v, tuple)]
        prev = self.pick(regs)
        links = []
        for i in range(n):
            nm = f"al{i}"
            size = self.hscope[prev][1]
            if self.chance(0.15) and size >= 2:
                self.prog["maps"].append([nm, "slice", prev, self.pick([None, 0]), None, None])
            else:
                self.prog["maps"].append([nm, "whole", prev])
            self.hscope[nm] = ("reg", size)
            links.append(nm)
            prev = nm
        cands = [links[j] for j in (0, n // 2, -2, -1) if -n <= j < n] + [self.pick(links)]
        shadowed = [self.pick(cands) for _ in range(self.pick([1, 2, 3]))]
        m = self.collision_macro("zz", shadowed)
        self.echo_macro("zy", m)
        self.prog["main"].append(_G("g", _it(links[-1], _n(0))))
        self.prog["main"].append(_G("w", _id(links[n // 2])))

    def params(self):
        n = self.size()
        names = list(self.hscope)
        self.rng.shuffle(names)
        names = names[: max(1, min(len(names), n))]
        names += [f"w{i}" for i in range(max(0, n - len(names)))]
        self.rng.shuffle(names)
        sorts = [self.sort_for(p) if p in self.hscope else self.pick(["idx", "cnt", "num", "qubit", "reg"]) for p in names]
        sorts = self.fix_sorts(names, sorts)
        scope = self.scope_with(names, sorts)
        used = E.dedupe([0, len(names) - 1, len(names) // 2, 1, 9, 10, 11] + [self.rng.randrange(len(names)) for _ in range(3)])
        body = []
        for j in used:
            if 0 <= j < len(names):
                body.extend(self.uses(names[j], sorts[j], scope)[: self.pick([1, 2])])
        self.rng.shuffle(body)
        m = ["wide", names, sorts, "seq", body]
        self.prog["macros"].append(m)
        self.prog["main"].append(_C("wide", *self.call_args(m, self.hscope, [])))
        # a call from a macro whose parameters are named like some of them
        ps = E.dedupe([self.pick(names) for _ in range(2)])
        ss = self.fix_sorts(ps, [sorts[names.index(p)] for p in ps])
        sc = self.scope_with(ps, ss)
        c = ["wcall", ps, ss, "seq", [_C("wide", *self.call_args(m, sc, ps))]]
        self.prog["macros"].append(c)
        self.prog["main"].append(_C("wcall", *self.call_args(c, self.hscope, [])))
        for s in body:
            if s[0] == "gate" and self.gen.fits(s, self.hscope, {}):
                self.prog["main"].append(copy(s))

    def args(self):
        n = self.size(extra=(9, 10, 11, 12))
        name = f"big{n}"
        hnames = list(self.hscope)
        ps = E.dedupe([self.pick(hnames) for _ in range(self.pick([1, 2, 3]))])
        ss = self.fix_sorts(ps, [self.sort_for(p) for p in ps])
        sc = self.scope_with(ps, ss)

        def one(scope, params):
            args = []
            for i in range(n):
                r = self.rng.random()
                if r < 0.5:
                    args.append(_n(i))
                elif r < 0.6:
                    args.append(_n(f"{i}.25"))
                else:
                    args.append(self.gen.gen_arg(self.pick(["f", "q", "x"]), scope, params, self.pick(params) if params and self.chance(0.5) else None))
            return _G(name, *args)

        s_macro = one(sc, ps)
        s_main = one(self.hscope, [])
        m = ["am", ps, ss, "seq", [s_macro, self.gen.gen_simple(sc, ps, {})]]
        self.prog["macros"].append(m)
        self.prog["main"].append(s_main)
        self.prog["main"].append(_C("am", *self.call_args(m, self.hscope, [])))
        self.prog["main"].append(copy(s_main))
        if all(self.valid_in_header(a) for a in s_macro[2]):
            self.prog["main"].append(copy(s_macro))  # the same text, now meaning the header objects

    def valid_in_header(self, a):
        if a[0] == "num":
            return True
        if a[0] == "id":
            return self.hscope.get(a[1]) in ("idx", "cnt", "num", "qubit")
        return isinstance(self.hscope.get(a[1]), tuple) and (a[2][0] == "num" or self.hscope.get(a[2][1]) == "idx")

    def names(self):
        self.meta["size"] = 0

    # ---- unusual spellings
    def respell(self):
        ids, gates = names_of(self.prog)
        fams = [list(f) for f in ID_FAMILIES]
        self.rng.shuffle(fams)
        fams = fams[: self.pick([1, 2, 2, 3])]
        if self.chance(0.35):
            fams.append(long_family(self.pick([255, 255, 256, 300, 1000])))
        self.meta["spellings"] = sorted({f[0] for f in fams})
        pool = E.dedupe([x for f in fams for x in f])
        self.rng.shuffle(pool)
        if "__macro__" in pool and self.chance(0.5):
            pool.remove("__macro__")
            pool.insert(0, "__macro__")
        ids = list(ids)
        self.rng.shuffle(ids)
        idmap = {}
        for k, n in enumerate(ids):
            idmap[n] = pool[k] if k < len(pool) else f"{pool[k % len(pool)]}.v{k}"
        gpool = E.dedupe([x for f in self.rng.sample(GATE_FAMILIES, 2) for x in f])
        if self.chance(0.5):
            # gates and macros spelled like identifiers of the program (not the two gate names subcircuits give a meaning to)
            gpool = E.dedupe([x for x in list(idmap.values())[:4] if x not in ("prepare_all", "measure_all")] + gpool)
        self.rng.shuffle(gpool)
        gmap = {}
        for k, n in enumerate(gates):
            gmap[n] = gpool[k] if k < len(gpool) else f"{gpool[k % len(gpool)]}.v{k}"
        self.prog = rename_prog(self.prog, idmap, gmap)

    def build(self, dim, respell):
        self.meta["dim"] = dim
        getattr(self, dim)()
        if respell:
            self.respell()
            self.meta["respelled"] = True
        return self.prog, self.meta


_KW = ["let", "macro", "loop", "register", "map", "from", "as", "import", "usepulses", "branch", "subcircuit"]
ID_FAMILIES = [
    ["cal.x", "x", "x.cal", "cal", "cal.x.y", "x.x", "cal.cal", "x.y", "y", "cal.y", "Cal.x", "cal.X"],
    ["a.b", "a", "b", "a.b.c", "b.c", "a.bb", "aa.b", "a.b.a", "b.a", "c", "a.c", "a._b"],
    ["__macro__", "__c10", "__r0", "__c1", "__r00", "__name__", "__class__", "__dict__", "__init__", "__macro", "macro__",
     "_macro_", "__macro__.x", "x.__macro__", "__MACRO__", "__macro___"],
    ["__", "_", "___", "_0", "_1", "__0", "_a", "a_", "__a", "_._", "_.a", "__.__"],
    ["__gate__", "__param__", "__context__", "__block__", "__loop__", "__let__", "__register__", "__map__", "__circuit__",
     "__body__", "__args__", "__self__", "__parent__", "__scope__", "__depth__", "__index__", "__main__", "__builtins__"],
    ["__in_context__", "__in_context__parallel", "__in_context__subcircuit", "__in_context__sequential", "in_context",
     "parallel", "sequential", "subcircuit_", "__in_context__.parallel", "context", "gate_context", "self"],
    ["p0", "p1", "p2", "p10", "p11", "p3", "p00", "p01", "P0", "p", "p.0", "p0.p1"],
    ["array_item", "gate", "circuit", "sequential_block", "parallel_block", "subcircuit_block", "unscheduled_block", "case",
     "None", "True", "False", "all", "name", "args", "usepulses_", "build"],
    [k[:-1] for k in _KW] + [k + "_" for k in _KW] + [k + "s" for k in _KW if k != "as"] + [k.capitalize() for k in _KW],
    [k + ".x" for k in _KW] + ["x." + k + "x" for k in _KW[:4]] + [k.upper() for k in _KW[:5]] + ["_" + k for k in _KW[:5]],
    ["prepare_all", "measure_all", "prepare_al", "measure_al", "prepare_all_", "measure_all_", "prepare", "measure",
     "prepare_all.x", "x.prepare_all", "prepare_all2", "_prepare_all", "Prepare_all", "measure_all.measure_all"],
    ["e", "E", "e5", "E10", "e.5", "x0", "O0", "l1", "inf", "nan", "pi", "i", "j", "I", "e_5", "e0"],
    ["q", "Q", "r", "R", "a", "A", "qq", "q.q", "Q.q", "rr", "r.R", "aA"],
]
GATE_FAMILIES = [
    ["cal.Rx", "Rx", "cal.cal.Rx", "Rx.cal", "cal.Ry", "Ry", "cal", "cal.R", "R", "std.g", "g.g", "g", "G"],
    ["__macro__", "__gate__", "__call__", "__c10", "__r0", "__", "_", "__init__", "__macro", "__in_context__", "__name__", "___"],
    ["gate", "array_item", "circuit", "sequential_block", "parallel_block", "subcircuit_block", "p0", "p1", "p10", "None", "all", "build_gate"],
    [k[:-1] for k in _KW] + [k + "_" for k in _KW] + [k + ".g" for k in _KW[:5]],
    ["prepare_al", "measure_al", "prepare_all_", "measure_all_", "prepare", "measure", "prepare_all.x", "x.measure_all",
     "prepare_allx", "Measure_all", "prep", "meas"],
    ["m0", "m1", "m", "m.0", "m0.m1", "M0", "m00", "m01", "m10", "m_0", "_m0", "m0_"],
]


def long_family(n):
    base = "n" * (n - 1)
    return [base + "a", base + "b", base, base + "a.b", base + "ab", base + "_", base + "a.a", base + "0", base + "1", "n" * (n // 2)]


# ---------------------------------------------------------------------------------------------------------------
# legality of a statement: P0, P0+T, P0+C, P0+T+C


def legality_case(rng, thorough):
    pick = lambda xs: xs[rng.randrange(len(xs))]  # noqa: E731
    chance = lambda p: rng.random() < p  # noqa: E731

    def near(cap):
        t = pick([t for t in THRESHOLDS if t <= cap])
        return t + pick([-1, 0, 1])

    meta = {"dim": "legality"}
    d = pick([0, 0, 0, 1, 1, 2, 3, near(64)])
    meta["macros between the call and the subcircuit"] = d
    macros = [["meas", ["q"], ["qubit"], "seq", [["sub", pick([None, None, _n(2)]), [_G("g", _id("q"))]]]]]
    prev = "meas"
    for i in range(d):
        body = [_C(prev, _id("q"))]
        if chance(0.2):
            body = [["loop", _n(2), "seq", body]]
        macros.append([f"w{i}", ["q"], ["qubit"], "seq", body])
        prev = f"w{i}"
    macros.append(["plain", ["q"], ["qubit"], "seq", [_G("g", _id("q"))]])
    macros.append(["lpm", ["q"], ["qubit"], "seq", [["loop", _n(2), "seq", [_C("meas", _id("q"))]]]])
    target = pick([prev, prev, prev, "meas", "lpm", "plain"])
    meta["callee"] = "holds a subcircuit" if target != "plain" else "holds no subcircuit"
    in_macro = chance(0.4)
    arg = pick([_id("q"), _id("q"), _it("r", _n(0)), _it("r", _id("a"))]) if in_macro else pick([_it("r", _n(0)), _it("r", _id("a")), _id("qa")])
    T = _C(target, arg)
    # the place of T: wrappers from the outside in
    depth = pick([0, 1, 1, 1, 2, 2, 3, 3, near(128)])
    ctx, shape = "seq", []
    for _level in range(depth):
        if ctx == "par":
            w = "seq"
        else:
            w = pick(["par", "par", "par", "loop-seq", "loop-par", "sub"])
        shape.append(w)
        ctx = "par" if w in ("par", "loop-par") else "seq"
    meta["depth of the place"] = depth
    meta["place"] = ("inside a parallel or subcircuit block" if any(w in ("par", "loop-par", "sub") for w in shape) else "sequential") \
        + (" of a macro" if in_macro else " of the main body")
    inner = copy(T)
    for w in reversed(shape):
        if w == "par":
            items = [inner, _G("g", _it("r", _n(1)))]
            if chance(0.5):
                items.reverse()
            inner = ["par", items]
        elif w == "seq":
            inner = ["seq", [inner]]
        elif w == "sub":
            inner = ["sub", None, [inner]]
        elif w == "loop-seq":
            inner = ["loop", _n(2), "seq", [inner]]
        else:
            inner = ["loop", _n(2), "par", [inner]]
    placed_T = inner
    # the place of C
    uses_param = arg == _id("q")
    where_c = pick(["macro-before", "macro-after"] if uses_param else ["main-before", "main-before", "main-after", "loop-before", "macro-before", "macro-after"])
    if not in_macro and where_c.startswith("macro") and chance(0.5):
        where_c = "main-before"
    meta["copy"] = where_c
    between = pick([0, 0, 0, 1, 3, near(256)])
    meta["statements between"] = between
    filler = [_G("k", _n(2000 + i)) for i in range(between)]
    c_main = copy(T) if not where_c.startswith("loop") else ["loop", _n(2), "seq", [copy(T)]]
    c_macro = ["other", ["q"], ["qubit"], "seq", [copy(T)]]
    t_macro = ["hold", ["q"], ["qubit"], "seq", [placed_T]]

    def make(with_t, with_c):
        ms = copy(macros)
        main = [_G("g", _it("r", _n(1)))]
        pre, post = [], []
        if with_c and where_c in ("main-before", "loop-before"):
            pre.append(copy(c_main))
        if with_c and where_c == "main-after":
            post.append(copy(c_main))
        if with_c and where_c == "macro-before":
            ms.append(copy(c_macro))
        if with_t and in_macro:
            ms.append(copy(t_macro))
        if with_c and where_c == "macro-after":
            ms.append(copy(c_macro))
        main = main + pre + copy(filler)
        if with_t:
            main.append(_C("hold", _it("r", _n(1))) if in_macro else copy(placed_T))
        main += post
        return {"lets": [["a", pick0, "idx"]], "reg": ["r", 3], "regs": [], "maps": [["qa", "qubit", "r", 0]], "macros": ms, "main": main}

    pick0 = pick(["0", "1"])
    progs = {"0": make(False, False), "T": make(True, False), "C": make(False, True), "TC": make(True, True)}
    return progs, meta


def judge_legality(progs):
    """-> (failure detail | None, tag)"""
    outs = {}
    for key in ("0", "C", "T", "TC"):
        runner = StageRunner(progs[key])
        outs[key] = [runner.outcome(list(f), list(p)) for f, p in LEGAL_STAGES]
        if key in ("0", "C") and any(o[0] != "ok" for o in outs[key]):
            return None, f"not judged: the program without the statement is not accepted ({key}: {outcome_class(outs[key][0])})"
    ct = [outcome_class(o) for o in outs["T"]]
    ctc = [outcome_class(o) for o in outs["TC"]]
    tag = "statement alone: " + ct[0] + (" / after expand_macros " + ct[1] if ct[1] != "prefix" else "")
    if ct != ctc:
        names = [stage_name(f, p) for f, p in LEGAL_STAGES]
        k = next(j for j in range(len(ct)) if ct[j] != ctc[j])
        msg = lambda o: (" " + str(o[-1])[:160]) if o[0] in ("rej", "exc") else ""  # noqa: E731
        return (f"{names[k]}: the program with the statement alone gives `{ct[k]}{msg(outs['T'][k])}`, with a textually identical "
                f"statement elsewhere (accepted on its own) it gives `{ctc[k]}{msg(outs['TC'][k])}`"), tag
    return None, tag


# ---------------------------------------------------------------------------------------------------------------
# fixed programs: the collisions of the property at every threshold, written out (whatever the seed)


def fixed_programs(thorough):
    P = []
    sizes = [7, 8, 9, 15, 16, 17, 31, 32, 33, 47, 48, 49, 50, 63, 64, 65, 99, 100, 101, 127, 128, 129, 255, 256, 257] + ([999, 1000, 1001] if thorough else [])
    for n in sizes:
        # n header names: lets k0..; the register; aliases - parameters named like the 2nd let, the register, the last alias
        nl = max(2, n - 3)
        lets = [[f"k{i}", str(i % 2), "idx"] for i in range(nl)]
        maps = [["al", "whole", "r"], ["qb", "qubit", "r", "k0"]][: max(0, n - nl - 1)]
        macros = [["foo", ["k1"], ["idx"], "seq", [_G("u", _it("r", _id("k1")), _id("k1")), _G("g", _it("r", _id("k0")))]],
                  ["bar", ["r"], ["reg"], "seq", [_G("g", _it("r", _n(2))), _G("w", _id("r")), _G("g", _it("r", _id("k1")))]],
                  ["baz", [f"k{nl - 1}", "k0"], ["num", "reg"], "seq", [_G("k", _id(f"k{nl - 1}")), _G("g", _it("k0", _n(1)))]]]
        main = [_C("foo", _n(2)), _C("bar", _id("r")), _C("baz", _n("0.5"), _id("r")), _G("u", _it("r", _id("k1")), _id("k1")),
                _G("g", _it("r", _n(2))), _G("k", _id(f"k{nl - 1}"))]
        if len(maps) > 0:
            macros.append(["qux", ["al"], ["idx"], "seq", [_G("g", _it("r", _id("al"))), _G("k", _id("al"))]])
            main += [_C("qux", _n(1)), _C("bar", _id("al")), _G("g", _it("al", _n(0)))]
        P.append(({"lets": lets, "reg": ["r", 3], "regs": [], "maps": maps, "macros": macros, "main": main},
                  {"dim": "fixed header", "size": n, "threshold": n}))
    # every unusual spelling once in the roles of the property: let / register / alias shadowed and not shadowed, in a
    # macro and in the main body, as argument, index and array name
    spellings = E.dedupe([x for f in ID_FAMILIES for x in f] + long_family(256)[:3])
    hq, hr, hrr, other = "hq9", "hr9", "hrr9", "hz9"  # helper names, none of them among the spellings
    for nm in spellings:
        lets = [[nm, "2", "idx"]]
        macros = [["foo", [hq], ["qubit"], "seq", [_G("tq", _id(hq), _it(hr, _id(nm)), _id(nm))]],
                  ["bar", [nm], ["idx"], "seq", [_G("u", _it(hr, _id(nm)), _id(nm))]],
                  ["baz", [nm], ["reg"], "seq", [_G("g", _it(nm, _n(1))), _G("w", _id(nm))]]]
        main = [_C("foo", _it(hr, _n(0))), _C("bar", _n(1)), _C("baz", _id(hr)), _G("tq", _it(hr, _n(1)), _it(hr, _id(nm)), _id(nm))]
        P.append(({"lets": lets, "reg": [hr, 3], "regs": [], "maps": [], "macros": macros, "main": main},
                  {"dim": "fixed spelling (let)", "size": 0}))
        macros = [["foo", [hq], ["qubit"], "seq", [_G("h", _id(hq), _it(nm, _n(1))), _G("w", _id(nm)), _G("g", _id(other))]],
                  ["bar", [nm], ["idx"], "seq", [_G("u", _it(hrr, _id(nm)), _id(nm))]],
                  ["baz", [other, nm], ["reg", "qubit"], "seq", [_G("g", _it(other, _n(1))), _G("g", _id(nm))]]]
        main = [_C("foo", _it(nm, _n(0))), _C("bar", _n(1)), _C("baz", _id(nm), _id(other)), _G("h", _id(other), _it(nm, _n(1)))]
        P.append(({"lets": [], "reg": [nm, 3], "regs": [], "maps": [[hrr, "slice", nm, 1, None, None], [other, "qubit", nm, 2]],
                   "macros": macros, "main": main}, {"dim": "fixed spelling (register)", "size": 0}))
        # only as a direct argument (never an index): a let not shadowed / shadowed by a qubit / a whole-register alias
        macros = [["foo", [hq], ["qubit"], "seq", [_G("u", _id(hq), _id(nm)), _G("k", _id(nm))]],
                  ["bar", [nm], ["qubit"], "seq", [_G("g", _id(nm)), _G("u", _id(nm), _n("0.25"))]]]
        main = [_C("foo", _it(hr, _n(0))), _C("bar", _it(hr, _n(1))), _G("k", _id(nm)), _G("u", _it(hr, _n(2)), _id(nm))]
        P.append(({"lets": [[nm, "0.5", "num"]], "reg": [hr, 3], "regs": [], "maps": [], "macros": macros, "main": main},
                  {"dim": "fixed spelling (argument)", "size": 0}))
        macros = [["foo", [hq], ["qubit"], "seq", [_G("h", _id(hq), _it(nm, _n(1))), _G("w", _id(nm))]],
                  ["bar", [nm], ["num"], "seq", [_G("k", _id(nm)), _G("w", _id(hr))]],
                  ["baz", [hr], ["idx"], "seq", [_G("g", _it(nm, _id(hr))), _G("w", _id(nm))]]]
        main = [_C("foo", _it(nm, _n(0))), _C("bar", _n("1.5")), _C("baz", _n(2)), _G("w", _id(nm)), _G("h", _it(hr, _n(0)), _it(nm, _n(1)))]
        P.append(({"lets": [], "reg": [hr, 3], "regs": [], "maps": [[nm, "whole", hr]], "macros": macros, "main": main},
                  {"dim": "fixed spelling (alias)", "size": 0}))
    # pairs of spellings that are easily confused, as the two parameters of one macro and as two lets of the header
    pairs = []
    for fam in list(ID_FAMILIES) + [long_family(n) for n in (255, 256, 300, 1000)]:
        pairs += [(fam[i], fam[j]) for i in range(len(fam)) for j in ((i + 1, i + 2) if thorough else (i + 1,)) if j < len(fam)]
    for a, b in pairs:
        macros = [["foo", [a, b], ["idx", "num"], "seq", [_G("u", _it(hr, _id(a)), _id(b)), _G("kk", _id(b), _id(a))]],
                  ["bar", [b, a], ["idx", "num"], "seq", [_G("u", _it(hr, _id(b)), _id(a)), _C("foo", _id(b), _id(a))]],
                  ["baz", [b], ["reg"], "seq", [_G("g", _it(b, _id(a))), _C("foo", _id(a), _n("0.25"))]]]
        main = [_C("foo", _n(2), _n("0.5")), _C("bar", _n(0), _n("1.5")), _C("baz", _id(hr)), _G("u", _it(hr, _id(a)), _id(b)),
                _G("kk", _id(b), _id(a)), _C("foo", _id(a), _id(b))]
        P.append(({"lets": [[a, "1", "idx"], [b, "-2.5", "num"]], "reg": [hr, 3], "regs": [], "maps": [], "macros": macros, "main": main},
                  {"dim": "fixed pair of spellings", "size": 0}))
    return P


# ---------------------------------------------------------------------------------------------------------------
# main entry points


def run(seed: int, n: int, driver: str = DEFAULT_DRIVER, thorough: bool = False) -> dict:
    E.lib()
    E._ISO.clear()
    rng = random.Random(seed)
    res = {"corr": {}, "oracle": {o: {"cases": 0, "failures": []} for o in ORACLES},
           "distribution": {}, "samples": [], "nontrivial": 0}
    if thorough:
        n = max(n, 300)
    distinct = set()
    for k, (prog, meta) in enumerate(fixed_programs(thorough)):
        if thorough:
            st = ALL_STAGES if meta["dim"] == "fixed header" else quick_stages(k + seed, 5)
        elif meta["dim"] == "fixed header" or k % 4 == seed % 4:
            st = quick_stages(k, 1)
        else:  # ~1300 tiny programs: parse and expand_macros for all, the other stages for a quarter of them (by seed)
            st = QUICK_CORE[:2]
        run_program(res, prog, st, meta)
        distinct.add(render(prog))
        _bump(res, f"programs: {meta['dim']}")
    for k in range(n):
        dim = DIMENSIONS[k % len(DIMENSIONS)]
        st = Stretch(rng, thorough)
        try:
            prog, meta = st.build(dim, respell=(dim == "names") or st.chance(0.25))
            text = render(prog)
        except RecursionError:
            _bump(res, f"generator: recursion limit ({dim})")
            continue
        distinct.add(text)
        _bump(res, f"programs: {dim}")
        if meta.get("respelled"):
            _bump(res, "programs with unusual spellings")
            for f in meta.get("spellings", []):
                _bump(res, f"spelling family of {f[:20]}" + ("..." if len(f) > 20 else ""))
        if meta.get("size"):
            _bump(res, f"{dim}: size around {meta['threshold']}")
        for key in ("padding", "block", "nesting", "chain"):
            if key in meta:
                _bump(res, f"{dim}: {meta[key]}")
        # (deep recursion is slow in this sandbox: the deep programs get one rotating stage in the quick tier, the others
        # two; in the thorough tier four, the others every stage)
        deep = dim in ("nest", "chain", "alias")
        if thorough:
            st_list = quick_stages(k // len(DIMENSIONS) + k, 4) if deep else ALL_STAGES
        else:
            st_list = quick_stages(k // len(DIMENSIONS) + k, 1 if deep else 2)
        run_program(res, prog, st_list, meta)
        if k < len(DIMENSIONS) and len(res["samples"]) < 6 and k % 2 == 0:
            res["samples"].append({"meta": meta, "text": short(text, 1200)})
    for k in range(max(20, n // 2)):
        progs, meta = legality_case(rng, thorough)
        distinct.add(render(progs["TC"]))
        _bump(res, "programs: legality (four programs each)")
        detail, tag = judge_legality(progs)
        _bump(res, "legality: " + tag)
        if not tag.startswith("not judged"):
            res["oracle"]["C07_scale_unrelated"]["cases"] += 1
            _bump(res, f"legality: {meta['place']}, callee {meta['callee']}")
            _bump(res, f"legality: copy {meta['copy']}")
            if meta["depth of the place"] > 6:
                _bump(res, "legality: place more than 6 blocks deep")
            if meta["statements between"] > 6:
                _bump(res, "legality: more than 6 statements between the copy and the statement")
            if meta["macros between the call and the subcircuit"] > 6:
                _bump(res, "legality: subcircuit behind more than 6 macros")
        if detail:
            _fail(res, "C07_scale_unrelated",
                  {"oracle": "C07_scale_unrelated", "kind": "legality", "progs": progs, "meta": meta,
                   "text": short(render(progs["TC"]))}, detail)
        if k == 0:
            res["samples"].append({"meta": meta, "text": short(render(progs["TC"]), 1200)})
    res["nontrivial"] = len(distinct)
    return res


def replay(case: dict, driver: str = DEFAULT_DRIVER) -> dict:
    E.lib()
    if case.get("kind") == "legality":
        detail, tag = judge_legality(case["progs"])
        return {"oracle_ok": detail is None, "detail": detail or tag}
    prog = case["prog"]
    flags, passes = case.get("flags", []), case.get("passes", [])
    out = StageRunner(prog).outcome(list(flags), list(passes))
    impl = {"outcome": out[0] if out[0] != "ok" else "accepted", "message": " ".join(map(str, out[1:]))[:300] if out[0] != "ok" else ""}
    if case.get("oracle", "").endswith("_accepts"):
        if out[0] in ("ok", "prefix"):
            return {"oracle_ok": True, "detail": "the stage accepts the program (or an earlier stage fails)", "stage_outcome": impl}
        detail, tag = judge_rejection(prog, flags, passes, out)
        return {"oracle_ok": detail is None, "detail": detail or tag, "stage_outcome": impl}
    if out[0] != "ok":
        return {"oracle_ok": None, "detail": f"the stage does not return a circuit: {impl}", "stage_outcome": impl}
    details = judge_semantics(lex_program(prog), flags, passes, out[1])
    return {"oracle_ok": not details, "detail": "; ".join(details), "stage_outcome": impl}


def main():
    ap = argparse.ArgumentParser()
    ap.add_argument("--driver", default=DEFAULT_DRIVER)
    ap.add_argument("--seed", type=int, default=0)
    ap.add_argument("--n", type=int, default=100)
    ap.add_argument("--thorough", action="store_true")
    ap.add_argument("--json", action="store_true")
    a = ap.parse_args()
    res = run(a.seed, a.n, a.driver, a.thorough)
    if a.json:
        print(json.dumps(res, indent=1))
    bad = 0
    for name, r in res["oracle"].items():
        print(f"oracle {name}: {r['cases']} cases, {len(r['failures'])} failures (first 20 kept)")
        for d in r["failures"][:4]:
            print("  FAIL", d["detail"][:700])
            print("       stage", d["case"].get("stage"), "meta", d["case"].get("meta"))
            print("       " + d["case"]["text"][:1200].replace("\n", "\n       "))
            rp = replay(d["case"])
            print("       replay:", rp["oracle_ok"], str(rp["detail"])[:200])
        bad += len(r["failures"])
    print("distinct programs:", res["nontrivial"])
    for k in sorted(res["distribution"]):
        print(f"  {res['distribution'][k]:7d}  {k}")
    sys.exit(1 if bad else 0)


if __name__ == "__main__":
    main()
