#!/venv/bin/python
"""C17 differential test: the three front ends (Jaqal text, CircuitBuilder, Python Q-syntax) on generated
programs, against each other (direct oracles on the real code) and against the Lean model
`Jaqal.FrontEnds` (`JaqalModel/Model/FrontEnds.lean`, ops in `FrontEndsOps.lean`).

Run:   PYTHONPATH=/verif /venv/bin/python /verif/harness/agents/qsyn_diff.py [--driver PATH] [--n N] [--seed S] [--thorough]
Import: `harness.agents.qsyn_diff.run(seed, n, driver, thorough)` / `replay(case, driver)` (protocol of AGENT_CONVENTIONS.md).

A case is `{"prog": Prog, "gates": "anon" | "typed"}`; Prog JSON (see FrontEndsOps.lean):
  {"lets": [{"name": str|null, "value": Num}], "regs": [{"name": str|null, "size": Count}], "body": [Stmt]}
  Count = {"i": n} | {"ref": k};  Arg = Num | {"ref": k} | {"r": k} | {"q": k, "idx": Count}
  Stmt = {"g": name, "args": [Arg]} | {"seq": [Stmt]} | {"par": [Stmt]} | {"loop": Count, "body": [Stmt]}
       | {"sub": Count|null, "body": [Stmt]}
Lets / registers are referred to by position (creation order).

Real code driven:
  Q    : a function decorated with `jaqalpaq.qsyntax.circuit` replays the program (`Q.let(value, name)` …,
         `Q.register(size, name)` …, `getattr(Q, gate)(*args)`, `with Q.sequential()/parallel()/loop(n)/subcircuit(n)`,
         `with Q.subcircuit()` for an absent count); the argument of `build` is intercepted by wrapping
         `jaqalpaq.qsyntax.qsyntax.build` at run time.
  OO   : `CircuitBuilder(native_gates)`: `let/register(..., unevaluated=True)`, `gate`, `block`, `subcircuit`,
         `SequentialBlockBuilder` + `loop(n, b, unevaluated=True)`; anonymous objects carry the names the REAL
         `Namer` chooses.
  text : the program printed by `render_py` (Python, independent of the model) → `parse_to_sexpression`,
         `parse_jaqal_string(text, inject_pulses=…, autoload_pulses=False)`.

corr (model vs real code):  lower_q, lower_oo, parse_sx, render, legal (parser accepts ⇔ model `legal`),
  wraps (model `wraps` ⇔ the real Q-syntax added prepare_all/measure_all), namer.
oracle (real code only):
  three_equal   common programs (≤1 register, grammatical nesting): the three front ends all reject with a JaqalError,
                or all accept and the circuits are pairwise `==` (both argument orders) with equal `dump.circuit`;
                the text being that of the program, wrapped in prepare_all … measure_all iff the body does not begin
                with a prepare or a subcircuit (`begins_prep_or_sub`, computed here on the Prog)
  wrap_iff      the real Q-syntax wraps ⇔ not begins_prep_or_sub(body)
  fresh_names   names in the S-expression Q-syntax hands to `build`: generated ones pairwise distinct and not among the user names
  q_eq_oo       every program (also ungrammatical nesting / several registers): Q-syntax and CircuitBuilder agree
  count_variants  `build` gives == circuits for the subcircuit count written "" / None / 1
  namer_fresh   the real Namer on random name lists: result distinct from all user names, pairwise distinct
  subcircuit_none  replaying an absent count as `Q.subcircuit(None)` gives the same S-expression and circuit as `Q.subcircuit()`
(Programs whose register size is a let with a non-integral value — `let n 0.5; register q[n]` — are part of three_equal /
q_eq_oo: Q-syntax refuses them in validate_int, the other two in Register.__init__ since the repair of 2026-09-23;
the feature `nonintegral_let_size` counts them.)
"""
import argparse
import copy
import json
import random
import subprocess
import sys
from collections import Counter

DEFAULT_DRIVER = "/verif/lean/.lake/build/bin/jaqal-model"

LET_POOL = ["__c0", "__c1", "__c2", "__r0", "__r1", "a", "b", "n", "k", "x_1", "Foo", "__c10", "__r", "__c"]
REG_POOL = ["__r0", "__r1", "__c0", "__c1", "r", "q", "a", "n", "__r2", "Foo"]
ANON_GATES = ["Foo", "Bar", "X", "prepare_all", "measure_all", "prepare_all", "G_1", "a", "r"]
TYPED = {"X": "q", "Y": "q", "Z": "q", "S": "q", "SX": "q", "N": "q", "P": "qi", "PF": "fq", "CX": "qq", "CZ": "qq",
         "SWAP": "qq", "CCX": "qqq", "prepare_all": "", "measure_all": ""}
FLOATS = ["0.5", "1.5", "-2.25", "3.14", "1e-07", "2.0", "0.0", "-0.0", "1e+16", "12345.678", "6.02e+23", "-1.0", "3.0"]


def _imports():
    """Imports of the code under test, done lazily (nothing happens at module import)."""
    import jaqalpaq.qsyntax.qsyntax as qs
    from jaqalpaq.qsyntax import circuit
    from jaqalpaq.core.circuitbuilder import CircuitBuilder, SequentialBlockBuilder, build
    from jaqalpaq.parser import parse_jaqal_string
    from jaqalpaq.parser.parser import parse_to_sexpression
    from jaqalpaq.error import JaqalError
    from harness import dump
    from harness.gates import GATES

    return dict(qs=qs, circuit=circuit, CircuitBuilder=CircuitBuilder, SequentialBlockBuilder=SequentialBlockBuilder,
                build=build, parse_jaqal_string=parse_jaqal_string, parse_to_sexpression=parse_to_sexpression,
                JaqalError=JaqalError, dump=dump, GATES=GATES)


# ------------------------------------------------------------------------------------------ generation

def jnum(x):
    if isinstance(x, float):
        from harness import dump
        return dump.num(x)
    return {"i": str(x)}


def pynum(j):
    if "i" in j:
        return int(j["i"])
    neg, mant, exp = j["f"]
    return float(f"{'-' if neg else ''}{mant}e{exp}")


class Gen:
    """State of one generated program.  `clean` programs avoid what every front end rejects (arity clashes of
    anonymous gates, indices out of range, bad sizes, subcircuits below subcircuit / parallel blocks), so that most
    cases are accepted; the others keep those in (all three must then reject alike)."""

    def __init__(self, rng, wild, typed):
        self.rng, self.wild, self.typed = rng, wild, typed
        self.clean = rng.random() < 0.8
        self.lets = []        # python values
        self.sizes = []       # effective register sizes (None when not a positive int)
        self.arity = {}

    # ---- counts
    def int_lets(self, pred):
        return [i for i, v in enumerate(self.lets) if isinstance(v, int) and pred(v)]

    def count(self, lits, pref=0.35, pred=lambda v: True):
        rng = self.rng
        if self.lets and rng.random() < pref:
            if self.clean:
                good = self.int_lets(pred)
                if good:
                    return {"ref": rng.choice(good)}
            else:
                return {"ref": rng.randrange(len(self.lets))}
        return {"i": str(rng.choice(lits))}

    def index(self, r):
        size = self.sizes[r]
        if self.clean and size:
            return self.count(list(range(size)), pref=0.3, pred=lambda v: 0 <= v < size)
        return self.count([0, 0, 1, 1, 2, 3, -1, 7], pref=0.3)

    def arg(self, kinds="nfrqRl"):
        rng = self.rng
        k = rng.choice(kinds)
        if k == "l" and self.lets:
            return {"ref": rng.randrange(len(self.lets))}
        if k == "q" and self.sizes:
            r = rng.randrange(len(self.sizes))
            return {"q": r, "idx": self.index(r)}
        if k == "R" and self.sizes:
            return {"r": rng.randrange(len(self.sizes))}
        if k == "f":
            return jnum(float(rng.choice(FLOATS)))
        return jnum(rng.choice([0, 1, 2, 3, -1, -7, 10, 255, 2**40, -(2**65)]))

    def gate(self):
        rng = self.rng
        if self.typed and rng.random() < 0.95:
            name = rng.choice(list(TYPED))
            args = []
            used = set()
            for k in TYPED[name]:
                if k == "q":
                    if not self.sizes:
                        args.append(jnum(0))
                        continue
                    for _ in range(8):
                        a = {"q": 0, "idx": self.index(0)}
                        key = json.dumps(a)
                        if key not in used:
                            break
                    used.add(key)
                    args.append(a)
                elif k == "i":
                    ok = self.int_lets(lambda v: True) if self.clean else list(range(len(self.lets)))
                    args.append({"ref": rng.choice(ok)} if ok and rng.random() < 0.3 else jnum(rng.choice([0, 1, 2, 3, -1])))
                else:
                    args.append({"ref": rng.randrange(len(self.lets))} if self.lets and rng.random() < 0.3
                                else jnum(float(rng.choice(FLOATS))))
            return {"g": name, "args": args}
        name = rng.choice(ANON_GATES)
        if name in ("prepare_all", "measure_all") and (self.clean or rng.random() < 0.9):
            return {"g": name, "args": []}
        n = rng.choice([0, 1, 1, 2, 2, 3])
        if self.clean:
            n = self.arity.setdefault(name, n)
        return {"g": name, "args": [self.arg() for _ in range(n)]}

    def stmts(self, depth, ctx, in_sub=False, in_par=False, top=False):
        n = self.rng.choice([0, 1, 2, 3, 3, 4, 5]) if top else self.rng.choice([0, 1, 1, 2, 2, 3, 4])
        return [self.stmt(depth, ctx, in_sub, in_par) for _ in range(n)]

    def stmt(self, depth, ctx, in_sub, in_par):
        """ctx: 'top' | 'seq' | 'par' (grammar contexts); wild: also nestings only the builder accepts."""
        rng = self.rng
        if depth <= 0 or rng.random() < 0.45:
            return self.gate()
        sub_ok = not (self.clean and (in_sub or in_par))
        if self.wild:
            kinds = ["seq", "par", "loop"] + (["sub"] if sub_ok else [])
        elif ctx == "top":
            kinds = ["seq", "par", "loop", "sub", "sub"]
        elif ctx == "seq":
            kinds = ["par", "loop"] + (["sub"] if sub_ok else [])
        else:
            kinds = ["seq"]
        k = rng.choice(kinds)
        if k == "seq":
            return {"seq": self.stmts(depth - 1, "seq", in_sub, in_par)}
        if k == "par":
            return {"par": self.stmts(depth - 1, "par", in_sub, True)}
        if k == "loop":
            lits = [0, 1, 2, 3, 5, 100] + ([] if self.clean else [-1])
            return {"loop": self.count(lits, pred=lambda v: v >= 0), "body": self.stmts(depth - 1, "seq", in_sub, in_par)}
        lits = [1, 1, 2, 10, 100] + ([] if self.clean else [0, -1])
        c = None if rng.random() < 0.4 else self.count(lits, pred=lambda v: v >= 1)
        return {"sub": c, "body": self.stmts(depth - 1, "seq", True, in_par)}


def gen_name(rng, pool, taken, p_anon, p_clash):
    if rng.random() < p_anon:
        return None
    if taken and rng.random() < p_clash:
        return rng.choice(sorted(taken))
    for _ in range(20):
        nm = rng.choice(pool)
        if nm not in taken:
            return nm
    return None


def gen_prog(rng, wild=False, typed=False):
    g = Gen(rng, wild, typed)
    nlets = rng.choice([0, 1, 1, 2, 2, 3, 4])
    taken = set()
    lets = []
    p_clash = 0.25 if rng.random() < 0.08 else 0.0
    for _ in range(nlets):
        nm = gen_name(rng, LET_POOL, taken, 0.45, p_clash)
        if nm is not None:
            taken.add(nm)
        r = rng.random()
        if r < 0.7:
            v = rng.choice([0, 1, 1, 2, 2, 3, 4, 7, -1])
        elif r < 0.85:
            v = float(rng.choice(["1.0", "2.0", "3.0", "0.0"]))
        else:
            v = float(rng.choice(FLOATS))
        lets.append({"name": nm, "value": jnum(v)})
        g.lets.append(v)
    if wild:
        nregs = rng.choice([0, 1, 1, 2, 2, 3])
    else:
        nregs = rng.choice([0, 1, 1, 1, 1, 1, 1, 1])
    regs = []
    for _ in range(nregs):
        nm = gen_name(rng, REG_POOL, taken, 0.45, p_clash)
        if nm is not None:
            taken.add(nm)
        lits = [2, 3, 4, 4, 4] if g.clean else [1, 2, 2, 3, 4, 4, 4, 0, -1]
        size = g.count(lits, pref=0.3, pred=lambda v: v >= 1)
        regs.append({"name": nm, "size": size})
        sv = int(size["i"]) if "i" in size else g.lets[size["ref"]]
        g.sizes.append(int(sv) if isinstance(sv, (int, float)) and sv == int(sv) and sv > 0 else None)
    body = g.stmts(rng.choice([1, 2, 3, 4]), "top", top=True)
    r = rng.random()
    if r < 0.15:
        body = [{"g": "prepare_all", "args": []}] + body + [{"g": "measure_all", "args": []}]
    elif r < 0.30:
        # a leading block / loop that (maybe) begins with prepare_all
        inner = [{"g": "prepare_all", "args": []}] if rng.random() < 0.7 else []
        inner += g.stmts(1, "seq")
        k = rng.choice(["seq", "par", "loop", "loop0", "emptyseq"])
        if k == "seq":
            first = {"seq": inner}
        elif k == "par":
            first = {"par": [s for s in inner if "g" in s or "seq" in s]}
        elif k == "loop":
            first = {"loop": {"i": "2"}, "body": inner}
        elif k == "loop0":
            first = {"loop": {"i": "0"}, "body": inner}
        else:
            first = {"seq": []}
        body = [first] + body
    return {"lets": lets, "regs": regs, "body": body}


# ------------------------------------------------------------------------------------------ Prog helpers (Python side)

def begins_prep_or_sub(body):
    """SPECIFICATION, on the program: the body begins with a prepare or a subcircuit."""
    if not body:
        return False
    s = body[0]
    if "g" in s:
        return s["g"] == "prepare_all"
    if "sub" in s:
        return True
    if "seq" in s:
        return begins_prep_or_sub(s["seq"])
    if "par" in s:
        return begins_prep_or_sub(s["par"])
    return begins_prep_or_sub(s["body"])


def wrap_prog(p):
    q = copy.deepcopy(p)
    q["body"] = [{"g": "prepare_all", "args": []}] + q["body"] + [{"g": "measure_all", "args": []}]
    return q


def legal_py(p):
    """Nesting the grammar accepts (for the generator's own bookkeeping; compared with the real parser and the model)."""
    def st(s, ctx):
        if "g" in s:
            return True
        if "seq" in s:
            return ctx != "seq" and all(st(x, "seq") for x in s["seq"])
        if "par" in s:
            return ctx != "par" and all(st(x, "par") for x in s["par"])
        return ctx != "par" and all(st(x, "seq") for x in s["body"])
    return all(st(s, "top") for s in p["body"]) and all(not ("i" in r["size"] and int(r["size"]["i"]) <= 0) for r in p["regs"])


def real_names(E, p):
    """The names the REAL Namer gives (same call sequence as circuit_from_stack)."""
    qs = E["qs"]
    ln_user = [l["name"] for l in p["lets"]]
    rn_user = [r["name"] for r in p["regs"]]
    namer = qs.Namer(let_names=ln_user, register_names=rn_user)
    ln = []
    for nm in ln_user:
        c = qs.QConstant(0, name=nm)
        ln.append(namer.name_let(c))
    rn = []
    for nm in rn_user:
        r = qs.QRegister(1, name=nm)
        rn.append(namer.name_register(r))
    return ln, rn


def fmt_num(v):
    """generate_jaqal_value-style text of a number."""
    if isinstance(v, float):
        t = repr(v)
        if "e" in t:
            m, e = t.split("e")
            if "." not in m:
                m += ".0"
            t = m + "e" + e
        return t
    return str(v)


def render_py(p, ln, rn):
    def count(c):
        return c["i"] if "i" in c else ln[c["ref"]]

    def arg(a):
        if "ref" in a:
            return ln[a["ref"]]
        if "r" in a:
            return rn[a["r"]]
        if "q" in a:
            return f"{rn[a['q']]}[{count(a['idx'])}]"
        return fmt_num(pynum(a))

    def stmt(s):
        if "g" in s:
            return " ".join([s["g"]] + [arg(a) for a in s["args"]])
        if "seq" in s:
            return "{ " + " ; ".join(stmt(x) for x in s["seq"]) + " }"
        if "par" in s:
            return "< " + " | ".join(stmt(x) for x in s["par"]) + " >"
        inner = "{ " + " ; ".join(stmt(x) for x in s["body"]) + " }"
        if "loop" in s:
            return f"loop {count(s['loop'])} {inner}"
        if s["sub"] is None:
            return f"subcircuit {inner}"
        return f"subcircuit {count(s['sub'])} {inner}"

    lines = [f"let {n} {fmt_num(pynum(l['value']))}" for n, l in zip(ln, p["lets"])]
    lines += [f"register {n}[{count(r['size'])}]" for n, r in zip(rn, p["regs"])]
    lines += [stmt(s) for s in p["body"]]
    return "\n".join(lines) + "\n"


# ------------------------------------------------------------------------------------------ the real front ends

def exc_class(E, e):
    if isinstance(e, E["JaqalError"]):
        return "JaqalError"
    return type(e).__name__


def run_q(E, p, gates, absent_as_none=False):
    """Returns (sexpr handed to build | None, circuit | None, error class | None, exact class name)."""
    qs = E["qs"]
    captured = []
    orig = qs.build

    def spy(sexpr, **kw):
        captured.append(copy.deepcopy(sexpr))
        return orig(sexpr, **kw)

    def body(Q, stmts, lets, regs):
        def cnt(c):
            return int(c["i"]) if "i" in c else lets[c["ref"]]

        def arg(a):
            if "ref" in a:
                return lets[a["ref"]]
            if "r" in a:
                return regs[a["r"]]
            if "q" in a:
                return regs[a["q"]][cnt(a["idx"])]
            return pynum(a)

        for s in stmts:
            if "g" in s:
                getattr(Q, s["g"])(*[arg(a) for a in s["args"]])
            elif "seq" in s:
                with Q.sequential():
                    body(Q, s["seq"], lets, regs)
            elif "par" in s:
                with Q.parallel():
                    body(Q, s["par"], lets, regs)
            elif "loop" in s:
                with Q.loop(cnt(s["loop"])):
                    body(Q, s["body"], lets, regs)
            elif s["sub"] is None and absent_as_none:
                with Q.subcircuit(None):
                    body(Q, s["body"], lets, regs)
            elif s["sub"] is None:
                with Q.subcircuit():
                    body(Q, s["body"], lets, regs)
            else:
                with Q.subcircuit(cnt(s["sub"])):
                    body(Q, s["body"], lets, regs)

    def func(Q):
        lets = [Q.let(pynum(l["value"]), l["name"]) for l in p["lets"]]
        regs = []
        for r in p["regs"]:
            sz = r["size"]
            regs.append(Q.register(int(sz["i"]) if "i" in sz else lets[sz["ref"]], r["name"]))
        body(Q, p["body"], lets, regs)

    qs.build = spy
    try:
        circ = E["circuit"](inject_pulses=gates)(func)()
        return captured[0], circ, None, None
    except Exception as e:  # noqa: BLE001 - every class is data here
        return (captured[0] if captured else None), None, exc_class(E, e), type(e).__name__
    finally:
        qs.build = orig


def run_oo(E, p, gates, ln, rn):
    CB, SBB = E["CircuitBuilder"], E["SequentialBlockBuilder"]

    def cnt(c):
        return int(c["i"]) if "i" in c else ln[c["ref"]]

    def arg(a):
        if "ref" in a:
            return ln[a["ref"]]
        if "r" in a:
            return rn[a["r"]]
        if "q" in a:
            return ("array_item", rn[a["q"]], cnt(a["idx"]))
        return pynum(a)

    def emit(b, stmts):
        for s in stmts:
            if "g" in s:
                b.gate(s["g"], *[arg(a) for a in s["args"]])
            elif "seq" in s:
                emit(b.block(), s["seq"])
            elif "par" in s:
                emit(b.block(parallel=True), s["par"])
            elif "loop" in s:
                inner = SBB()
                emit(inner, s["body"])
                b.loop(cnt(s["loop"]), inner, unevaluated=True)
            elif s["sub"] is None:
                emit(b.subcircuit(), s["body"])
            else:
                emit(b.subcircuit(cnt(s["sub"])), s["body"])

    try:
        cb = CB(native_gates=gates)
        for n, l in zip(ln, p["lets"]):
            cb.let(n, pynum(l["value"]), unevaluated=True)
        for n, r in zip(rn, p["regs"]):
            cb.register(n, cnt(r["size"]), unevaluated=True)
        emit(cb, p["body"])
        sx = copy.deepcopy(cb.expression)
    except Exception as e:  # noqa: BLE001
        return None, None, exc_class(E, e), type(e).__name__
    try:
        return sx, cb.build(), None, None
    except Exception as e:  # noqa: BLE001
        return sx, None, exc_class(E, e), type(e).__name__


def run_text(E, text, gates):
    try:
        sx = E["parse_to_sexpression"](text)
    except Exception as e:  # noqa: BLE001
        return None, None, exc_class(E, e), type(e).__name__
    try:
        return sx, E["parse_jaqal_string"](text, inject_pulses=gates, autoload_pulses=False), None, None
    except Exception as e:  # noqa: BLE001
        return sx, None, exc_class(E, e), type(e).__name__


def circuits_equal(E, a, b):
    """Real `==` in both argument orders, `!=` too, and the by-value dumps."""
    dump = E["dump"]
    problems = []
    if not (a == b):
        problems.append("a == b is False")
    if not (b == a):
        problems.append("b == a is False")
    if a != b:
        problems.append("a != b is True")
    try:
        da, db = dump.circuit(a), dump.circuit(b)
        if da != db:
            problems.append("dump.circuit differs")
    except dump.Undumpable as e:
        problems.append(f"undumpable: {e}")
    return problems


# ------------------------------------------------------------------------------------------ Lean model

def call_driver(driver, reqs):
    if not reqs:
        return []
    data = "".join(json.dumps(r) + "\n" for r in reqs)
    out = subprocess.run([driver], input=data, capture_output=True, text=True, check=True).stdout
    lines = [json.loads(l) for l in out.splitlines() if l.strip()]
    assert len(lines) == len(reqs), (len(lines), len(reqs))
    res = []
    for l in lines:
        if "out" not in l:
            raise RuntimeError(f"driver error: {l}")
        res.append(l["out"])
    return res


def norm_sx_json(x):
    """JSON of an S-expression with integers as decimal strings (the driver's output convention)."""
    if isinstance(x, list):
        return [norm_sx_json(y) for y in x]
    if isinstance(x, dict):
        if "i" in x:
            return {"i": str(x["i"])}
        n, m, e = x["f"]
        return {"f": [bool(n), str(m), str(e)]}
    return x


def impl_sx(E, sx, err):
    if sx is not None:
        return {"ok": norm_sx_json(E["dump"].sexpr(sx))}
    return {"err": err}


def model_out(o):
    if "ok" in o and not isinstance(o["ok"], str):
        return {"ok": norm_sx_json(o["ok"])}
    return o


# ------------------------------------------------------------------------------------------ one case

def eval_case(E, case):
    """Everything the real code says about one case (no model involved)."""
    p = case["prog"]
    gates = E["GATES"] if case["gates"] == "typed" else None
    ln, rn = real_names(E, p)
    text = render_py(p, ln, rn)
    begins = begins_prep_or_sub(p["body"])
    text_expected = text if begins else render_py(wrap_prog(p), ln, rn)
    q = run_q(E, p, gates)
    oo = run_oo(E, p, gates, ln, rn)
    oo_w = oo if begins else run_oo(E, wrap_prog(p), gates, ln, rn)
    tx = run_text(E, text, gates)
    tx_w = tx if begins else run_text(E, text_expected, gates)
    return dict(p=p, ln=ln, rn=rn, text=text, text_expected=text_expected, begins=begins, q=q, oo=oo, oo_w=oo_w, tx=tx, tx_w=tx_w)


def header_names(sx):
    lets = [e[1] for e in sx[1:] if isinstance(e, (list, tuple)) and e and e[0] == "let"]
    regs = [e[1] for e in sx[1:] if isinstance(e, (list, tuple)) and e and e[0] == "register"]
    return lets, regs


def body_len(sx):
    return len([e for e in sx[1:] if not (isinstance(e, (list, tuple)) and e and e[0] in ("let", "register"))])


def nonintegral_let_size(p):
    """Some register's size is a let whose value is not integral (`register q[n]` with `let n 0.5`): Q-syntax
    refuses it in validate_int, text and CircuitBuilder in Register.__init__ (repaired 2026-09-23; before, they accepted)."""
    for r in p["regs"]:
        if "ref" in r["size"]:
            v = pynum(p["lets"][r["size"]["ref"]]["value"])
            if v != int(v):
                return True
    return False


def oracles_for(E, case, ev):
    """Returns {oracle: None (not applicable) | "" (ok) | detail}."""
    p = ev["p"]
    q_sx, q_c, q_err, q_cls = ev["q"]
    common = legal_py(p) and len(p["regs"]) <= 1
    res = _oracles_for(E, case, ev, p, q_sx, q_c, q_err, q_cls, common)
    # Q.subcircuit(None) == Q.subcircuit()  (QBlock.build repaired 2026-09-23)
    if '"sub": null' in json.dumps(p["body"]):
        gates = E["GATES"] if case["gates"] == "typed" else None
        n_sx, n_c, n_err, n_cls = run_q(E, p, gates, absent_as_none=True)
        if n_sx != q_sx or n_err != q_err:
            res["subcircuit_none"] = f"Q.subcircuit(None): {n_cls or 'ok'} {n_sx!r} vs Q.subcircuit(): {q_cls or 'ok'} {q_sx!r}"
        elif n_c is not None and q_c is not None:
            res["subcircuit_none"] = "; ".join(circuits_equal(E, n_c, q_c))
        else:
            res["subcircuit_none"] = ""
    else:
        res["subcircuit_none"] = None
    return res


def _oracles_for(E, case, ev, p, q_sx, q_c, q_err, q_cls, common):
    res = {}
    # ---- three_equal
    if common:
        (o_sx, o_c, o_err, o_cls), (t_sx, t_c, t_err, t_cls) = ev["oo_w"], ev["tx_w"]
        errs = [q_err, o_err, t_err]
        if any(e is not None and e != "JaqalError" for e in errs):
            res["three_equal"] = f"non-Jaqal exception: Q={q_cls} OO={o_cls} text={t_cls}"
        elif any(errs) and not all(errs):
            res["three_equal"] = f"accept/reject differs: Q={q_cls} OO={o_cls} text={t_cls}"
        elif all(errs):
            res["three_equal"] = ""
        else:
            pr = []
            for (na, a), (nb, b) in ((("Q", q_c), ("OO", o_c)), (("Q", q_c), ("text", t_c)), (("OO", o_c), ("text", t_c))):
                pr += [f"{na} vs {nb}: {x}" for x in circuits_equal(E, a, b)]
            res["three_equal"] = "; ".join(pr)
    else:
        res["three_equal"] = None
    # ---- wrap_iff / fresh_names (need the S-expression Q-syntax produced)
    if q_sx is not None:
        wrapped = body_len(q_sx) == len(p["body"]) + 2
        unwrapped = body_len(q_sx) == len(p["body"])
        ok = (wrapped and not ev["begins"] and q_sx[-1] == ["gate", "measure_all"]) or (unwrapped and ev["begins"])
        res["wrap_iff"] = "" if ok else f"begins_prep_or_sub={ev['begins']} but body has {body_len(q_sx)} statements for {len(p['body'])}"
        lets, regs = header_names(q_sx)
        user = [l["name"] for l in p["lets"] if l["name"] is not None] + [r["name"] for r in p["regs"] if r["name"] is not None]
        gen = [n for n, l in zip(lets, p["lets"]) if l["name"] is None] + [n for n, r in zip(regs, p["regs"]) if r["name"] is None]
        bad = []
        if len(set(gen)) != len(gen):
            bad.append(f"generated names repeat: {gen}")
        if set(gen) & set(user):
            bad.append(f"generated names {sorted(set(gen) & set(user))} are user names")
        if [n for n, l in zip(lets, p["lets"]) if l["name"] is not None] != [l["name"] for l in p["lets"] if l["name"] is not None]:
            bad.append("user let names changed")
        res["fresh_names"] = "; ".join(bad)
    else:
        res["wrap_iff"] = None
        res["fresh_names"] = None
    # ---- q_eq_oo: all programs
    o_sx, o_c, o_err, o_cls = ev["oo_w"]
    if any(e is not None and e != "JaqalError" for e in (q_err, o_err)):
        res["q_eq_oo"] = f"non-Jaqal exception: Q={q_cls} OO={o_cls}"
    elif (q_err is None) != (o_err is None):
        res["q_eq_oo"] = f"accept/reject differs: Q={q_cls} OO={o_cls}"
    elif q_err is None:
        res["q_eq_oo"] = "; ".join(circuits_equal(E, q_c, o_c))
    else:
        res["q_eq_oo"] = ""
    # ---- count_variants: the text S-expression with "" / None / 1 as the absent count
    t_sx = ev["tx"][0]
    if t_sx is not None and '"subcircuit_block", ""' in json.dumps(E["dump"].sexpr(t_sx)):
        gates = E["GATES"] if case["gates"] == "typed" else None

        def subst(x, v):
            if isinstance(x, (list, tuple)):
                y = [subst(e, v) for e in x]
                if y and y[0] == "subcircuit_block" and len(y) > 1 and y[1] == "":
                    y[1] = v
                return y if isinstance(x, list) else tuple(y)
            return x

        outs = []
        for v in ("", None, 1):
            try:
                outs.append(E["build"](subst(t_sx, v), inject_pulses=gates))
            except Exception as e:  # noqa: BLE001
                outs.append(exc_class(E, e))
        if any(isinstance(o, str) for o in outs):
            res["count_variants"] = "" if outs[0] == outs[1] == outs[2] else f"outcomes {[o if isinstance(o, str) else 'ok' for o in outs]}"
        else:
            res["count_variants"] = "; ".join(circuits_equal(E, outs[0], outs[1]) + circuits_equal(E, outs[0], outs[2]))
    else:
        res["count_variants"] = None
    return res


def corr_requests(case):
    p = {"prog": case["prog"]}
    return [dict(op="lower_q", **p), dict(op="lower_oo", **p), dict(op="parse_sx", **p), dict(op="render", **p), dict(op="fe_info", **p)]


def corr_for(E, case, ev, outs):
    """Returns {op: (model, impl)} for the comparisons that apply."""
    m_q, m_oo, m_ps, m_r, m_info = outs
    p = ev["p"]
    res = {}
    q_sx, _, q_err, _ = ev["q"]
    res["lower_q"] = (model_out(m_q), impl_sx(E, q_sx, q_err))
    o_sx, _, o_err, _ = ev["oo"]
    res["lower_oo"] = (model_out(m_oo), impl_sx(E, o_sx, o_err))
    res["render"] = (m_r, {"ok": ev["text"]})
    t_sx, _, t_err, t_cls = ev["tx"]
    parsed = t_sx is not None
    res["legal"] = (m_info["legal"], parsed if (parsed or t_cls == "JaqalParseError") else f"exception {t_cls}")
    if parsed:
        res["parse_sx"] = (model_out(m_ps), impl_sx(E, t_sx, None))
    if q_sx is not None:
        res["wraps"] = (m_info["wraps"], body_len(q_sx) == len(p["body"]) + 2)
    return res


def namer_cases(rng, n):
    pool = ["__c0", "__c1", "__c2", "__c3", "__r0", "__r1", "__r2", "__c10", "__c01", "a", "b", "__c", "__r", "_c0"]
    cases = []
    for _ in range(n):
        def lst():
            return [None if rng.random() < 0.5 else rng.choice(pool) for _ in range(rng.choice([0, 1, 2, 3, 5, 8, 13]))]
        cases.append({"lets": lst(), "registers": lst()})
    return cases


def namer_impl(E, c):
    qs = E["qs"]
    namer = qs.Namer(let_names=c["lets"], register_names=c["registers"])
    ln = [namer.name_let(qs.QConstant(0, name=nm)) for nm in c["lets"]]
    rn = [namer.name_register(qs.QRegister(1, name=nm)) for nm in c["registers"]]
    return {"ok": {"lets": ln, "registers": rn}}


def namer_fresh_detail(c, out):
    ln, rn = out["ok"]["lets"], out["ok"]["registers"]
    user = [x for x in c["lets"] + c["registers"] if x is not None]
    gen = [n for n, u in zip(ln, c["lets"]) if u is None] + [n for n, u in zip(rn, c["registers"]) if u is None]
    bad = []
    if len(set(gen)) != len(gen):
        bad.append(f"generated names repeat: {gen}")
    if set(gen) & set(user):
        bad.append(f"generated names {sorted(set(gen) & set(user))} are user names")
    return "; ".join(bad)


# ------------------------------------------------------------------------------------------ protocol

def features(case, ev):
    p = case["prog"]
    f = [f"gates={case['gates']}", f"lets={len(p['lets'])}", f"regs={len(p['regs'])}", f"top_stmts={min(len(p['body']), 6)}"]
    f.append("begins_prep_or_sub" if ev["begins"] else "wrapped")
    f.append("legal" if legal_py(p) else "ungrammatical")
    f.append("Q:" + (ev["q"][3] or "ok"))
    f.append("OO:" + (ev["oo_w"][3] or "ok"))
    f.append("text:" + (ev["tx_w"][3] or "ok"))
    if nonintegral_let_size(p):
        f.append("nonintegral_let_size")
    if any(l["name"] is None for l in p["lets"]):
        f.append("anon_let")
    if any(r["name"] is None for r in p["regs"]):
        f.append("anon_reg")
    user = {l["name"] for l in p["lets"]} | {r["name"] for r in p["regs"]}
    if any(n and (n.startswith("__c") or n.startswith("__r")) for n in user):
        f.append("user_name_like_generated")
    s = json.dumps(p["body"])
    for k in ("seq", "par", "loop", "sub"):
        if f'"{k}"' in s:
            f.append("has_" + k)
    if '"sub": null' in s:
        f.append("sub_no_count")
    return f


def fixed_cases():
    """Handwritten cases run every time: the examples of tests/qsyntax/test_qsyntax.py in scope, the corner cases
    of the wrap, names like the generated ones in the other namespace, the known size divergence."""
    i = lambda n: {"i": str(n)}
    g = lambda name, *a: {"g": name, "args": list(a)}
    P = lambda lets=(), regs=(), body=(): {"prog": {"lets": [{"name": n, "value": v} for n, v in lets],
                                                    "regs": [{"name": n, "size": s} for n, s in regs],
                                                    "body": list(body)}, "gates": "anon"}
    return [
        P(),
        P(lets=[(None, i(5)), ("mylet", i(10))]),
        P(lets=[("__c0", i(0)), (None, i(1))]),
        P(regs=[(None, i(2))]),
        P(lets=[("n", i(2))], regs=[("r", {"ref": 0})]),
        P(body=[g("Foo", i(1), jnum(3.14))]),
        P(lets=[("c", i(1))], regs=[("r", i(2))], body=[g("Foo", {"q": 0, "idx": i(0)}, {"q": 0, "idx": {"ref": 0}})]),
        P(body=[{"seq": [g("Foo", i(1), i(2), i(3))]}]),
        P(body=[{"par": [g("Foo", i(1), i(2), i(3)), g("Bar", i(1), i(2), i(3))]}]),
        P(body=[{"sub": i(100), "body": [g("Foo", i(1)), g("Bar", i(1))]}]),
        P(body=[{"sub": None, "body": [g("Foo", i(1)), g("Bar", i(1))]}]),
        P(lets=[("n", i(150))], body=[{"loop": {"ref": 0}, "body": [g("Foo", i(1))]}]),
        # the repaired Namer: user names of the OTHER kind
        P(lets=[(None, i(1))], regs=[("__c0", i(2))]),
        P(lets=[("__r0", i(1)), ("__r1", i(1)), (None, i(3))], regs=[(None, i(2))]),
        P(lets=[("__c1", i(1)), (None, i(1)), (None, i(2)), ("__c0", i(4))], regs=[("__c2", i(2))]),
        # name clash between a let and the register: all reject
        P(lets=[("a", i(1))], regs=[("a", i(2))]),
        P(lets=[("__r0", i(1))], regs=[("__r0", i(2))]),
        # corners of the wrap
        P(body=[{"loop": i(2), "body": [g("prepare_all"), g("X"), g("measure_all")]}]),
        P(body=[{"loop": i(0), "body": [g("prepare_all"), g("measure_all")]}, g("X")]),
        P(body=[{"par": [g("prepare_all"), g("X")]}]),
        P(body=[{"seq": []}, g("prepare_all"), g("X"), g("measure_all")]),
        P(body=[{"seq": [{"par": [{"seq": [{"sub": None, "body": []}]}]}]}]),
        P(body=[g("X"), {"sub": None, "body": [g("prepare_all"), g("measure_all")]}]),
        P(body=[g("measure_all")]),
        # non-integral let as register size: all three reject (was a divergence before the repair of Register.__init__)
        P(lets=[("n", jnum(0.5))], regs=[("q", {"ref": 0})]),
        P(lets=[(None, jnum(2.5))], regs=[(None, {"ref": 0})], body=[g("prepare_all"), g("measure_all")]),
        # integral float / negative let as size: accepted alike
        P(lets=[("n", jnum(2.0))], regs=[("q", {"ref": 0})], body=[g("X", {"q": 0, "idx": {"ref": 0}})]),
        P(lets=[("n", i(-3))], regs=[("q", {"ref": 0})]),
    ]


def gen_cases(seed, n):
    rng = random.Random(seed)
    cases = fixed_cases()
    for i in range(n):
        r = rng.random()
        if r < 0.62:
            cases.append({"prog": gen_prog(rng), "gates": "anon"})
        elif r < 0.82:
            cases.append({"prog": gen_prog(rng, typed=True), "gates": "typed"})
        else:
            cases.append({"prog": gen_prog(rng, wild=True), "gates": "anon"})
    return cases, rng


def run(seed: int, n: int, driver: str = DEFAULT_DRIVER, thorough: bool = False) -> dict:
    E = _imports()
    if thorough:
        n = n * 5
    cases, rng = gen_cases(seed, n)
    corr = {k: {"cases": 0, "disagreements": []} for k in ("lower_q", "lower_oo", "parse_sx", "render", "legal", "wraps", "namer")}
    oracle = {k: {"cases": 0, "failures": []} for k in ("three_equal", "wrap_iff", "fresh_names", "q_eq_oo", "count_variants", "namer_fresh",
                                                        "subcircuit_none")}
    dist = Counter()
    evs = [eval_case(E, c) for c in cases]
    reqs = []
    for c in cases:
        reqs += corr_requests(c)
    outs = call_driver(driver, reqs)
    for i, (c, ev) in enumerate(zip(cases, evs)):
        for ftr in features(c, ev):
            dist[ftr] += 1
        for name, detail in oracles_for(E, c, ev).items():
            if detail is None:
                continue
            oracle[name]["cases"] += 1
            if detail:
                dist["FAIL:" + name] += 1
                if len(oracle[name]["failures"]) < 20:
                    oracle[name]["failures"].append({"case": c, "detail": detail + " | text: " + ev["text_expected"]})
        for op, (m, im) in corr_for(E, c, ev, outs[5 * i:5 * i + 5]).items():
            corr[op]["cases"] += 1
            if m != im:
                if len(corr[op]["disagreements"]) < 20:
                    corr[op]["disagreements"].append({"case": c, "model": m, "impl": im})
    ncs = namer_cases(rng, max(50, n // 2))
    nouts = call_driver(driver, [dict(op="namer", **c) for c in ncs])
    for c, m in zip(ncs, nouts):
        im = namer_impl(E, c)
        corr["namer"]["cases"] += 1
        if m != im and len(corr["namer"]["disagreements"]) < 20:
            corr["namer"]["disagreements"].append({"case": {"namer": c}, "model": m, "impl": im})
        oracle["namer_fresh"]["cases"] += 1
        d = namer_fresh_detail(c, im)
        if d and len(oracle["namer_fresh"]["failures"]) < 20:
            oracle["namer_fresh"]["failures"].append({"case": {"namer": c}, "detail": d})
    distinct = {json.dumps(c, sort_keys=True) for c in cases if len(c["prog"]["body"]) > 0}
    return {"corr": corr, "oracle": oracle, "distribution": dict(sorted(dist.items())), "samples": cases[:5],
            "nontrivial": len(distinct)}


def replay(case: dict, driver: str = DEFAULT_DRIVER) -> dict:
    E = _imports()
    if "namer" in case:
        c = case["namer"]
        m = call_driver(driver, [dict(op="namer", **c)])[0]
        im = namer_impl(E, c)
        d = namer_fresh_detail(c, im)
        return {"model": m, "impl": im, "oracle_ok": not d, "detail": d}
    ev = eval_case(E, case)
    outs = call_driver(driver, corr_requests(case))
    cr = corr_for(E, case, ev, outs)
    orc = oracles_for(E, case, ev)
    bad = {k: v for k, v in orc.items() if v}
    return {"model": {k: v[0] for k, v in cr.items()}, "impl": {k: v[1] for k, v in cr.items()},
            "oracle_ok": (not bad) if any(v is not None for v in orc.values()) else None,
            "detail": json.dumps({"oracles": orc, "corr_mismatch": [k for k, v in cr.items() if v[0] != v[1]],
                                  "text": ev["text"], "text_expected": ev["text_expected"]})}


def main():
    ap = argparse.ArgumentParser()
    ap.add_argument("--driver", default=DEFAULT_DRIVER)
    ap.add_argument("--n", type=int, default=2000)
    ap.add_argument("--seed", type=int, default=0)
    ap.add_argument("--thorough", action="store_true")
    ap.add_argument("--json", action="store_true", help="print the whole result dict")
    a = ap.parse_args()
    r = run(a.seed, a.n, a.driver, a.thorough)
    if a.json:
        print(json.dumps(r, indent=1))
    bad = 0
    for op, v in r["corr"].items():
        print(f"corr   {op:15s} cases={v['cases']:6d} disagreements={len(v['disagreements'])}")
        bad += len(v["disagreements"])
        for d in v["disagreements"][:3]:
            print("   ", json.dumps(d)[:1500])
    for op, v in r["oracle"].items():
        print(f"oracle {op:15s} cases={v['cases']:6d} failures={len(v['failures'])}")
        bad += len(v["failures"])
        for d in v["failures"][:3]:
            print("   ", json.dumps(d)[:1500])
    print("distribution:", json.dumps(r["distribution"]))
    print("nontrivial distinct cases:", r["nontrivial"])
    sys.exit(1 if bad else 0)


if __name__ == "__main__":
    main()
