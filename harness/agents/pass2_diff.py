#!/venv/bin/python
"""Differential test of the Lean models of `fill_in_let` / `fill_in_map` (JaqalModel/Model/FillIn.lean, ops in FillInOps.lean)
and of qubit resolution (`Resolve.resolveQubit`, op `resolve`; the specification `Sem.evalQubit`, op `eval_qubit`) against
the real passes of jaqalpaq, plus direct oracles for C05 / C06 on the real code alone.

    PYTHONPATH=/verif /venv/bin/python /verif/harness/agents/pass2_diff.py [--driver PATH] [--seed 0] [--n 1500] [--thorough]

corr   (model vs implementation)
  fill_in_let   dump.circuit(c), overrides -> model == dump.circuit(fill_in_let(c, overrides)) (whole dump) / error class
  fill_in_map   same for fill_in_map(c)
  resolve       every NamedQubit of the circuit (registers, body, macro bodies under a generated context):
                model `resolve` == [reg.name, idx] of the real `q.resolve_qubit(ctx)` / error class
  fill_in_let_twice(model)  the model applied to its own result (with / without the overrides) returns it unchanged
  eval_qubit    SPEC validation: `Sem.evalQubit` == the real resolve_qubit whenever the library resolves (a chain that
                leaves its source is rejected by the specification only: counted, see distribution)
oracle (properties on the real code alone)
  qubit_names, no_constant_left, meaning_under_overrides (vs the program text with the values written into its let lines),
  meaning_vs_reference (vs pass1_diff's reference interpreter on the original objects), frame_preserved, revalidated,
  idempotent  (C05)
  fill_in_map_same_meaning_and_fundamental, fill_in_map_no_name_capture, consumers_agree, alias_same_as_direct, slice_equation  (C06)
  only_jaqal_errors (any other exception class escaping fill_in_let / fill_in_map / resolve_qubit on a front-end built circuit)

Exit status 0 iff no disagreement and no oracle failure.
"""
import argparse
import json
import os
import random
import subprocess
import sys
import warnings
from collections import Counter

DEFAULT_DRIVER = "/verif/lean/.lake/build/bin/jaqal-model"


def _imports():
    global dump, GATES, GATES_IDLE, SIG, parse_jaqal_string, expand_macros, fill_in_let, fill_in_map
    global GateStatement, BlockStatement, LoopStatement, Parameter, Constant, NamedQubit, Register, JaqalError, Macro
    global get_used_qubit_indices, np
    os.environ["JAQALPAQ_RUN_EMULATOR"] = "1"
    import numpy as np
    from harness import dump
    from harness.gates import GATES, GATES_IDLE, SIG
    from jaqalpaq.parser import parse_jaqal_string
    from jaqalpaq.core.algorithm import expand_macros, fill_in_let
    from jaqalpaq.core.algorithm.fill_in_map import fill_in_map
    from jaqalpaq.core.algorithm.used_qubit_visitor import get_used_qubit_indices
    from jaqalpaq.core.gate import GateStatement
    from jaqalpaq.core.block import BlockStatement, LoopStatement
    from jaqalpaq.core.parameter import Parameter
    from jaqalpaq.core.constant import Constant
    from jaqalpaq.core.register import NamedQubit, Register
    from jaqalpaq.core.macro import Macro
    from jaqalpaq.error import JaqalError
    global P1
    from harness.agents import pass1_diff as P1
    P1._imports()


# ------------------------------------------------------------------------------------------------
# program generator (text)

LETS = ["n", "k", "m", "t", "s"]
ALIASES = ["a", "b", "c", "d", "e"]
PARAM_POOL = ["x", "y", "i", "j", "n", "k", "r", "a", "b", "q0", "m"]  # n k m r a b q0 shadow lets / registers / aliases


def fmt_num(v):
    if isinstance(v, float):
        return repr(v)
    return str(v)


class Gen:
    """Generates a Jaqal text and tracks, under the DECLARED let values, the list of fundamental indices each register
    name denotes (None when the declaration is deliberately broken)."""

    def __init__(self, rng, mode, wild):
        self.rng = rng
        self.mode = mode
        self.wild = wild
        self.lets = {}
        self.regs = {}      # register / alias name -> list of fundamental indices
        self.qalias = {}    # single-qubit alias -> fundamental index
        self.macros = []
        self.anon = {}
        self.features = Counter()

    # --- header
    def int_lets(self, pred):
        return [l for l, v in self.lets.items() if isinstance(v, int) and pred(v)]

    def bound(self, v, optional=True):
        """write the integer v as a literal, a let of that value, or leave it out (caller decides if allowed)"""
        r = self.rng
        ls = self.int_lets(lambda x: x == v)
        if ls and r.random() < 0.45:
            self.features["let slice bound"] += 1
            return r.choice(ls)
        return str(v)

    def header(self):
        r = self.rng
        out = []
        for name in LETS[: r.randrange(0, 6)]:
            c = r.random()
            if c < 0.75:
                v = r.choice([0, 1, 1, 2, 2, 3, 3, 4, 5])
            elif c < 0.85:
                v = r.choice([-1, -2, 7, 12])
            else:
                v = r.choice([1.5, 2.0, 0.25, 3.0, -1.0, 4.0])
            self.lets[name] = v
            out.append(f"let {name} {fmt_num(v)}")
        size = r.randrange(2, 8)
        ls = self.int_lets(lambda x: x >= 2)
        if ls and r.random() < 0.45:
            l = r.choice(ls)
            size = self.lets[l]
            out.append(f"register r[{l}]")
            self.features["let register size"] += 1
        elif self.lets and r.random() < self.wild:
            l = r.choice(list(self.lets))
            out.append(f"register r[{l}]")
            v = self.lets[l]
            size = v if isinstance(v, int) and v >= 1 else 0
        else:
            out.append(f"register r[{size}]")
        self.regs["r"] = list(range(size))
        depth = r.choice([0, 1, 1, 2, 2, 3, 3, 4, 5])
        prev = "r"
        for name in ALIASES[:depth]:
            srcs = [s for s, l in self.regs.items() if l]
            if not srcs:
                break
            src = prev if (prev in srcs and r.random() < 0.7) else r.choice(srcs)
            sl = self.regs[src]
            kind = r.random()
            if kind < 0.15:
                out.append(f"map {name} {src}")
                self.regs[name] = list(sl)
                self.features["whole alias"] += 1
                prev = name
            elif kind < 0.32:
                i = r.randrange(len(sl)) if r.random() >= self.wild else r.choice([len(sl), len(sl) + 1, 9])
                ls = self.int_lets(lambda x: x == i)
                it = r.choice(ls) if ls and r.random() < 0.55 else str(i)
                if it in self.lets:
                    self.features["named single-qubit alias with a let index"] += 1
                out.append(f"map {name} {src}[{it}]")
                if i < len(sl):
                    self.qalias[name] = sl[i]
                self.features["single-qubit alias"] += 1
            else:
                n = len(sl)
                step = r.choice([1, 1, 1, 2, 2, 3, -1, -1, -2]) if r.random() >= self.wild else r.choice([0, 5, -7])
                if step > 0:
                    a = r.randrange(0, n)
                    e = r.randrange(a, n + 1)
                elif step < 0:
                    a = r.randrange(0, n)
                    e = r.randrange(-1, a + 1)
                    self.features["negative step"] += 1
                else:
                    a, e = 0, n
                if r.random() < self.wild:
                    e = r.choice([n + 1, n + 3, -2])
                idxs = list(range(a, e, step)) if step != 0 else []
                c = r.random()
                sa = self.bound(a)
                se = self.bound(e)
                ss = self.bound(step)
                if step > 0 and a == 0 and c < 0.3:
                    sa = ""
                    self.features["defaulted bound"] += 1
                if step > 0 and e == n and r.random() < 0.3:
                    se = ""
                    self.features["defaulted bound"] += 1
                if e < 0:
                    # a negative stop cannot be written as a literal bound that means "before 0"; keep the chain valid
                    e = 0
                    se = self.bound(0)
                    idxs = list(range(a, e, step)) if step != 0 else []
                if step == 1 and r.random() < 0.5:
                    txt = f"{sa}:{se}"
                    self.features["defaulted bound"] += 1
                else:
                    txt = f"{sa}:{se}:{ss}"
                out.append(f"map {name} {src}[{txt}]")
                ok = all(0 <= i < n for i in idxs)
                self.regs[name] = [sl[i] for i in idxs] if ok else []
                self.features["strided alias"] += 1
                prev = name
        self.features[f"chain depth {depth}"] += 1
        return out

    # --- arguments
    def index(self, params, size):
        r = self.rng
        ips = [p for p, role in params if role == "i"]
        c = r.random()
        if ips and c < 0.3:
            return r.choice(ips)
        ls = [l for l in self.int_lets(lambda v: 0 <= v < size) if l not in dict(params)]
        if ls and c < 0.55:
            self.features["let index"] += 1
            return r.choice(ls)
        if r.random() < self.wild:
            return str(r.choice([size, size + 2, 9]))
        return str(r.randrange(max(size, 1)))

    def qubit(self, params):
        r = self.rng
        shadow = dict(params)
        qps = [p for p, role in params if role == "q"]
        rps = [p for p, role in params if role == "reg"]
        c = r.random()
        if qps and c < 0.35:
            return r.choice(qps)
        if rps and c < 0.55:
            return f"{r.choice(rps)}[{self.index(params, 2)}]"
        cands = [(n, len(l)) for n, l in self.regs.items() if n not in shadow and l]
        qa = [q for q in self.qalias if q not in shadow]
        if qa and r.random() < 0.3:
            self.features["single-qubit alias as a gate argument" + (" (in a macro)" if params else "")] += 1
            return r.choice(qa)
        if not cands:
            return r.choice(qps) if qps else "r[0]"
        name, size = r.choice(cands)
        return f"{name}[{self.index(params, size)}]"

    def number(self, params):
        r = self.rng
        ips = [p for p, role in params if role == "i"]
        c = r.random()
        if ips and c < 0.3:
            return r.choice(ips)
        ls = [l for l in self.lets if l not in dict(params)]
        if ls and c < 0.6:
            self.features["let gate argument"] += 1
            return r.choice(ls)
        if r.random() < 0.15:
            return r.choice(["1.5", "2.0", "0.25", "-3.0"])
        return str(r.choice([0, 1, 1, 2, 2, 3]))

    def count(self, params, what):
        r = self.rng
        ips = [p for p, role in params if role == "i"]
        if ips and r.random() < 0.3:
            return r.choice(ips)
        ls = [l for l in self.lets if l not in dict(params) and (isinstance(self.lets[l], int) or r.random() < self.wild)]
        if ls and r.random() < 0.5:
            self.features[f"let {what}"] += 1
            return r.choice(ls)
        return str(r.choice([0, 1, 2, 2, 3]))

    def whole_reg(self, params):
        r = self.rng
        rps = [p for p, role in params if role == "reg"]
        if rps and r.random() < 0.5:
            return r.choice(rps)
        names = [n for n in self.regs if n not in dict(params)]
        return r.choice(names) if names else "r"

    def arg_for(self, role, params):
        r = self.rng
        if r.random() < self.wild:
            role = r.choice(["q", "i", "reg"])
        if role == "q":
            return self.qubit(params)
        if role == "i":
            return self.number(params)
        return self.whole_reg(params)

    # --- statements
    def gate(self, params):
        r = self.rng
        if self.macros and r.random() < 0.35:
            name, mps = r.choice(self.macros)
            return name + "".join(" " + self.arg_for(role, params) for _, role in mps)
        if self.mode == "gates":
            name = r.choice(["X", "X", "Y", "Z", "P", "PF", "CX", "CZ", "SWAP", "CCX", "N"])
            sig = SIG[name]
        else:
            name = r.choice(["G0", "G1", "G2", "G3"])
            if name not in self.anon:
                self.anon[name] = "".join(r.choice("qqir") for _ in range(r.randrange(0, 4)))
            sig = self.anon[name]
        sig = sig.replace("r", "R")
        return name + "".join(" " + self.arg_for({"R": "reg"}.get(ch, ch), params) for ch in sig)

    def seq_items(self, params, depth, in_sub):
        r = self.rng
        items = []
        for _ in range(r.randrange(1, 4 if depth else 5)):
            c = r.random()
            if depth >= 3 or c < 0.5:
                items.append(self.gate(params))
            elif c < 0.67:
                items.append(f"loop {self.count(params, 'loop count')} " + self.block(params, depth + 1, in_sub))
            elif c < 0.8:
                items.append(self.par(params, depth + 1))
            elif not in_sub:
                cnt = (self.count(params, "subcircuit count") + " ") if r.random() < 0.7 else ""
                items.append(f"subcircuit {cnt}" + self.seq(params, depth + 1, True))
            else:
                items.append(self.gate(params))
        return items

    def seq(self, params, depth, in_sub):
        return "{ " + "; ".join(self.seq_items(params, depth, in_sub)) + " }"

    def par(self, params, depth):
        r = self.rng
        items = []
        for _ in range(r.randrange(1, 4)):
            if depth < 3 and r.random() < 0.3:
                items.append(self.seq(params, depth + 1, True))
            else:
                items.append(self.gate(params))
        return "< " + " | ".join(items) + " >"

    def block(self, params, depth, in_sub):
        return self.par(params, depth) if self.rng.random() < 0.25 else self.seq(params, depth, in_sub)

    def macro(self, idx):
        r = self.rng
        names = r.sample(PARAM_POOL, r.randrange(0, 4))
        if names and "r" not in names and r.random() < 0.25:
            names[0] = "r"                                  # a parameter named like the fundamental register
        params = [(p, r.choice(["q", "q", "i", "i", "reg"])) for p in names]
        if any(p in self.lets for p in names):
            self.features["parameter shadows a let"] += 1
        if any(p in self.regs or p in self.qalias for p in names):
            self.features["parameter shadows a register"] += 1
        body = self.block(params, 1, False)
        name = f"M{idx}"
        text = f"macro {name} " + " ".join(names) + (" " if names else "") + body
        self.macros.append((name, params))
        return text

    def program(self):
        r = self.rng
        lines = self.header()
        for i in range(r.choice([0, 0, 1, 1, 2, 3])):
            lines.append(self.macro(i))
        for it in self.seq_items([], 0, False):
            lines.append(it)
        return "\n".join(lines) + "\n"


OV_VALUES = [0, 1, 1, 2, 2, 3, 3, 4, 5, 6, 8, -1, -3, 2.0, 3.0, 1.0, 0.0, 5.0, -2.0, 1.5, 0.25, -0.5, 2.5]


def gen_case(rng, idx, thorough):
    mode = "gates" if rng.random() < 0.65 else "nogates"
    wild = rng.choice([0.0, 0.0, 0.0, 0.02, 0.06])
    g = Gen(rng, mode, wild)
    text = g.program()
    ov = []
    if g.lets and rng.random() < 0.75:
        for l in g.lets:
            if rng.random() < 0.5:
                v = g.lets[l]
                c = rng.random()
                if c < 0.25 and isinstance(v, int):
                    nv = v + rng.choice([1, 1, 2, -1])         # grow / shrink by a little
                elif c < 0.35:
                    nv = float(v) if isinstance(v, int) else v  # same value, other type
                else:
                    nv = rng.choice(OV_VALUES)
                ov.append([l, nv])
    if rng.random() < 0.03:
        ov.append(["zz_undeclared", 3])
    return {"id": idx, "text": text, "mode": mode, "overrides": ov, "ctxseed": rng.randrange(1 << 30),
            "features": dict(g.features)}


def gen_cases(seed, n, thorough):
    rng = random.Random(seed)
    return [gen_case(rng, i, thorough) for i in range(n)]


# ------------------------------------------------------------------------------------------------
# real side

def parse(text, mode, gates=None):
    kw = {"autoload_pulses": False}
    if mode == "gates":
        kw["inject_pulses"] = gates if gates is not None else GATES
    return parse_jaqal_string(text, **kw)


def outcome(f):
    try:
        return {"ok": f()}
    except RecursionError:
        return {"err": "RecursionError"}
    except Exception as e:  # noqa
        return {"err": type(e).__name__}


def strip(d):
    d = dict(d)
    keys = d.pop("keys", None)
    d["usepulses"] = [[m, n if isinstance(n, str) else "[…]"] for m, n in d["usepulses"]]
    return d, keys


def canon(j):
    if isinstance(j, dict):
        out = {k: canon(v) for k, v in j.items()}
        if "tag" in out and "params" in out and "unitary" not in out:
            out["unitary"] = False
        return out
    if isinstance(j, list):
        return [canon(x) for x in j]
    return j


def cmp_pass(model, impl_outcome):
    if "err" in impl_outcome:
        return model == impl_outcome, impl_outcome
    d, _ = strip(impl_outcome["ok"])
    ij = {"ok": canon(d)}
    mj = {"ok": canon(model["ok"])} if "ok" in model else model
    return mj == ij, ij


# --- implementation meaning read off a circuit without macro calls (every qubit through .resolve_qubit())

def _fq(reg, idx):
    return [reg.name, str(int(idx))]


def _unconst(v):
    while isinstance(v, Constant):
        v = v.value
    return v


def impl_arg(v):
    v = _unconst(v)
    if isinstance(v, (int, float)):
        return {"n": dump.num(v)}
    if isinstance(v, NamedQubit):
        reg, idx = v.resolve_qubit()
        return {"q": _fq(reg, idx)}
    if isinstance(v, Register):
        size = _unconst(v.size)
        return {"r": [_fq(*v.resolve_qubit(i)) for i in range(int(size))]}
    raise ValueError(f"unresolved argument {v!r}")


def _intval(v):
    v = _unconst(v)
    if isinstance(v, float):
        if v != int(v):
            raise ValueError("non-integral count")
        v = int(v)
    if not isinstance(v, int):
        raise ValueError(f"unresolved count {v!r}")
    return str(v)


def impl_sem(s):
    if isinstance(s, GateStatement):
        if isinstance(s.gate_def, Macro):
            raise ValueError("macro call left")
        return {"g": s.name, "args": [impl_arg(v) for v in s.parameters.values()]}
    if isinstance(s, LoopStatement):
        return {"l": _intval(s.iterations), "body": impl_sem(s.statements)}
    return {"b": [impl_sem(x) for x in s.statements], "par": s.parallel, "sub": s.subcircuit, "it": _intval(s.iterations)}


def norm(s):
    if "g" in s:
        return s
    if "l" in s:
        return {"l": s["l"], "body": norm(s["body"])}
    return {"b": norm_list(s["par"], s["b"]), "par": s["par"], "sub": s["sub"], "it": s["it"]}


def norm_list(par, l):
    out = []
    for s in l:
        if "b" in s and not s["sub"]:
            if s["par"] == par:
                out.extend(norm_list(par, s["b"]))
            else:
                out.append({"b": norm_list(s["par"], s["b"]), "par": s["par"], "sub": False, "it": "1"})
        else:
            out.append(norm(s))
    return out


def numeric(j):
    """identify an integral float with the int of the same value (a `let` line `let n 2.0` declares the int 2)"""
    if isinstance(j, dict):
        if set(j) == {"f"}:
            neg, mant, exp = j["f"]
            if int(exp) >= 0:
                return {"i": str((-1 if neg else 1) * int(mant) * 10 ** int(exp))}
            return j
        return {k: numeric(v) for k, v in j.items()}
    if isinstance(j, list):
        return [numeric(x) for x in j]
    return j


def impl_meaning(c):
    return numeric(norm(impl_sem(expand_macros(c).body)))


# --- walks over the real objects

def walk_vals(c):
    """yield (where, value) for every value slot the property speaks about: gate arguments, loop counts, subcircuit
    counts (body and macros), registers"""
    def st(s, where):
        if isinstance(s, GateStatement):
            for v in s.parameters.values():
                yield (where + ":gate argument", v)
        elif isinstance(s, LoopStatement):
            yield (where + ":loop count", s.iterations)
            yield from st(s.statements, where)
        else:
            if s.subcircuit:
                yield (where + ":subcircuit count", s.iterations)
            for x in s.statements:
                yield from st(x, where)

    yield from st(c.body, "body")
    for m in c.macros.values():
        yield from st(m.body, "macro")
    for r in c.registers.values():
        yield ("registers", r)


def constants_in(v):
    """names of the Constant objects reachable inside a value (index, source chain, sizes, bounds)"""
    if isinstance(v, Constant):
        return [v.name]
    if isinstance(v, NamedQubit):
        return constants_in(v.alias_index) + constants_in(v.alias_from)
    if isinstance(v, Register):
        if v.fundamental:
            return constants_in(v._size)
        out = constants_in(v.alias_from)
        if v.alias_slice is not None:
            out += constants_in(v.alias_slice.start) + constants_in(v.alias_slice.stop) + constants_in(v.alias_slice.step)
        return out
    return []


def qubits_of(c):
    """(where, NamedQubit, macro or None)"""
    out = []

    def st(s, where, m):
        if isinstance(s, GateStatement):
            for v in s.parameters.values():
                if isinstance(v, NamedQubit):
                    out.append((where, v, m))
        elif isinstance(s, LoopStatement):
            st(s.statements, where, m)
        else:
            for x in s.statements:
                st(x, where, m)

    for r in c.registers.values():
        if isinstance(r, NamedQubit):
            out.append(("registers", r, None))
    st(c.body, "body", None)
    for m in c.macros.values():
        st(m.body, "macro", m)
    return out


def frame(d):
    """what fill_in_let is not responsible for: block kinds, subcircuit flags, loop / gate skeleton, gate names and
    definitions' names, macro names and parameter NAMES, natives, usepulses, names of constants and registers"""
    def st(s):
        if "g" in s:
            return ["g", s["g"], s["def"]["name"], s["def"]["tag"], len(s["args"])]
        if "l" in s:
            return ["l", st(s["body"])]
        return ["b", s["par"], s["sub"], [st(x) for x in s["b"]]]

    return {"body": st(d["body"]), "macros": [[m["m"], [p[0] for p in m["params"]], st(m["body"])] for m in d["macros"]],
            "natives": d["natives"], "usepulses": d["usepulses"], "constants": d["constants"],
            "registers": [x.get("r", x.get("q")) for x in d["registers"]], "keys": d["keys"]}


def rewrite_lets(text, ov):
    """the program text with the overriding values written into its `let` lines"""
    ovd = dict(ov)
    out = []
    for line in text.split("\n"):
        w = line.split()
        if len(w) == 3 and w[0] == "let" and w[1] in ovd:
            out.append(f"let {w[1]} {fmt_num(ovd[w[1]])}")
        else:
            out.append(line)
    return "\n".join(out)


def make_ctx(rng, c, m):
    """a context for the parameters of macro m: an int for a parameter used as an index, a register for one used as a
    source, anything for the others; now and then a value of the wrong kind (returns (ctx, ill_kinded))"""
    regs = [r for r in c.registers.values() if isinstance(r, Register)]
    qs = [r for r in c.registers.values() if isinstance(r, NamedQubit)]
    as_index, as_source = set(), set()
    for where, q, mm in qubits_of(c):
        if mm is m:
            if isinstance(q.alias_index, Parameter):
                as_index.add(q.alias_index.name)
            if isinstance(q.alias_from, Parameter):
                as_source.add(q.alias_from.name)
    ctx = {}
    ill = False
    for p in m.parameters:
        k = rng.random()
        want = "i" if p.name in as_index else "r" if p.name in as_source else None
        if k < 0.06:
            if rng.random() < 0.5:
                continue                                    # unbound
            ctx[p.name] = rng.choice([1.0, 2.5, None, Parameter("zz", None)] + regs[:1] + qs[:1] + [1])
            ill = True
        elif want == "i" or (want is None and k < 0.4):
            ctx[p.name] = rng.choice([0, 0, 1, 1, 2, 3, 5, -1])
        elif (want == "r" or k < 0.8) and regs:
            ctx[p.name] = rng.choice(regs)
        elif qs:
            ctx[p.name] = rng.choice(qs)
        else:
            ctx[p.name] = 1
    return ctx, ill


def real_resolve(q, ctx):
    try:
        reg, idx = q.resolve_qubit(ctx)
        if isinstance(idx, bool) or not isinstance(idx, int):
            return {"err": "non-int-index:" + type(idx).__name__}
        return {"ok": [reg.name, str(idx)]}
    except RecursionError:
        return {"err": "RecursionError"}
    except Exception as e:  # noqa
        return {"err": type(e).__name__}


def real_side(case):
    res = {"parse": None}
    try:
        c = parse(case["text"], case["mode"])
    except Exception as e:  # noqa
        res["parse"] = type(e).__name__
        return res
    try:
        res["dump"] = dump.circuit(c)
    except dump.Undumpable:
        res["parse"] = "Undumpable"
        return res
    res["circuit"] = c
    ov = {k: v for k, v in case["overrides"]}
    res["fl_obj"] = None

    def do_let():
        f = fill_in_let(c, dict(ov))
        res["fl_obj"] = f
        return dump.circuit(f)

    res["fl"] = outcome(do_let)
    res["fm_obj"] = None

    def do_map():
        f = fill_in_map(c)
        res["fm_obj"] = f
        return dump.circuit(f)

    res["fm"] = outcome(do_map)
    # resolution cases
    rng = random.Random(case["ctxseed"])
    rs = []
    ctxs = {}
    for where, q, m in qubits_of(c):
        ill = False
        if m is None:
            ctx = {}
        else:
            if m.name not in ctxs:
                ctxs[m.name] = make_ctx(rng, c, m)
            ctx, ill = ctxs[m.name]
        try:
            jctx = [[k, dump.val(v)] for k, v in ctx.items()]
            jq = dump.val(q)
        except dump.Undumpable:
            continue
        rs.append({"where": where, "val": jq, "ctx": jctx, "real": real_resolve(q, ctx), "ill": ill})
    res["resolve"] = rs
    return res


def run_driver(driver, reqs):
    if not reqs:
        return []
    p = subprocess.run([driver], input="\n".join(json.dumps(r) for r in reqs) + "\n", capture_output=True, text=True)
    lines = [l for l in p.stdout.split("\n") if l.strip()]
    if len(lines) != len(reqs):
        raise RuntimeError(f"driver answered {len(lines)} lines for {len(reqs)} requests: {p.stderr[:500]}")
    out = []
    for l in lines:
        j = json.loads(l)
        if "out" not in j:
            raise RuntimeError(f"driver error: {j}")
        out.append(j["out"])
    return out


# ------------------------------------------------------------------------------------------------
# oracles on the real code alone

_CONV = {}


def emu_state(text):
    from jaqalpaq.run import run_jaqal_circuit
    with warnings.catch_warnings():
        warnings.simplefilter("ignore")
        c = parse_jaqal_string(text, inject_pulses=GATES_IDLE, autoload_pulses=False)
        res = run_jaqal_circuit(c)
    return np.array(res.subcircuits[0].state_vector)


def bit_of_state_index(n, k):
    """index of the basis state with only register qubit k set, calibrated on the real emulator"""
    key = (n, k)
    if key not in _CONV:
        v = emu_state(f"register r[{n}]\nprepare_all\nX r[{k}]\nmeasure_all\n")
        nz = [i for i, a in enumerate(v) if abs(a) > 1e-12]
        _CONV[key] = nz[0] if len(nz) == 1 else None
    return _CONV[key]


def header_of(text):
    return [l for l in text.split("\n") if l.split() and l.split()[0] in ("let", "register", "map")]


def oracles(case, res, out, do_emu):
    c = res["circuit"]
    d0 = res["dump"]
    ov = {k: v for k, v in case["overrides"]}

    def rec(name, ok, detail=""):
        o = out.setdefault(name, {"cases": 0, "failures": []})
        o["cases"] += 1
        if not ok:
            o["failures"].append({"case": case, "detail": detail})

    # any exception class other than JaqalError from the real passes
    for nm, oc in (("fill_in_let", res["fl"]), ("fill_in_map", res["fm"])):
        rec("only_jaqal_errors", "ok" in oc or oc["err"] == "JaqalError", f"{nm} raised {oc.get('err')}")
    for r in res["resolve"]:
        if r["where"] != "macro":
            rec("only_jaqal_errors", "ok" in r["real"] or r["real"]["err"] == "JaqalError",
                f"resolve_qubit of {json.dumps(r['val'])[:200]} gave {r['real']}")

    fl = res["fl"]
    if "ok" in fl:
        f = res["fl_obj"]
        d1 = fl["ok"]
        left = [(w, n) for w, v in walk_vals(f) for n in constants_in(v)]
        rec("no_constant_left", not left, f"constants left: {left[:4]}")
        rec("frame_preserved", frame(d1) == frame(d0), "frame changed")
        # a declared single-qubit alias used as a gate argument keeps its name; an anonymous r[n] is renamed r[<value>]
        q0s = [q for w, q, m in qubits_of(c) if w != "registers"]
        q1s = [q for w, q, m in qubits_of(f) if w != "registers"]
        badn = []
        if len(q0s) == len(q1s):
            for a, b in zip(q0s, q1s):
                if a.name in c.registers:
                    if b.name != a.name:
                        badn.append((a.name, b.name))
                elif isinstance(a.alias_index, Constant):
                    if b.name != f"{a.alias_from.name}[{b.alias_index}]":
                        badn.append((a.name, b.name))
                elif b.name != a.name:
                    badn.append((a.name, b.name))
        else:
            badn.append("different number of qubit arguments")
        rec("qubit_names", not badn, f"names: {badn[:4]}")
        # meaning under the overriding values == meaning of the text with the values written into the let lines
        t2 = rewrite_lets(case["text"], [p for p in case["overrides"] if p[0] in dict((k, 1) for k in LETS)])
        m1 = outcome(lambda: impl_meaning(f))
        if "ok" in m1:
            p2 = outcome(lambda: parse(t2, case["mode"]))
            if "ok" in p2:
                m2 = outcome(lambda: impl_meaning(p2["ok"]))
                rec("meaning_under_overrides", m1 == m2, f"filled {json.dumps(m1)[:400]} / rewritten text {json.dumps(m2)[:400]}")
            else:
                # e.g. a fractional value for a constant that indexes a macro PARAMETER in a macro that is never called:
                # the front end rejects the rewritten text (constant of kind FLOAT as an index), fill_in_let builds
                # `p[-0.5]` unchecked.  The reference interpreter below still has to agree.
                rec("meaning_under_overrides(info: the front end rejects the rewritten text, fill_in_let accepts)", True)
            # reference interpreter (call-by-value on the ORIGINAL objects under the overriding values; written in
            # pass1_diff, independent of fill_in_let and of the Lean side)
            try:
                ref = {"ok": numeric(P1.norm(P1.ref_stmt(c.body, {}, ov, c.macros)))}
            except P1.RefError as e:
                ref = {"err": "RefError"}
            rec("meaning_vs_reference", ref == m1, f"filled {json.dumps(m1)[:400]} / reference {json.dumps(ref)[:400]}")
        else:
            rec("meaning_under_overrides(info: result has no implementation meaning: " + m1["err"] + ")", True)
        # every reference of the result resolves, within the NEW sizes, and every count is a number
        bad = []
        for where, q, m in qubits_of(f):
            if m is None:
                rr = real_resolve(q, {})
                if "ok" not in rr:
                    bad.append((where, q.name, rr))
                else:
                    reg = q.resolve_qubit()[0]
                    if not (isinstance(reg._size, int) and 0 <= int(rr["ok"][1]) < reg._size):
                        bad.append((where, q.name, "outside", rr))
        rec("revalidated", not bad, f"unresolvable after fill_in_let: {bad[:3]}")
        again = outcome(lambda: dump.circuit(fill_in_let(f, dict(ov))))
        again0 = outcome(lambda: dump.circuit(fill_in_let(f)))
        rec("idempotent", again == fl and again0 == fl, "a second fill_in_let changes the circuit")
    fm = res["fm"]
    if "ok" in fm:
        g = res["fm_obj"]
        m0 = outcome(lambda: impl_meaning(c))
        m1 = outcome(lambda: impl_meaning(g))
        nonfund = []
        for where, q, m in qubits_of(g):
            if where == "registers":
                continue
            if not (isinstance(q.alias_from, Register) and q.alias_from.fundamental and isinstance(q.alias_index, int)):
                nonfund.append(q.name)
        same = True
        # the rewritten reference is the resolution of the original, position by position
        q0 = [q for w, q, m in qubits_of(c) if w != "registers"]
        q1 = [q for w, q, m in qubits_of(g) if w != "registers"]
        pos = len(q0) == len(q1) and all(
            real_resolve(a, {}) == {"ok": [b.alias_from.name, str(b.alias_index)]} for a, b in zip(q0, q1))
        if "ok" in m0 or "ok" in m1:
            same = m0 == m1
        # no register name is written inside a macro one of whose parameters has that name
        cap = [(m.name, q.name) for w, q, m in qubits_of(g)
               if m is not None and isinstance(q.alias_from, Register) and q.alias_from.name in [p.name for p in m.parameters]]
        rec("fill_in_map_no_name_capture", not cap, f"captured: {cap[:3]}")
        rec("fill_in_map_same_meaning_and_fundamental", same and not nonfund and pos,
            f"meaning {json.dumps(m0)[:300]} / {json.dumps(m1)[:300]}; not fundamental: {nonfund[:3]}; positions agree: {pos}")
    # C06: the defining equation on the real objects, for every alias register of the circuit
    for r in c.registers.values():
        if isinstance(r, Register) and not r.fundamental:
            try:
                size = int(_unconst(r.size))
            except Exception:  # noqa
                continue
            sl = r.alias_slice
            a = _unconst(0 if sl is None or sl.start is None else sl.start)
            s = _unconst(1 if sl is None or sl.step is None else sl.step)
            okk = True
            det = ""
            for i in range(size):
                lhs = outcome(lambda: (lambda p: [p[0].name, p[1]])(r.resolve_qubit(i)))
                rhs = outcome(lambda: (lambda p: [p[0].name, p[1]])(r.alias_from.resolve_qubit(a + i * s)))
                if lhs != rhs:
                    okk = False
                    det = f"{r.name}[{i}] = {lhs}, source[{a}+{i}*{s}] = {rhs}"
            rec("slice_equation", okk, det)
    # consumers agree / alias same as direct: X on one reference, through the used-qubit analysis and the emulator
    if do_emu:
        hdr = header_of(case["text"])
        refs = []
        for name, r in c.registers.items():
            if isinstance(r, NamedQubit):
                refs.append(name)
            else:
                try:
                    size = int(_unconst(r.size))
                except Exception:  # noqa
                    continue
                for i in range(min(size, 3)):
                    refs.append(f"{name}[{i}]")
        fund = [r for r in c.registers.values() if isinstance(r, Register) and r.fundamental]
        if fund and refs:
            try:
                n = int(_unconst(fund[0].size))
            except Exception:  # noqa
                n = None
            if n is not None and 1 <= n <= 8:
                rng = random.Random(case["ctxseed"] + 1)
                for ref in rng.sample(refs, min(2, len(refs))):
                    text = "\n".join(hdr + ["prepare_all", f"X {ref}", "measure_all"]) + "\n"
                    try:
                        cc = parse_jaqal_string(text, inject_pulses=GATES_IDLE, autoload_pulses=False)
                    except Exception:  # noqa
                        continue
                    if "err" in outcome(lambda: fill_in_let(cc)):
                        # an alias that leaves its let-sized source: accepted by the front end (size unknown there),
                        # rejected by fill_in_let (run_jaqal_circuit calls it) once the size is a literal
                        rec("consumers_agree(info: header rejected by fill_in_let once sizes are literal)", True)
                        continue
                    q = list(cc.body.statements[1].parameters.values())[0]
                    rr = real_resolve(q, {})
                    if "ok" not in rr:
                        continue
                    k = int(rr["ok"][1])
                    used = outcome(lambda: {kk: sorted(vv) for kk, vv in get_used_qubit_indices(cc.body.statements[1]).items()})
                    st = outcome(lambda: emu_state(text))
                    det = ""
                    ok = used == {"ok": {rr["ok"][0]: [k]}}
                    if not ok:
                        det = f"used-qubit analysis {used} resolution {rr}"
                    if "ok" in st:
                        nz = [i for i, amp in enumerate(st["ok"]) if abs(amp) > 1e-12]
                        want = bit_of_state_index(n, k) if 0 <= k < n else None
                        if nz != [want]:
                            ok = False
                            det += f" emulator acts on state index {nz}, resolution {rr} means {want}"
                    else:
                        ok = False
                        det += f" emulator: {st}"
                    rec("consumers_agree", ok, f"X {ref}: {det}")
                    if "ok" in st and 0 <= k < n:
                        direct = "\n".join([l for l in hdr if not l.startswith("map")] + ["prepare_all", f"X r[{k}]", "measure_all"]) + "\n"
                        sd = outcome(lambda: emu_state(direct))
                        rec("alias_same_as_direct", "ok" in sd and np.array_equal(sd["ok"], st["ok"]),
                            f"X {ref} and X r[{k}] give different states")


def _trunc(l, k=20):
    return l[:k]


def slim(case):
    return {k: case[k] for k in ("id", "text", "mode", "overrides", "ctxseed")}


def run(seed: int, n: int, driver: str = DEFAULT_DRIVER, thorough: bool = False) -> dict:
    _imports()
    if thorough:
        n = n * 5
    cases = gen_cases(seed, n, thorough)
    corr = {k: {"cases": 0, "disagreements": []} for k in ("fill_in_let", "fill_in_map", "resolve", "eval_qubit", "fill_in_let_twice(model)")}
    oracle = {}
    dist = Counter()
    nontrivial = set()
    sys.setrecursionlimit(3000)
    reals = []
    reqs = []
    for case in cases:
        res = real_side(case)
        reals.append(res)
        if res["parse"] is not None:
            dist[f"front end rejects: {res['parse']}"] += 1
            continue
        d, _ = strip(res["dump"])
        reqs.append({"op": "fill_in_let", "circuit": d, "override": [[k, dump.num(v)] for k, v in case["overrides"]]})
        reqs.append({"op": "fill_in_map", "circuit": d})
        for r in res["resolve"]:
            reqs.append({"op": "resolve", "val": r["val"], "ctx": r["ctx"]})
            reqs.append({"op": "eval_qubit", "val": r["val"], "ctx": r["ctx"]})
    outs = run_driver(driver, reqs)
    # model-level idempotence (C05_idempotent_full is not proved): a second fill_in_let of the MODEL's result, with and
    # without the overrides, must return it unchanged
    k = 0
    reqs2 = []
    for case, res in zip(cases, reals):
        if res["parse"] is not None:
            continue
        m_fl = outs[k]
        k += 2 + 2 * len(res["resolve"])
        if "ok" in m_fl:
            reqs2.append({"op": "fill_in_let", "circuit": m_fl["ok"], "override": [[kk, dump.num(v)] for kk, v in case["overrides"]]})
            reqs2.append({"op": "fill_in_let", "circuit": m_fl["ok"], "override": []})
    outs2 = run_driver(driver, reqs2)
    k2 = 0
    k = 0
    emu_budget = max(40, n // 6) if not thorough else n
    for case, res in zip(cases, reals):
        if res["parse"] is not None:
            continue
        sc = slim(case)
        m_fl, m_fm = outs[k], outs[k + 1]
        k += 2
        for f, cnt in case["features"].items():
            dist["feature: " + f] += 1
        dist[f"mode={case['mode']}"] += 1
        ok, ij = cmp_pass(m_fl, res["fl"])
        corr["fill_in_let"]["cases"] += 1
        if not ok:
            corr["fill_in_let"]["disagreements"].append({"case": sc, "model": m_fl, "impl": ij})
        dist["fill_in_let: " + ("ok" if "ok" in res["fl"] else res["fl"]["err"]) + (" (with overrides)" if case["overrides"] else "")] += 1
        if "ok" in m_fl:
            for again in (outs2[k2], outs2[k2 + 1]):
                corr["fill_in_let_twice(model)"]["cases"] += 1
                if canon(again) != canon(m_fl):
                    corr["fill_in_let_twice(model)"]["disagreements"].append({"case": sc, "model": again, "impl": m_fl})
            k2 += 2
        ok, ij = cmp_pass(m_fm, res["fm"])
        corr["fill_in_map"]["cases"] += 1
        if not ok:
            corr["fill_in_map"]["disagreements"].append({"case": sc, "model": m_fm, "impl": ij})
        dist["fill_in_map: " + ("ok" if "ok" in res["fm"] else res["fm"]["err"])] += 1
        for v in (v for _, v in case["overrides"]):
            dist["override value: " + ("int" if isinstance(v, int) else "integral float" if v == int(v) else "fractional float")] += 1
        for r in res["resolve"]:
            m_r, m_e = outs[k], outs[k + 1]
            k += 2
            rc = {"case": sc, "val": r["val"], "ctx": r["ctx"]}
            corr["resolve"]["cases"] += 1
            if m_r != r["real"]:
                if r["ill"] and m_r.get("err") in ("float-index", "float-size"):
                    # `Resolve.lean` carries no floats (documented there): a context binding an index to a float
                    dist["resolve: float bound to an index parameter (outside the Resolve model): impl " +
                         ("ok" if "ok" in r["real"] else r["real"]["err"])] += 1
                elif r["ill"] and "err" in m_r and "err" in r["real"] and m_r["err"] != "JaqalError":
                    # a context binding a parameter to a value of the wrong kind (a register as an index, a number as a
                    # source, a float index): both fail with a non-Jaqal exception; which one depends on evaluation order
                    dist["resolve: ill-kinded macro context, both raise, the model a non-Jaqal class, impl " + r["real"]["err"]] += 1
                else:
                    corr["resolve"]["disagreements"].append({"case": rc, "model": m_r, "impl": r["real"]})
            dist[f"resolve ({r['where']}): " + ("ok" if "ok" in r["real"] else r["real"]["err"])] += 1
            # the specification against the library
            corr["eval_qubit"]["cases"] += 1
            if "ok" in r["real"]:
                if "ok" in m_e:
                    if m_e != r["real"]:
                        corr["eval_qubit"]["disagreements"].append({"case": rc, "model": m_e, "impl": r["real"]})
                    dist["eval_qubit: spec == library"] += 1
                else:
                    # the library resolves a reference through an alias that leaves its source elsewhere (only possible
                    # when the constructor could not check: let-sized source) - the specification rejects the alias
                    dist["eval_qubit: library resolves, spec rejects the chain (ValidChain fails)"] += 1
            else:
                if "ok" in m_e:
                    if r["where"] == "macro":
                        dist["eval_qubit: spec defined, library rejects (macro context)"] += 1
                    else:
                        corr["eval_qubit"]["disagreements"].append({"case": rc, "model": m_e, "impl": r["real"]})
                else:
                    dist["eval_qubit: both reject"] += 1
        if case["overrides"] or len(res["dump"]["registers"]) > 1:
            nontrivial.add(json.dumps([case["text"], case["overrides"]]))
        do_emu = emu_budget > 0 and len(res["dump"]["registers"]) > 1
        if do_emu:
            emu_budget -= 1
        oracles(sc, res, oracle, do_emu)
    for v in corr.values():
        v["disagreements"] = _trunc(v["disagreements"])
    for v in oracle.values():
        v["failures"] = _trunc(v["failures"])
    samples = [slim(c) for c, r in zip(cases, reals) if r["parse"] is None][:4]
    return {"corr": corr, "oracle": oracle, "distribution": dict(sorted(dist.items())), "samples": samples,
            "nontrivial": len(nontrivial)}


def replay(case: dict, driver: str = DEFAULT_DRIVER) -> dict:
    _imports()
    sys.setrecursionlimit(3000)
    if "val" in case and "case" in case:
        # a resolve / eval_qubit entry: {"case": <program case>, "val": …, "ctx": …}
        outs = run_driver(driver, [{"op": "resolve", "val": case["val"], "ctx": case["ctx"]},
                                   {"op": "eval_qubit", "val": case["val"], "ctx": case["ctx"]}])
        res = real_side(dict(case["case"], features={}))
        impl = None
        if res["parse"] is None:
            for r in res["resolve"]:
                if r["val"] == case["val"] and r["ctx"] == case["ctx"]:
                    impl = r["real"]
        return {"model": {"resolve": outs[0], "eval_qubit": outs[1]}, "impl": impl, "oracle_ok": None,
                "detail": f"resolve agree={outs[0] == impl}"}
    case = dict(case)
    case.setdefault("features", {})
    res = real_side(case)
    if res["parse"] is not None:
        return {"model": None, "impl": {"parse": res["parse"]}, "oracle_ok": None, "detail": "front end rejects the program"}
    d, _ = strip(res["dump"])
    outs = run_driver(driver, [
        {"op": "fill_in_let", "circuit": d, "override": [[k, dump.num(v)] for k, v in case["overrides"]]},
        {"op": "fill_in_map", "circuit": d}])
    orc = {}
    oracles(slim(case), res, orc, True)
    fails = {k: v["failures"][0]["detail"] for k, v in orc.items() if v["failures"]}
    ok1, i1 = cmp_pass(outs[0], res["fl"])
    ok2, i2 = cmp_pass(outs[1], res["fm"])
    return {"model": {"fill_in_let": outs[0], "fill_in_map": outs[1]}, "impl": {"fill_in_let": i1, "fill_in_map": i2},
            "oracle_ok": not fails, "detail": f"fill_in_let agree={ok1}, fill_in_map agree={ok2}, oracle failures={fails}"}


def main():
    ap = argparse.ArgumentParser()
    ap.add_argument("--driver", default=DEFAULT_DRIVER)
    ap.add_argument("--seed", type=int, default=0)
    ap.add_argument("--n", type=int, default=1500)
    ap.add_argument("--thorough", action="store_true")
    a = ap.parse_args()
    r = run(a.seed, a.n, a.driver, a.thorough)
    bad = 0
    for k, v in r["corr"].items():
        print(f"corr {k}: {v['cases']} cases, {len(v['disagreements'])} disagreements (first 20 kept)")
        bad += len(v["disagreements"])
        for d in v["disagreements"][:3]:
            print("  DISAGREE", json.dumps(d)[:1800])
    for k, v in r["oracle"].items():
        print(f"oracle {k}: {v['cases']} cases, {len(v['failures'])} failures")
        bad += len(v["failures"])
        for d in v["failures"][:3]:
            print("  FAIL", json.dumps(d)[:1800])
    for k, v in r["distribution"].items():
        print(f"  {k}: {v}")
    print("nontrivial:", r["nontrivial"])
    sys.exit(1 if bad else 0)


if __name__ == "__main__":
    main()
