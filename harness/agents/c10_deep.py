#!/venv/bin/python
"""C10 at DEPTH >= 3, over REVERSED / STRIDED SLICES, ONE-STATEMENT bodies, TWO PROGRAMS side by side (seventh-round stream).

    PYTHONPATH=/verif /venv/bin/python /verif/harness/agents/c10_deep.py [--seed 0] [--n 150] [--thorough]

`n` = number of generated programs (recommended: 150 quick ~ 8-12 s, 1500 thorough ~ 2 min).  Oracles only.  The spec format, its printer
`spec_text`, the independent reference `ref_meaning` (let = its value or the override in force, alias = the qubits it selects
with range() semantics, macro call = its body with the arguments bound, subcircuit blocks spelled `prepare_all … measure_all`
iff expand_subcircuits is in the history) and the reader of library OBJECTS `obj_meaning` (no library pass, no resolve_qubit)
are imported from c10_scale; the flag check and the pass dispatcher from c10_traps.

What the programs contain that the other C10 streams never generate
  slices        every alias is drawn from a menu of slice SHAPES over its source: the whole source, reversed down to element 0
                (`r[L-1:-1:-1]`, the only spelling: stop -1), reversed strided reaching 0 (`r[4:-1:-2]`), reversed with a
                partial last step (`q[4:0:-3]`), reversed stopping above 0, forward strided with a partial last step, a slice of
                exactly ONE element (forward `[k:k+1]`, reversed `[k:k-1:-1]`, `[0:-1:-1]`), omitted start / stop / step, a
                single qubit (`map z a[k]`, k = 0 / size-1 / middle); every bound is a literal or a LET (also the -1 and the
                negative step); the source is mostly the LATEST alias: alias of alias of alias … (depth up to 6) with
                whole-register aliases in the middle; the register is sized by a literal or a let
  uses          every alias is used at index 0 AND at index size-1 (literal or let) at top level, and again inside macro bodies,
                loops, parallel blocks, subcircuit blocks
  macro chains  m1 … mD (D up to 4): m_i calls m_(i-1) — directly, in a loop, in a parallel block, in a sequential block in a
                parallel block — and uses ITS OWN parameter AFTER the call; parameter names are shared by all levels and SWAPPED
                at every level; the innermost macro holds the only subcircuit block of the program (reached through 0, 1, 2 or 3
                other macros), or uses an alias by a let index (a constant >= 2 levels below the call); ONE-STATEMENT bodies
                (a loop, a parallel block, a subcircuit block, a gate, a call) called directly as an element of a parallel block
  nesting       parallel in sequential in parallel, loops around both, calls in every position
  shadowing     a macro parameter named like the register while aliases are used outside that macro; an integer parameter
                used as an index (both make fill_in_map 'not applicable' while the macro table is kept: counted, see `applicable`)
  numbers       1, 1.0 and bool-valued overrides side by side; counts and sizes of exactly 1; indices equal to size-1
  two programs  a SIBLING program with the same alias / register / macro / let names bound differently goes through the same
                pass kinds in lockstep (sibling first), so anything a pass remembers from the previous circuit shows

oracles
  meaning_after_history    after EVERY prefix of a history (two orders of one multiset of passes, one history with repetitions
                           and trips through text; thorough: a fourth) the meaning read off the result == the reference meaning
                           (so all orders agree: commutation up to meaning); the same for the sibling
  idempotent               P(P(x)) == P(x) (`==` both ways, equal structure)
  legal_after_pass         generate_jaqal_program succeeds on every result, the text parses under the same gate set, same meaning
  flags_equal_passes       parse_jaqal_string with flags / override_dict vs the passes by hand on the plain parse
  input_not_modified       the plain parse (and the sibling's) has the same structure and meaning after everything
  refused_or_legal         fill_in_let (by hand and through expand_let=True) with an integer-declared let that is used as an
                           index / bound / size / count overridden by a NON-INTEGRAL float: JaqalError, or else a result that is a
                           legal circuit (has a meaning, is generated and parses back to it) — never an illegal circuit;
                           both entry points answer alike (error class)
  applicable               a pass refuses (JaqalError) one of these programs — valid under the overrides by construction — only
                           where the check's assumptions allow (fill_in_map while a macro body indexes by a parameter or a
                           parameter shadows the register)
  only_jaqal_errors        nothing but JaqalError is raised
Side conditions as everywhere in C10: an order in which fill_in_map precedes the first fill_in_let only overrides lets that
occur in no index / bound / size; an omitted slice stop is only written where the size of the source depends on no let
(known finding defaulted-stop-frozen of C05); prepare_all / measure_all are never written by the programs (known finding
subs-bounding-not-reparsable).
"""
import argparse
import json
import random
import sys
from collections import Counter

DEFAULT_DRIVER = "/verif/lean/.lake/build/bin/jaqal-model"
ORACLES = ("meaning_after_history", "idempotent", "legal_after_pass", "flags_equal_passes", "input_not_modified",
           "refused_or_legal", "applicable", "only_jaqal_errors")
ALIASES = ["a", "b", "c", "d", "e", "w", "z", "rev", "u", "v", "ab", "ra"]
LETS = ["n", "k", "s", "t", "last", "m1", "j", "i", "kk", "n2", "st", "lo", "hi", "one", "h", "l", "nn", "k2", "s2", "t2"]
PARAMS = ["x", "y", "p"]


def _imports():
    global S, TR, np, GATES, fill_in_let, fill_in_map, expand_macros, expand_subcircuits, generate_jaqal_program
    import numpy as np
    from harness.agents import c10_scale as S
    from harness.agents import c10_traps as TR
    S._imports()
    TR._imports()
    from harness.gates import GATES
    from jaqalpaq.core.algorithm import expand_macros, fill_in_let, expand_subcircuits
    from jaqalpaq.core.algorithm.fill_in_map import fill_in_map
    from jaqalpaq.generator import generate_jaqal_program


# ------------------------------------------------------------------------------------------------ generator

class Gen:
    def __init__(self, rng, focus):
        self.rng = rng
        self.focus = focus
        self.header, self.body = [], []
        self.lets = {}            # name -> declared value
        self.role = {}            # name -> "idx" | "count" | "subcount" | "int" | "float"
        self.arrays = {}          # name -> list of register positions
        self.dep = {}             # name -> a let is involved in its extent
        self.depth = {}
        self.singles = {}         # name -> position
        self.order = []           # arrays in declaration order
        self.feat = Counter()
        self.regparam = False
        self.shadow = False
        self.nlet = 0
        self.p_let = rng.choice([0.0, 0.2, 0.35, 0.6])
        self.hidden = []          # the qubit parameters of the macro under construction when one of them shadows the register

    # ---- lets
    def new_let(self, v, role):
        name = LETS[self.nlet % len(LETS)] + ("" if self.nlet < len(LETS) else str(self.nlet))
        self.nlet += 1
        self.lets[name] = v
        self.role[name] = role
        self.header.append(["let", name, v])
        return name

    def bound(self, v, p=None):
        """an integer in an index / bound / size position: the literal or a let holding it"""
        if self.rng.random() >= (self.p_let if p is None else p):
            return v
        have = [n for n, w in self.lets.items() if self.role[n] == "idx" and w == v and type(w) is int]
        if have and self.rng.random() < 0.5:
            return self.rng.choice(have)
        return self.new_let(v, "idx")

    # ---- header
    def make_header(self):
        rng = self.rng
        self.reg = rng.choice(["r", "q", "r", "qq"])
        size = rng.choice([1, 2, 3, 4, 4, 5, 5, 6, 7])
        b = self.bound(size, 0.3)
        self.header.append(["reg", self.reg, b])
        self.arrays[self.reg] = list(range(size))
        self.dep[self.reg] = isinstance(b, str)
        self.depth[self.reg] = 0
        self.order.append(self.reg)
        n_alias = rng.choice([1, 2, 3, 3, 4, 5, 6]) if self.focus != "macro" else rng.choice([0, 1, 2, 3])
        for k in range(n_alias):
            self.make_alias(ALIASES[k])

    def make_alias(self, name):
        rng = self.rng
        arrs = self.order
        src = arrs[-1] if rng.random() < 0.65 else rng.choice(arrs)
        base = self.arrays[src]
        L = len(base)
        shapes = ["whole", "whole", "index", "revfull", "revfull", "rev0stride", "revpartial", "revabove", "fwd", "fwd",
                  "one", "onerev", "onerev0"]
        shape = rng.choice(shapes)
        sel = None
        if shape == "whole":
            sel = None
        elif shape == "index":
            k = rng.choice([0, L - 1, rng.randrange(L)])
            self.header.append(["map", name, src, ["i", self.bound(k)]])
            self.singles[name] = base[k]
            self.feat["alias:single qubit at %s" % ("0" if k == 0 else "size-1" if k == L - 1 else "middle")] += 1
            return
        elif shape == "revfull":
            sel = (L - 1, -1, -1)
        elif shape == "rev0stride" and L >= 3:
            st = rng.choice([2, 3]) if L >= 4 else 2
            start = rng.choice([x for x in range(L) if x % st == 0 and x > 0])
            sel = (start, -1, -st)
        elif shape == "revpartial" and L >= 3:
            st = rng.choice([2, 3])
            start = rng.randrange(2, L)
            stop = rng.randrange(0, start)
            sel = (start, stop, -st)
        elif shape == "revabove" and L >= 2:
            start = rng.randrange(1, L)
            stop = rng.randrange(0, start)
            sel = (start, stop, -1)
        elif shape == "fwd":
            st = rng.choice([1, 1, 2, 3])
            start = rng.randrange(0, L)
            stop = rng.randrange(start + 1, L + 1)
            sel = (start, stop, st)
        elif shape == "one":
            k = rng.randrange(L)
            sel = (k, k + 1, rng.choice([1, 1, 2]))
        elif shape == "onerev" and L >= 2:
            k = rng.randrange(1, L)
            sel = (k, k - 1, rng.choice([-1, -1, -2]))
        elif shape == "onerev0":
            sel = (0, -1, rng.choice([-1, -2]))
        else:
            shape = "whole"
        if sel is None:
            self.header.append(["map", name, src, None])
            out, dep = base, self.dep[src]
        else:
            start, stop, step = sel
            out = [base[i] for i in range(start, stop, step)]
            if not out:
                self.header.append(["map", name, src, None])
                out, dep, shape = base, self.dep[src], "whole"
            else:
                w = [self.bound(start), self.bound(stop), self.bound(step)]
                if step > 0:
                    if start == 0 and w[0] == 0 and rng.random() < 0.3:
                        w[0] = None
                    if step == 1 and w[2] == 1 and rng.random() < 0.5:
                        w[2] = None
                    if stop == L and w[1] == L and not self.dep[src] and rng.random() < 0.3:
                        w[1] = None
                dep = self.dep[src] or any(isinstance(x, str) for x in w)
                self.header.append(["map", name, src, ["s"] + w])
                if any(isinstance(x, str) for x in w):
                    self.feat["alias:let-valued bound"] += 1
                if stop == -1:
                    self.feat["alias:stop -1 (reversed, reaches element 0)"] += 1
                    if isinstance(w[1], str):
                        self.feat["alias:stop -1 held by a let"] += 1
                if step < 0 and (start - stop) % (-step) != 0:
                    self.feat["alias:reversed, partial last step"] += 1
                if len(out) == 1:
                    self.feat["alias:exactly one element"] += 1
        self.arrays[name] = out
        self.dep[name] = dep
        self.depth[name] = self.depth[src] + 1
        self.order.append(name)
        self.feat["alias shape:" + shape] += 1
        self.feat["alias depth %d" % min(self.depth[name], 6)] += 1
        if shape == "whole" and self.depth[name] >= 2:
            self.feat["alias:whole-register alias in the middle of a chain"] += 1

    # ---- references
    def qglobal(self, arr=None, k=None):
        rng = self.rng
        if arr is None and self.singles and rng.random() < 0.2:
            return ["n", rng.choice(sorted(self.singles))]
        if arr is None:
            # (inside a macro whose parameter is named like the register, the register's name is the parameter)
            pool = [a for a in self.order if not (self.hidden and a == self.reg)] or None
            if pool is None:
                return ["n", self.hidden[0]]
            arr = pool[-1] if rng.random() < 0.4 else rng.choice(pool)
        L = len(self.arrays[arr])
        if k is None:
            k = rng.choice([0, L - 1, rng.randrange(L)])
        return ["q", arr, self.bound(k, self.p_let * 0.6)]

    def qarg(self, params):
        qs = [p for p, t in params if t == "q"]
        if qs and self.rng.random() < 0.6:
            return ["n", self.rng.choice(qs)]
        return self.qglobal()

    def iarg(self, params):
        rng = self.rng
        ips = [p for p, t in params if t == "i"]
        if ips and rng.random() < 0.6:
            return ["n", rng.choice(ips)]
        c = rng.random()
        if c < 0.35:
            have = [n for n in self.lets if self.role[n] == "int"]
            return ["n", rng.choice(have) if have and rng.random() < 0.5 else self.new_let(rng.choice([0, 1, 2, 3]), "int")]
        return ["v", rng.choice([0, 1, 2, 3, -1])]

    def farg(self):
        rng = self.rng
        if rng.random() < 0.3:
            have = [n for n in self.lets if self.role[n] == "float"]
            return ["n", rng.choice(have) if have and rng.random() < 0.5 else self.new_let(rng.choice([1.0, 0.5, 2.0, -1.5, 1.0]), "float")]
        return ["v", rng.choice([1, 1.0, 0.5, 0, -0.25, 2.0])]

    def gate(self, params=()):
        rng = self.rng
        name, slots = rng.choice([("X", "q"), ("Y", "q"), ("SX", "q"), ("CX", "qq"), ("CZ", "qq"), ("P", "qi"), ("PF", "fq"), ("X", "q")])
        return ["g", name, [self.qarg(params) if s == "q" else self.iarg(params) if s == "i" else self.farg() for s in slots]]

    def count(self, for_sub=False):
        rng = self.rng
        v = rng.choice([1, 1, 2, 3] if for_sub else [0, 1, 1, 2, 3])
        if rng.random() < 0.3:
            return self.new_let(v, "subcount" if for_sub else "count")
        return v

    # ---- macros
    def make_macros(self):
        rng = self.rng
        D = rng.choice([1, 2, 3, 3, 4, 4]) if self.focus != "slice" else rng.choice([0, 1, 2, 3])
        self.chain = []           # (name, params, has_sub, single_kind)
        if D == 0:
            return
        pn = list(PARAMS)
        if rng.random() < 0.2:
            pn[rng.randrange(2)] = self.reg
            self.shadow = True
            self.feat["macro parameter named like the register"] += 1
        nq = rng.choice([1, 2, 2])
        with_i = rng.random() < 0.4
        sub_inner = rng.random() < 0.45
        prev = None
        for lvl in range(1, D + 1):
            qp = pn[:nq]
            if lvl % 2 == 0:
                qp = list(reversed(qp))
            elif lvl > 1 and nq == 1 and rng.random() < 0.5:
                qp = [pn[1] if qp[0] == pn[0] else pn[0]]
            params = [(p, "q") for p in qp] + ([("kp", "i")] if with_i else [])
            name = "m%d" % lvl
            single = None
            self.hidden = [p for p, t in params if t == "q"] if self.shadow else []
            if lvl == 1:
                has_sub = False
                c = rng.random()
                inner = [self.gate(params) for _ in range(rng.choice([1, 1, 2]))]
                if self.order[1:] and rng.random() < 0.6:   # (aliases only: never the register itself)
                    # a constant well below the call: an alias indexed by a let, inside the innermost macro
                    arr = rng.choice(self.order[1:])
                    L = len(self.arrays[arr])
                    inner.append(["g", "Y", [["q", arr, self.bound(rng.choice([0, L - 1]), 0.7)]]])
                    self.feat["alias by let index inside the innermost macro"] += 1
                if with_i and rng.random() < 0.25 and (self.order[1:] or not self.shadow):
                    arr = rng.choice(self.order[1:] if self.shadow else self.order)
                    inner.append(["g", "X", [["q", arr, "kp"]]])
                    self.regparam = True
                    self.regparam_len = min(len(self.arrays[arr]), getattr(self, "regparam_len", 99))
                    self.feat["macro body indexes by a parameter"] += 1
                if sub_inner:
                    has_sub = True
                    items = [["sub", None if rng.random() < 0.5 else self.count(True), inner]]
                    if rng.random() < 0.5:
                        items.append(self.gate(params))
                    else:
                        single = "sub"
                elif c < 0.3:
                    items = [["loop", self.count(), ["seq", inner]]]
                    single = "loop"
                elif c < 0.45:
                    items = [["par", [self.gate(params), self.gate(params)]]]
                    single = "par"
                elif c < 0.6:
                    items = inner[:1]
                    single = "gate"
                else:
                    items = inner
                    if len(items) == 1:
                        single = "gate"
            else:
                pname, pparams, has_sub, _ = prev
                args = []
                mine = [p for p, t in params if t == "q"]
                for j, (p, t) in enumerate(pparams):
                    if t == "q":
                        # the parameter of the same POSITION (its name differs from level to level), sometimes a global
                        args.append(["n", mine[j % len(mine)]] if rng.random() < 0.8 else self.qglobal())
                    else:
                        args.append(["n", "kp"] if rng.random() < 0.7 else ["v", 0])
                call = ["g", pname, args]
                wrap = rng.choice(["direct", "direct", "loop", "seq"] if has_sub else ["direct", "direct", "loop", "par", "seqinpar"])
                if wrap == "loop":
                    st = ["loop", self.count(), ["seq", [call]]]
                elif wrap == "par":
                    st = ["par", [call, self.gate(params)]]
                elif wrap == "seqinpar":
                    st = ["par", [["seq", [call, self.gate(params)]], self.gate(params)]]
                elif wrap == "seq":
                    st = ["loop", 1, ["seq", [call, self.gate(params)]]]
                else:
                    st = call
                self.feat["macro level %d calls level %d: %s" % (lvl, lvl - 1, wrap)] += 1
                if rng.random() < 0.3:
                    items = [st]
                    single = "call" if wrap == "direct" else wrap
                else:
                    items = ([self.gate(params)] if rng.random() < 0.3 else []) + [st]
                    # the own parameter AFTER the inner call
                    items.append(["g", rng.choice(["X", "Y", "SX"]), [["n", rng.choice(mine)]]])
                    self.feat["own parameter used after the inner call"] += 1
            if single:
                self.feat["one-statement macro body: " + single] += 1
            self.body.append(["macro", name, [p for p, _ in params], ["seq", items]])
            prev = (name, params, has_sub, single)
            self.chain.append(prev)
        self.hidden = []
        if sub_inner:
            self.feat["subcircuit block reached through %d macro(s)" % D] += 1
        # a separate macro whose body is exactly one loop (to be called inside parallel blocks)
        if rng.random() < 0.5:
            params = [("x", "q")]
            self.body.append(["macro", "rep", ["x"], ["seq", [["loop", self.count(), ["seq", [self.gate(params)]]]]]])
            self.chain.append(("rep", params, False, "loop"))
            self.feat["one-statement macro body: loop"] += 1

    def call(self, m):
        name, params, _hs, _single = m
        args = []
        for p, t in params:
            if t == "q":
                args.append(self.qglobal())
            elif self.regparam:
                args.append(["v", self.rng.randrange(self.regparam_len)])
            else:
                args.append(self.iarg(()))
        return ["g", name, args]

    # ---- body
    def make_body(self):
        rng = self.rng
        out = []
        # every alias at 0 and at size-1
        for arr in self.order:
            L = len(self.arrays[arr])
            for k in sorted({0, L - 1}):
                if rng.random() < 0.8:
                    out.append(["g", rng.choice(["X", "Y"]), [self.qglobal(arr, k)]])
        for s in sorted(self.singles):
            out.append(["g", "X", [["n", s]]])
        # half of the programs with a chain call only its OUTERMOST macro (the inner ones are reached through it alone);
        # most of those whose chain holds a subcircuit block then have no other subcircuit block anywhere
        only_top = bool(self.chain) and rng.random() < 0.5
        chain_sub = any(m[2] for m in self.chain)
        no_other_sub = only_top and chain_sub and rng.random() < 0.8
        if only_top:
            self.feat["only the outermost macro of the chain is called"] += 1
        if no_other_sub:
            depth = len([m for m in self.chain if m[0] != "rep"])
            self.feat["the only subcircuit block is %d macro level(s) below the body" % depth] += 1
        outer = [m for m in self.chain if m[0] != "rep"][-1:] + [m for m in self.chain if m[0] == "rep"]
        for m in (outer if only_top else self.chain):
            top = self.chain[-1] if rng.random() < 0.5 and not only_top else m
            for m_ in {id(m): m, id(top): top}.values():
                ctxs = ["top", "loop", "topseq"] if m_[2] else ["top", "loop", "par", "par", "parseqpar", "sub", "topseq"]
                if no_other_sub:
                    ctxs = [x for x in ctxs if x != "sub"]
                ctx = rng.choice(ctxs)
                c = self.call(m_)
                self.feat["call of %s in: %s" % ("a macro with a subcircuit" if m_[2] else "a macro", ctx)] += 1
                if m_[3]:
                    self.feat["call of a one-statement macro (%s) in: %s" % (m_[3], ctx)] += 1
                if ctx == "top":
                    out.append(c)
                elif ctx == "loop":
                    out.append(["loop", self.count(), ["seq", [c] + ([self.gate()] if rng.random() < 0.5 else [])]])
                elif ctx == "topseq":
                    out.append(["seq", [self.gate(), c]])
                elif ctx == "par":
                    out.append(["par", [c, self.gate()] if rng.random() < 0.5 else [self.gate(), c]])
                elif ctx == "parseqpar":
                    out.append(["par", [["seq", [["par", [c, self.gate()]], self.gate()]], self.gate()]])
                else:
                    out.append(["sub", None if rng.random() < 0.5 else self.count(True), [self.gate(), c]])
        # nesting without macros
        for _ in range(rng.choice([0, 1, 1, 2])):
            c = rng.random()
            if c < 0.4:
                out.append(["par", [["seq", [["par", [self.gate(), self.gate()]], self.gate()]], self.gate()]])
                self.feat["parallel in sequential in parallel"] += 1
            elif c < 0.7:
                out.append(["loop", self.count(), ["seq", [["par", [["seq", [self.gate(), self.gate()]], self.gate()]]]]])
            elif not no_other_sub:
                out.append(["sub", None if rng.random() < 0.5 else self.count(True), [["par", [self.gate(), self.gate()]], self.gate()]])
        rest = out[:]
        if rng.random() < 0.5:
            rng.shuffle(rest)
        self.body += rest

    def make(self):
        self.make_header()
        self.make_macros()
        self.make_body()
        return {"header": self.header, "body": self.body}

    def info(self):
        idx = sorted(n for n, r in self.role.items() if r == "idx")
        return {"idx": idx, "count": sorted(n for n, r in self.role.items() if r in ("count", "subcount")),
                "subcount": sorted(n for n, r in self.role.items() if r == "subcount"),
                "int": sorted(n for n, r in self.role.items() if r == "int"),
                "float": sorted(n for n, r in self.role.items() if r == "float"),
                "lets": dict(self.lets), "regparam": self.regparam or self.shadow, "feat": dict(self.feat)}


def build_spec(gseed, focus):
    g = Gen(random.Random("c10_deep:spec:%s" % gseed), focus)
    spec = g.make()
    return spec, g.info()


# ------------------------------------------------------------------------------------------------ overrides

def int_kind(rng, v):
    kinds = ["int", "int", "float", "np.int64", "np.int32", "np.float64"]
    if v in (0, 1):
        kinds += ["bool", "bool"]
    return rng.choice(kinds)


def gen_ov(rng, info, spec):
    free, idx = [], []
    lets = info["lets"]
    for n in sorted(lets):
        v = lets[n]
        if n in info["idx"]:
            if rng.random() < 0.55:
                nv = v if rng.random() < 0.6 else v + rng.choice([1, -1])
                idx.append([n, int_kind(rng, nv), nv])
        elif n in info["count"]:
            if rng.random() < 0.6:
                nv = rng.choice([1, 2, 3, v] if n in info["subcount"] else [0, 1, 2, 3, v])
                free.append([n, int_kind(rng, nv), nv])
        elif n in info["int"]:
            if rng.random() < 0.6:
                nv = rng.choice([0, 1, 2, 5, v])
                free.append([n, rng.choice(["int", "np.int64", "bool"] if nv in (0, 1) else ["int", "np.int64", "np.int32"]), nv])
        elif rng.random() < 0.6:
            nv = rng.choice([v * 2, v + 0.5, 0.25, -v, 1.0, 7.0])
            free.append([n, rng.choice(["float", "float", "np.float64"]), nv])

    def valid(cand):
        try:
            S.ref_meaning(spec, TR.ov_plain(free + cand), False)
            return True
        except S.RefError:
            return False
    if idx and not valid(idx):
        same = [o for o in idx if o[2] == lets[o[0]]]
        other = [o for o in idx if o[2] != lets[o[0]] and valid(same + [o])][:1]
        idx = same + other
        if not valid(idx):
            idx = same
    return free, idx


# ------------------------------------------------------------------------------------------------ one case

def make_acc():
    acc = TR.Acc()
    acc.oracle = {k: {"cases": 0, "failures": []} for k in ORACLES}
    return acc


def meaning(c):
    return TR.meaning(c)


def process(acc, gp, thorough):
    spec, info = build_spec(gp["gseed"], gp["focus"])
    text = S.spec_text(spec)
    rng = random.Random("c10_deep:hist:%s" % gp["gseed"])
    free, idx = gen_ov(rng, info, spec)
    histories = S.gen_histories(rng, free, idx, thorough)
    gates = GATES if gp["gates"] == "injected" else None
    changed_idx = {o[0] for o in idx if o[2] != info["lets"][o[0]]}
    refs = {}

    def ref_of(sp, key0):
        def ref(ov, subs):
            key = (key0, json.dumps(ov, sort_keys=True, default=str), subs)
            if key not in refs:
                try:
                    refs[key] = ("ok", TR.prune(S.ref_meaning(sp, TR.ov_plain(ov), subs)))
                except S.RefError as e:
                    refs[key] = ("bad", str(e))
            return refs[key]
        return ref
    ref = ref_of(spec, "main")

    acc.dist["focus:" + gp["focus"]] += 1
    acc.dist["gates:" + gp["gates"]] += 1
    r = S._guard(lambda: TR.parse(text, gates))
    if r[0] != "ok":
        acc.dist["plain parse refused:" + r[1]] += 1
        acc.check("only_jaqal_errors", r[1] == "JaqalError", TR.make_case(gp, text, "only_jaqal_errors", step="plain parse"),
                  f"the plain parse raises {r[1]}: {r[2]}")
        want0 = ref([], False)
        # the programs are valid by construction (reference): the parser may not refuse them … but that is C14's
        # business, not this property's: counted only
        if want0[0] == "ok":
            acc.dist["plain parse refuses a program the reference accepts (not judged here)"] += 1
        return
    c = r[1]
    m0 = meaning(c)
    want0 = ref([], False)
    if want0[0] != "ok" or m0 != want0:
        acc.dist["plain parse does not have the reference meaning (case skipped)"] += 1
        return
    sig0 = S.obj_sig(c)
    acc.nontrivial.add(text)
    for k, v in info["feat"].items():
        acc.dist["feature:" + k] += v
    if len(acc.samples) < 4:
        acc.samples.append(TR.make_case(gp, text, None, histories=histories[:2]))

    # ---- the sibling: same names, bound differently
    sib = None
    if gp["sibling"]:
        sspec, sinfo = build_spec(str(gp["gseed"]) + ":sibling", gp["focus"])
        stext = S.spec_text(sspec)
        rs = S._guard(lambda: TR.parse(stext, gates))
        sref = ref_of(sspec, "sib")
        if rs[0] == "ok" and sref([], False)[0] == "ok" and meaning(rs[1]) == sref([], False):
            sib = {"c": rs[1], "text": stext, "ref": sref, "sig": S.obj_sig(rs[1]), "regparam": sinfo["regparam"]}
            acc.dist["sibling program in lockstep"] += 1

    def run_history(h):
        cur = c
        scur = sib["c"] if sib else None
        ov_in_force, subs, let_seen, table_kept = [], False, False, True
        for i, p in enumerate(h):
            prefix = h[: i + 1]
            if scur is not None:
                # the sibling goes first through the same kind of pass (no overrides)
                sp = ["let", [], "default"] if p[0] == "let" else p
                rs = S._guard(lambda: TR.apply_pass(sp, scur, gates))
                if rs[0] != "ok":
                    scur = None
                    if rs[1] != "JaqalError":
                        acc.check("only_jaqal_errors", False, TR.make_case(gp, text, "only_jaqal_errors", prefix=prefix, stream="sibling", sibling=sib["text"]),
                                  f"{p[0]} on the sibling raises {rs[1]}: {rs[2]}")
                else:
                    scur = rs[1]
                    swant = sib["ref"]([], subs or p[0] == "subs")
                    sgot = meaning(scur)
                    if swant[0] == "ok":
                        ok = sgot == swant
                        acc.check("meaning_after_history", ok, TR.make_case(gp, text, "meaning_after_history", prefix=prefix, stream="sibling", sibling=sib["text"]),
                                  "" if ok else f"the SIBLING's result of {TR.hist_label(prefix)} differs from its reference: {S.first_diff(sgot[1], swant[1]) if sgot[0] == 'ok' else sgot[1]}")
            rr = S._guard(lambda: TR.apply_pass(p, cur, gates))
            acc.dist["pass:%s:%s" % (p[0], "ok" if rr[0] == "ok" else rr[1])] += 1
            if rr[0] != "ok":
                if p[0] == "text":
                    break
                acc.check("only_jaqal_errors", rr[1] == "JaqalError", TR.make_case(gp, text, "only_jaqal_errors", prefix=prefix),
                          f"{p[0]} raises {rr[1]}: {rr[2]}")
                if rr[1] == "JaqalError":
                    if any(o[0] in changed_idx for o in (p[1] if p[0] == "let" else ov_in_force)):
                        acc.dist["refused under value-changing overrides of index lets (not judged)"] += 1
                        break
                    expected = p[0] == "map" and info["regparam"] and table_kept
                    if expected:
                        acc.dist["fill_in_map not applicable (parameter index / shadowed register)"] += 1
                    acc.check("applicable", expected, TR.make_case(gp, text, "applicable", prefix=prefix),
                              f"{p[0]} refuses the result of {TR.hist_label(h[:i]) or 'the plain parse'}: {rr[2]}")
                break
            acc.oracle["applicable"]["cases"] += 1
            acc.oracle["only_jaqal_errors"]["cases"] += 1
            if p[0] == "macros" and not p[1]:
                table_kept = False
            nxt = rr[1]
            if p[0] == "let" and not let_seen:
                let_seen = True
                ov_in_force = p[1]
            if p[0] == "subs":
                subs = True
            want = ref(ov_in_force, subs)
            got = meaning(nxt)
            if want[0] == "ok":
                ok = got == want
                acc.check("meaning_after_history", ok, TR.make_case(gp, text, "meaning_after_history", prefix=prefix),
                          "" if ok else (f"the result of {TR.hist_label(prefix)} has no meaning: {got[1]}" if got[0] != "ok" else
                                         f"the result of {TR.hist_label(prefix)} differs from the reference at {S.first_diff(got[1], want[1])} (result vs reference)"))
            if p[0] != "text":
                r2 = S._guard(lambda: TR.apply_pass(p, nxt, gates))
                case = TR.make_case(gp, text, "idempotent", prefix=prefix)
                if r2[0] != "ok":
                    acc.check("idempotent", False, case, f"the second application of {p[0]} raises {r2[1]}: {r2[2]}")
                else:
                    eq = bool(r2[1] == nxt) and bool(nxt == r2[1])
                    same = S.obj_sig(r2[1]) == S.obj_sig(nxt)
                    acc.check("idempotent", eq and same, case, f"{p[0]} twice vs once: ==: {eq}, same structure: {same}")
                legal(acc, gp, text, gates, nxt, got, "legal_after_pass", TR.hist_label(prefix), prefix=prefix)
            cur = nxt

    for h in histories:
        acc.dist["history:" + TR.hist_label(h)] += 1
        run_history(h)

    combos = TR.FLAG_COMBOS if thorough else rng.sample(TR.FLAG_COMBOS, 3)
    for em, el, elm in combos:
        ovk = rng.choice(["absent", "none", "empty", "given", "given", "given"])
        ov = (list(free) + list(idx)) if ovk == "given" else []
        finfo = dict(info, idx=sorted(changed_idx))
        TR.check_flags(acc, gp, text, gates, c, {"expand_macro": em, "expand_let": el, "expand_let_map": elm, "override": ovk, "ov": ov}, ref, finfo)

    # ---- an integer let overridden by a non-integral float
    cands = [n for n in info["idx"] + info["count"]]
    if cands:
        n = rng.choice(cands)
        bad = info["lets"][n] + rng.choice([0.5, 0.25, -0.5])
        what = {"let": n, "value": bad}
        a = S._guard(lambda: fill_in_let(c, {n: bad}))
        b = S._guard(lambda: TR.parse(text, gates, expand_let=True, override_dict={n: bad}))
        acc.dist["fractional override of an integer let:%s/%s" % ("circuit" if a[0] == "ok" else a[1], "circuit" if b[0] == "ok" else b[1])] += 1
        case = TR.make_case(gp, text, "refused_or_legal", **what)
        ca, cb = (None if a[0] == "ok" else a[1]), (None if b[0] == "ok" else b[1])
        acc.check("refused_or_legal", ca == cb, case, f"fill_in_let: {ca or 'a circuit'}, parse(expand_let=True, override_dict): {cb or 'a circuit'}")
        for x, who in ((a, "fill_in_let"), (b, "parse(expand_let=True)")):
            if x[0] != "ok":
                acc.check("only_jaqal_errors", x[1] == "JaqalError", TR.make_case(gp, text, "only_jaqal_errors", **what), f"{who} raises {x[1]}: {x[2]}")
            else:
                legal(acc, gp, text, gates, x[1], meaning(x[1]), "refused_or_legal", f"{who} with {n}={bad}", **what)

    sig1 = S.obj_sig(c)
    m1 = meaning(c)
    acc.check("input_not_modified", sig1 == sig0 and m1 == m0, TR.make_case(gp, text, "input_not_modified"),
              f"the plain parse changed under the passes: same structure {sig1 == sig0}, same meaning {m1 == m0}")
    if sib:
        ok = S.obj_sig(sib["c"]) == sib["sig"]
        acc.check("input_not_modified", ok, TR.make_case(gp, text, "input_not_modified", stream="sibling", sibling=sib["text"]),
                  "the sibling's plain parse changed under the passes")


def legal(acc, gp, text, gates, circ, got, oracle, label, **what):
    case = TR.make_case(gp, text, oracle, **what)
    if got[0] != "ok":
        acc.check(oracle, False, case, f"the result of {label} has no meaning: {got[1]}")
        return
    rt = S._guard(lambda: generate_jaqal_program(circ))
    if rt[0] != "ok":
        acc.check(oracle, False, case, f"the generator raises {rt[1]} on the result of {label}: {rt[2]}")
        return
    rp = S._guard(lambda: TR.parse(rt[1], gates))
    if rp[0] != "ok":
        acc.check(oracle, False, case, f"the text generated from the result of {label} is rejected: {rp[1]}: {rp[2]}; text: {rt[1][:1500]!r}")
        return
    back = meaning(rp[1])
    ok = back == got
    acc.check(oracle, ok, case, "" if ok else f"re-parsed meaning differs at {S.first_diff(back[1], got[1]) if back[0] == 'ok' else back}; text: {rt[1][:1500]!r}")


# ------------------------------------------------------------------------------------------------ run / replay

def gen_params(seed, n, thorough):
    rng = random.Random("c10_deep:%d:%s" % (seed, thorough))
    out = []
    for i in range(n):
        out.append({"gseed": rng.randrange(1 << 40), "focus": ["slice", "macro", "both"][i % 3],
                    "gates": "injected" if rng.random() < 0.6 else "none", "sibling": i % 3 == 2 or rng.random() < 0.15})
    return out


def run(seed: int, n: int, driver: str = DEFAULT_DRIVER, thorough: bool = False) -> dict:
    _imports()
    acc = make_acc()
    for gp in gen_params(seed, n, thorough):
        process(acc, gp, thorough)
    return {"corr": {}, "oracle": acc.oracle, "distribution": dict(sorted(acc.dist.items())),
            "samples": acc.samples, "nontrivial": len(acc.nontrivial)}


def replay(case: dict, driver: str = DEFAULT_DRIVER) -> dict:
    """re-run the program of a failure entry (regenerated from its generator parameters) through all the checks of both
    tiers; the verdict is that of the oracle named in the entry"""
    _imports()
    fails, ncases = [], 0
    for thorough in (False, True):
        acc = make_acc()
        process(acc, case["gen"], thorough)
        for name, o in acc.oracle.items():
            if case.get("oracle") in (None, name):
                ncases += o["cases"]
                fails += [f for f in o["failures"] if f not in fails]
    exact = [f for f in fails if f["case"]["what"] == case.get("what")]
    fails = exact or fails
    return {"model": None, "impl": None, "oracle_ok": (not fails) if ncases else None,
            "detail": "; ".join(f["case"]["oracle"] + " " + json.dumps(f["case"]["what"], default=str)[:300] + ": " + f["detail"] for f in fails)[:4000]}


def main():
    ap = argparse.ArgumentParser()
    ap.add_argument("--seed", type=int, default=0)
    ap.add_argument("--n", type=int, default=150)
    ap.add_argument("--thorough", action="store_true")
    ap.add_argument("--json", action="store_true")
    a = ap.parse_args()
    res = run(a.seed, a.n, None, a.thorough)
    bad = 0
    for k, r in res["oracle"].items():
        nf = len(r["failures"]) + r.get("more_failures", 0)
        bad += nf
        print(f"oracle {k:26s} cases {r['cases']:6d}  failures {nf}")
    print("nontrivial", res["nontrivial"])
    if a.json:
        print(json.dumps(res, indent=1, default=str))
    else:
        for k, v in res["distribution"].items():
            print(f"  {k}: {v}")
        for k, r in res["oracle"].items():
            for f in r["failures"][:3]:
                print("FAILURE", k, json.dumps({"gen": f["case"]["gen"], "what": f["case"]["what"]}, default=str)[:1500], f["detail"][:1500])
                print(f["case"]["text"])
    sys.exit(1 if bad else 0)


if __name__ == "__main__":
    main()
