#!/venv/bin/python
"""C03 - SCALE, unusual IDENTIFIERS and DEFAULTS: the emulator state is the ordered product of the gate matrices on |0..0>.

The other C03 streams (emu_diff, walk_diff, c03_gatesets, c03_edge) keep every program small: registers of at most 6
(8) qubits, at most 40 executed gates, macro nesting at most 6, a handful of lets / aliases with one-letter names, the
default arguments of every public function.  A regression that only shows beyond a SIZE (a faster path used from 10
qubits on, a cache of 64 entries, a depth limit, a name buffer of 255 characters ...) is invisible to them.  This stream
grows ONE dimension at a time across the thresholds 8, 16, 32, 64, 128, 256 (1000 where cheap) - and their
neighbours 33 / 34 / 49 / 65 / 100 / 130 / 255 / 257 - while everything else stays small:

  scale_register     registers of 2 .. 14 qubits (literal or let-sized); 2- and 3-qubit gates that are NOT symmetric
                     under exchange of their qubits (CX, controlled rotation, Toffoli, generic unitaries) on tuples that
                     span low and high qubits in BOTH orders, directly and through aliases (slices of the top, stride 2,
                     reversed); every involved qubit is first put in a generic superposition so that a wrong bit order
                     changes the state macroscopically.  Systematic sweep: size x gate x orientation.
  scale_statements   8 .. 1000 gate statements in one block: top level, `{}` block, loop body, macro body, subcircuit
                     block, one branch of a parallel block, two subcircuits (the second starting at a high index).
  scale_loops        8 .. 1000 iterations: literal / let / macro-argument counts, two nested loops whose product is the
                     size, a loop inside a macro called in a loop (generic gates: U^K is distinctive).
  scale_depth        nesting depth 8 .. 128 (256 for blocks): nested loops, alternating sequential / parallel blocks,
                     loop-parallel-sequential triples; gates BEFORE and AFTER the nested block at every level.
  scale_macros       chains of 8 .. 130 macros (each calls the previous one with its qubit arguments swapped or not,
                     passes an angle through and adds its own gate), 8 .. 1000 macro definitions of which a few are
                     called, macros with 8 .. 256 parameters.
  scale_aliases      chains of 8 .. 130 aliases (whole / reversed / explicit slices of the previous alias), used at the
                     end, in the middle and through a named qubit.
  scale_header       8 .. 1000 lets and as many aliases, a few of them used (first, last, at the thresholds) as angles,
                     integer arguments, indices and qubits; override dictionaries with as many entries.
  scale_subcircuits  8 .. 1000 subcircuits (prepare_all/measure_all pairs and `subcircuit` blocks), each with its own
                     angle: every reported state is checked.
  scale_parallel     parallel blocks of 2 .. 14 branches (one qubit each, register as wide as the block).
  names_long         identifiers of 8 .. 1000 (5000) characters for lets, register, aliases, macros, macro parameters
                     and native gates; PAIRS that agree on the first L-1 characters and carry different values.
  names_spelling     legal but unusual spellings: dotted (qualified) names `cal.x`, `x.cal`, `a.b.c`, pairs that differ
                     only by a dotted prefix / suffix / underscore / case, dunder names (`__macro__`, `__c10`, `__r0`,
                     `__in_context__`), prefixes and extensions of keywords and of prepare_all / measure_all, names that
                     look like the library's markers (`I_X` as a gate WITH a unitary, `X_stretched`, S-expression
                     commands) - for lets, the register, aliases, macros, macro parameters and native gates, every
                     name bound to its own value / matrix.
  api_defaults       one moderate program through every combination of the optional arguments: run_jaqal_circuit
                     (default | backend=None | backend=UnitarySerializedEmulator() | emulator_backend= | positional |
                     force_sim=True), run_jaqal_string / run_jaqal_file / parse_jaqal_file, gate set injected or loaded
                     by `from .module usepulses *` (once, twice, two modules with disjoint gates, plus inject_pulses),
                     override_dict absent / None / {} / given, expand_let / expand_let_map / expand_macro /
                     return_usepulses, passes applied beforehand (expand_macros with preserve_definitions False / True,
                     fill_in_let() / (None) / ({}), expand_subcircuits, twice), numpy.float64 / numpy.int64 values in
                     the S-expression and builder forms.

A case is a SMALL description {"dim", "size", "variant", "rs", "form", "api"}; the program is regenerated from it
deterministically (`make_ap`), rendered as Jaqal text, as an S-expression for `circuitbuilder.build`, or through
`CircuitBuilder`.  The REFERENCE is this script's own interpreter (own alias resolution, macro binding by name, loop
unrolling) followed by an index-arithmetic application of each gate matrix with numpy.

Oracles (one per dimension, all stating the equation of C03 on the real code; `corr` is empty):
  for every subcircuit of the result: `state_vector` == U_k ... U_1 e0 (1e-9), U_j the matrix of the j-th executed gate
  at its resolved numeric arguments on its resolved qubits (bit j of the matrix index = j-th qubit argument, bit i of
  the state index = register qubit i); `simulated_probability_by_int` == |amplitude|^2; as many subcircuits as written;
  idle gates / gates without unitary are skipped.  A valid program that raises or hangs is a failure.

Deliberately NOT generated: nested loops deeper than 100 and macro chains longer than 130 (the library documents
"Program is nested too deeply" for what exceeds Python's recursion limit - a limit of its own, about 128+ levels),
registers beyond 14 qubits, numpy integers as INT gate arguments / loop counts (rejected by the type check with
JaqalError), numeric-looking strings (not numeric arguments), two usepulses modules that define the SAME gate name
differently (which one wins is not C03's business).

Every run contains a systematic sweep (each family at each of its threshold sizes - one variant per size in the quick
tier, every variant x every surface form in the thorough one; register size x gate x orientation; the API combinations)
followed by `n` random cases.  Expensive corners are rationed: alias chains beyond 66 (the library resolves a qubit
through a chain in far more than linear time) and registers of 13 / 14 qubits appear a few times per run only.

    PYTHONPATH=/verif /venv/bin/python -m harness.agents.c03_scale [--seed S] [--count N] [--thorough]
    recommended: quick n=120 (about 300 cases, 10 - 15 s), thorough n=400 (about 2150 cases, 100 - 110 s).
"""
import argparse
import atexit
import hashlib
import json
import math
import os
import random
import shutil
import signal
import sys
import tempfile
import time
import warnings
import zlib

import numpy as np

try:
    from harness import timeouts as T
except ImportError:  # run as a plain script
    sys.path.insert(0, os.path.dirname(os.path.dirname(os.path.dirname(os.path.abspath(__file__)))))
    from harness import timeouts as T

DEFAULT_DRIVER = "/verif/lean/.lake/build/bin/jaqal-model"
TOL = 1e-9
DIMS = ("register", "statements", "loops", "depth", "macros", "aliases", "header", "subcircuits", "parallel",
        "names_long", "names_spelling", "api_defaults")


def oracle_name(dim):
    return dim if dim.startswith(("names_", "api_")) else "scale_" + dim


ORACLES = tuple(oracle_name(d) for d in DIMS)


# ------------------------------------------------------------------ gate kinds (matrices are functions of VALUES)
def _generic(d, tag):
    rs = np.random.RandomState(zlib.crc32(tag.encode()))
    q, _ = np.linalg.qr(rs.normal(size=(d, d)) + 1j * rs.normal(size=(d, d)))
    return q


_X = np.array([[0, 1], [1, 0]], dtype=complex)
_SX = np.array([[(1 + 1j) / 2, (1 - 1j) / 2], [(1 - 1j) / 2, (1 + 1j) / 2]])
_S = np.array([[1, 0], [0, 1j]], dtype=complex)
_PH = [1, 1j, -1, -1j]
_CX = np.zeros((4, 4), dtype=complex)  # control = first qubit (bit 0), target = second (bit 1)
_CX[0, 0] = _CX[2, 2] = _CX[3, 1] = _CX[1, 3] = 1
_CZ = np.diag([1, 1, 1, -1]).astype(complex)
_CCX = np.eye(8, dtype=complex)  # controls = bits 0, 1; target = bit 2
_CCX[[3, 7], :] = _CCX[[7, 3], :]
_GEN = {}


def _gen(d, tag):
    if (d, tag) not in _GEN:
        _GEN[(d, tag)] = _generic(d, tag)
    return _GEN[(d, tag)]


def u_R(t):
    t = float(t)
    c, s = np.cos(t / 2), np.sin(t / 2)
    return np.array([[c, -1j * s], [-1j * s, c]], dtype=complex)


def u_U(theta, phi):
    theta, phi = float(theta), float(phi)
    c, s = np.cos(theta / 2), np.sin(theta / 2)
    return np.array([[c, -1j * np.exp(-1j * phi) * s], [-1j * np.exp(1j * phi) * s, c]], dtype=complex)


def u_P(k):
    return np.array([[1, 0], [0, _PH[int(k) % 4]]], dtype=complex) @ _SX


def u_PF(k):
    return np.array([[1, 0], [0, np.exp(1j * float(k))]], dtype=complex) @ _SX


def u_CR(th):
    m = np.eye(4, dtype=complex)
    r = u_R(th)
    for a in (0, 1):
        for b in (0, 1):
            m[1 + 2 * a, 1 + 2 * b] = r[a, b]  # acts on bit 1 (second qubit) when bit 0 (first qubit) is set
    return m


_MPW = [1.0, 1.7, 2.3, 3.1, 4.3, 5.9, 6.7, 7.1, 8.3, 9.7, 10.9, 12.1]


def u_MP(*a):
    """twelve FLOAT arguments; any two of them exchanged change the matrix"""
    t1 = sum(w * float(x) for w, x in zip(_MPW, a))
    t2 = sum(w * float(x) for w, x in zip(reversed(_MPW), a))
    return u_U(t1, t2)


_Q = ("q", "q")
_FIXED = {
    "X": ([_Q], lambda: _X), "SX": ([_Q], lambda: _SX), "S": ([_Q], lambda: _S), "N": ([_Q], None),
    "R": ([_Q, ("a", "f")], u_R), "PF": ([("k", "f"), ("a", "q")], u_PF), "P": ([_Q, ("k", "i")], u_P),
    "U": ([_Q, ("theta", "f"), ("phi", "f")], u_U),
    "CX": ([("src", "q"), ("dst", "q")], lambda: _CX), "CZ": ([("a", "q"), ("b", "q")], lambda: _CZ),
    "CR": ([("c", "q"), ("th", "f"), ("a", "q")], u_CR),
    "CCX": ([("a", "q"), ("b", "q"), ("t", "q")], lambda: _CCX),
    "MP": ([(f"a{j}", "f") for j in range(6)] + [_Q] + [(f"a{j}", "f") for j in range(6, 12)], u_MP),
}


def kind_spec(kind):
    """kind -> ([(parameter name, q | i | f)], matrix function | None).  `V1:k` / `V2:k` / `V3:k` are fixed generic
    unitaries on 1 / 2 / 3 qubits (not symmetric under any exchange of their qubits)."""
    if kind in _FIXED:
        return _FIXED[kind]
    if kind[:1] == "V" and kind[2:3] == ":":
        k = int(kind[1])
        m = _gen(1 << k, kind)
        return ([("q", "q")] if k == 1 else [("b", "q"), ("a", "q")] if k == 2 else [("z", "q"), ("y", "q"), ("x", "q")]), (lambda: m)
    raise KeyError(kind)


BASE = {"X": "X", "SX": "SX", "S": "S", "N": "N", "R": "R", "PF": "PF", "P": "P", "U": "U", "CX": "CX", "CZ": "CZ",
        "CR": "CR", "CCX": "CCX", "MP": "MP", "H1": "V1:0", "H2": "V1:1", "NS": "V2:0", "T3": "V3:0"}
BOUNDS = ("prepare_all", "measure_all")

_L = {}


def _lib():
    if not _L:
        os.environ["JAQALPAQ_RUN_EMULATOR"] = "1"
        from jaqalpaq.core import GateDefinition, Parameter, ParamType
        from jaqalpaq.core.gatedef import BusyGateDefinition, add_idle_gates
        from jaqalpaq.core.circuitbuilder import build, CircuitBuilder, SequentialBlockBuilder, ParallelBlockBuilder
        from jaqalpaq.core.algorithm import fill_in_let, expand_macros, expand_subcircuits
        from jaqalpaq.parser import parse_jaqal_string, parse_jaqal_file
        from jaqalpaq.emulator import run_jaqal_circuit, run_jaqal_string, run_jaqal_file
        from jaqalpaq.emulator.unitary import UnitarySerializedEmulator
        from jaqalpaq.error import JaqalError

        _L.update(locals())
        _L["sets"] = {}
    return _L


def gate_set(gset, idle=False):
    """the library gate set {name: GateDefinition} of a {name: kind} description (cached: same description, same objects)"""
    L = _lib()
    key = (json.dumps(gset, sort_keys=True), bool(idle))
    if key not in L["sets"]:
        PT = L["ParamType"]
        kinds = {"q": PT.QUBIT, "i": PT.INT, "f": PT.FLOAT}
        d = {}
        for name in gset:
            params, fn = kind_spec(gset[name])
            d[name] = L["GateDefinition"](name, [L["Parameter"](pn, kinds[k]) for pn, k in params], ideal_unitary=fn)
        for b in BOUNDS:
            d[b] = L["BusyGateDefinition"](b, [])
        if idle:
            d = L["add_idle_gates"](d)
        L["sets"][key] = d
    return L["sets"][key]


def gate_set_from_json(text, idle=False):
    """(used by the generated usepulses modules)"""
    return gate_set(json.loads(text), idle)


# ------------------------------------------------------------------ numbers
def is_num(a):
    return isinstance(a, (int, float)) and not isinstance(a, bool)


def num_text(v):
    """a Jaqal literal with exactly this value"""
    if isinstance(v, int):
        return str(v)
    s = repr(float(v))
    if "e" in s:
        m, e = s.split("e")
        if "." not in m:
            m += ".0"
        s = m + "e" + e
    return s


def integral(v):
    return isinstance(v, int) or (isinstance(v, float) and math.isfinite(v) and v == int(v))


# ------------------------------------------------------------------ the reference interpreter
# program description `ap`:
#   {"gset": {gate name: kind}, "idle": bool, "lets": [[name, number]], "reg": [name, int | let name],
#    "maps": [[name, "whole", src] | [name, "item", src, index] | [name, "slice", src, lo, hi, step]]
#            (index / bounds: int | let name | null for an omitted bound),
#    "macros": [[name, [parameter names], block]], "subs": [{"style": "plain" | "block", "items": [item]}],
#    "override": {let name: number} | null}
#   item : ["g", gate or macro name, [arg]] | ["loop", count, block] | block
#   block: ["seq", [item]] | ["par", [item]]     (the items of a parallel block are its branches)
#   arg  : number | name (let, alias, macro parameter) | ["idx", register name or macro parameter, int | name]
class Invalid(Exception):
    pass


def interpret(ap, use_override=True):
    """-> {"n": register size, "subs": [[(gate name, [qubit], [classical value])]]}; raises Invalid."""
    lets = {name: v for name, v in ap["lets"]}
    if len(lets) != len(ap["lets"]):
        raise Invalid("let defined twice")
    if use_override and ap.get("override"):
        for name, v in ap["override"].items():
            if name not in lets:
                raise Invalid("override of an unknown let")
            lets[name] = v
    gset = ap["gset"]
    idle = bool(ap.get("idle"))

    def small(v, what):
        if isinstance(v, str):
            if v not in lets:
                raise Invalid(f"{what}: unknown name {v[:40]}")
            v = lets[v]
        if not integral(v):
            raise Invalid(f"{what} {v!r} is not integral")
        return int(v)

    rname, rsize = ap["reg"]
    n = small(rsize, "register size")
    if not 1 <= n <= 14:
        raise Invalid("register size")
    if rname in lets:
        raise Invalid("register name is a let")
    regs = {rname: list(range(n))}
    qubits = {}
    for m in ap["maps"]:
        name, kind, src = m[0], m[1], m[2]
        if name in regs or name in qubits or name in lets or src not in regs:
            raise Invalid(f"map {name[:40]}")
        base = regs[src]
        if kind == "whole":
            regs[name] = list(base)
        elif kind == "item":
            k = small(m[3], "index")
            if not 0 <= k < len(base):
                raise Invalid("alias index out of range")
            qubits[name] = base[k]
        else:
            lo = 0 if m[3] is None else small(m[3], "slice start")
            hi = len(base) if m[4] is None else small(m[4], "slice stop")
            st = 1 if m[5] is None else small(m[5], "slice step")
            if st == 0 or lo < 0 or hi > len(base) or hi < -1:
                raise Invalid("slice")
            idx = list(range(lo, hi, st))
            if not idx or any(not 0 <= k < len(base) for k in idx):
                raise Invalid("slice empty or out of range")
            regs[name] = [base[k] for k in idx]
    macros = {}
    for name, params, body in ap["macros"]:
        if name in macros or name in gset or name in BOUNDS:
            raise Invalid(f"macro {name[:40]} redefines a gate or macro")
        if len(set(params)) != len(params):
            raise Invalid("macro parameter twice")
        macros[name] = (params, body)
    order = {name: k for k, (name, _p, _b) in enumerate(ap["macros"])}

    def spec(name):
        if name in gset:
            return kind_spec(gset[name])
        if idle and name.startswith("I_") and name[2:] in gset:
            return kind_spec(gset[name[2:]])[0], None
        raise Invalid(f"unknown gate {name[:40]}")

    def value(a, env, what):
        if isinstance(a, str):
            if a in env:
                if env[a][0] != "num":
                    raise Invalid(f"{what}: {a[:40]} is not a number")
                return env[a][1]
            if a in lets:
                return lets[a]
            raise Invalid(f"{what}: unknown name {a[:40]}")
        if is_num(a):
            return a
        raise Invalid(f"{what}: not a number")

    def count(a, env, what):
        v = value(a, env, what)
        if not integral(v):
            raise Invalid(f"{what} {v!r} is not integral")
        return int(v)

    def register(a, env):
        if isinstance(a, str):
            if a in env:
                if env[a][0] != "reg":
                    raise Invalid(f"{a[:40]} is not a register")
                return env[a][1]
            if a in regs:
                return regs[a]
        raise Invalid(f"{str(a)[:40]} is not a register")

    def qubit(a, env):
        if isinstance(a, str):
            if a in env:
                if env[a][0] != "q":
                    raise Invalid(f"{a[:40]} is not a qubit")
                return env[a][1]
            if a in qubits:
                return qubits[a]
            raise Invalid(f"{a[:40]} is not a qubit")
        if isinstance(a, list) and len(a) == 3 and a[0] == "idx":
            r = register(a[1], env)
            k = count(a[2], env, "index")
            if not 0 <= k < len(r):
                raise Invalid("index out of range")
            return r[k]
        raise Invalid("not a qubit")

    def anyarg(a, env):
        if isinstance(a, list):
            return ("q", qubit(a, env))
        if is_num(a):
            return ("num", a)
        if a in env:
            return env[a]
        if a in lets:
            return ("num", lets[a])
        if a in regs:
            return ("reg", regs[a])
        if a in qubits:
            return ("q", qubits[a])
        raise Invalid(f"unknown name {a[:40]}")

    budget = [200000]

    def walk(it, env, out, touched, cur):
        """one Python frame per nesting level.  `cur`: index of the macro whose body is walked (a macro can only call
        macros defined before it), or None."""
        t = it[0]
        if t == "g":
            name, args = it[1], it[2]
            if name in macros and (cur is None or order[name] < cur):
                params, body = macros[name]
                if len(params) != len(args):
                    raise Invalid("macro argument count")
                walk(body, {p: anyarg(a, env) for p, a in zip(params, args)}, out, touched, order[name])
                return
            params, _fn = spec(name)
            if len(params) != len(args):
                raise Invalid(f"argument count of {name[:40]}")
            qs, cs = [], []
            for (_pn, kind), a in zip(params, args):
                if kind == "q":
                    qs.append(qubit(a, env))
                elif kind == "i":
                    v = value(a, env, "argument")
                    if not integral(v):
                        raise Invalid("INT argument is not integral")
                    cs.append(v)
                else:
                    v = value(a, env, "argument")
                    if not math.isfinite(float(v)):
                        raise Invalid("FLOAT argument")
                    cs.append(v)
            if len(set(qs)) != len(qs):
                raise Invalid("gate acts on a qubit twice")
            touched.update(qs)
            out.append((name, qs, cs))
            budget[0] -= 1
            if budget[0] < 0:
                raise Invalid("too long")
        elif t == "loop":
            c = count(it[1], env, "loop count")
            if c < 0:
                raise Invalid("negative loop count")
            once = []
            walk(it[2], env, once, touched, cur)
            budget[0] -= c * len(once)
            if budget[0] < 0:
                raise Invalid("too long")
            out.extend(once * c)
        elif t == "seq":
            for x in it[1]:
                walk(x, env, out, touched, cur)
        elif t == "par":
            seen = set()
            for br in it[1]:
                used = set()
                walk(br, env, out, used, cur)
                if used & seen:
                    raise Invalid("parallel branches share a qubit")
                seen |= used
            touched |= seen
        else:
            raise Invalid(f"bad item {t}")

    subs = []
    for sub in ap["subs"]:
        out = []
        walk(["seq", sub["items"]], {}, out, set(), None)
        subs.append(out)
    return {"n": n, "subs": subs}


_IDX = {}


def _tables(n, qs):
    key = (n, tuple(qs))
    if key not in _IDX:
        if len(_IDX) > 4000:
            _IDX.clear()
        idx = np.arange(1 << n)
        sub = np.zeros(1 << n, dtype=np.int64)
        mask = 0
        for j, q in enumerate(qs):
            sub |= ((idx >> q) & 1) << j
            mask |= 1 << q
        base = idx & ~mask
        cols = [base | sum(((col >> j) & 1) << q for j, q in enumerate(qs)) for col in range(1 << len(qs))]
        _IDX[key] = (sub, cols)
    return _IDX[key]


def apply_gate(v, u, qs, n):
    """u on qubits qs of the state v: bit j of a `u` index <-> qs[j], bit i of a state index <-> register qubit i"""
    sub, cols = _tables(n, qs)
    out = np.zeros_like(v)
    for col, src in enumerate(cols):
        out += u[sub, col] * v[src]
    return out


def reference_states(ap, sem):
    n = sem["n"]
    gset, states = ap["gset"], []
    for sub in sem["subs"]:
        v = np.zeros(1 << n, dtype=complex)
        v[0] = 1
        for name, qs, cs in sub:
            fn = kind_spec(gset[name])[1] if name in gset else None
            if fn is None:
                continue
            v = apply_gate(v, np.asarray(fn(*cs), dtype=complex), qs, n)
        states.append(v)
    return states


# ------------------------------------------------------------------ surface form 1: Jaqal text
def _targ(a):
    if isinstance(a, str):
        return a
    if is_num(a):
        return num_text(a)
    return f"{a[1]}[{_targ(a[2])}]"


def _titem(it, sep):
    t = it[0]
    if t == "g":
        return " ".join([it[1]] + [_targ(a) for a in it[2]])
    if t == "loop":
        return f"loop {_targ(it[1])} " + _titem(it[2], sep)
    if t == "seq":
        return "{ " + sep.join(_titem(x, sep) for x in it[1]) + " }"
    return "< " + " | ".join(_titem(x, sep) for x in it[1]) + " >"


def header_text(ap):
    out = [f"let {name} {num_text(v)}" for name, v in ap["lets"]]
    out.append(f"register {ap['reg'][0]}[{_targ(ap['reg'][1])}]")
    for m in ap["maps"]:
        if m[1] == "whole":
            out.append(f"map {m[0]} {m[2]}")
        elif m[1] == "item":
            out.append(f"map {m[0]} {m[2]}[{_targ(m[3])}]")
        else:
            b = ["" if x is None else _targ(x) for x in m[3:6]]
            out.append(f"map {m[0]} {m[2]}[{b[0]}:{b[1]}" + (f":{b[2]}]" if m[5] is not None else "]"))
    return out


def to_text(ap, sep="\n", prefix=()):
    """sep = ";" puts all the statements of the body on ONE line, separated by semicolons"""
    out = list(prefix) + header_text(ap)
    inner = " ; " if sep == "\n" else sep
    for name, params, body in ap["macros"]:
        out.append(" ".join(["macro", name] + list(params)) + " " + _titem(body, inner))
    stm = []
    for sub in ap["subs"]:
        body = [_titem(x, inner) for x in sub["items"]]
        if sub["style"] == "plain":
            stm += ["prepare_all"] + body + ["measure_all"]
        elif sep == "\n":
            stm += ["subcircuit {"] + body + ["}"]
        else:
            stm.append("subcircuit { " + sep.join(body) + " }")
    return "\n".join(out) + "\n" + sep.join(stm) + "\n"


# ------------------------------------------------------------------ surface form 2: S-expression for build()
def _npv(v, on):
    if not on or isinstance(v, bool):
        return v
    if isinstance(v, float):
        return np.float64(v)
    return v


def _sarg(a, npf=False, npi=False):
    if isinstance(a, str):
        return a
    if is_num(a):
        return _npv(a, npf)
    k = a[2]
    if npi and isinstance(k, int):
        k = np.int64(k)
    return ["array_item", a[1], k]


def _sitem(it, npf, npi):
    t = it[0]
    if t == "g":
        return ["gate", it[1]] + [_sarg(a, npf, npi) for a in it[2]]
    if t == "loop":
        return ["loop", it[1], _sitem(it[2], npf, npi)]
    return ["sequential_block" if t == "seq" else "parallel_block"] + [_sitem(x, npf, npi) for x in it[1]]


def to_sexpr(ap, npf=False, npi=False):
    out = ["circuit"] + [["let", name, _npv(v, npf)] for name, v in ap["lets"]]
    out.append(["register", ap["reg"][0], ap["reg"][1]])
    for m in ap["maps"]:
        if m[1] == "whole":
            out.append(["map", m[0], m[2]])
        elif m[1] == "item":
            out.append(["map", m[0], m[2], np.int64(m[3]) if (npi and isinstance(m[3], int)) else m[3]])
        else:
            out.append(["map", m[0], m[2]] + list(m[3:6]))
    for name, params, body in ap["macros"]:
        out.append(["macro", name] + list(params) + [_sitem(body, npf, npi)])
    for sub in ap["subs"]:
        body = [_sitem(x, npf, npi) for x in sub["items"]]
        if sub["style"] == "plain":
            out += [["gate", "prepare_all"]] + body + [["gate", "measure_all"]]
        else:
            out.append(["subcircuit_block", ""] + body)
    return out


# ------------------------------------------------------------------ surface form 3: CircuitBuilder
def via_builder(ap, G, npf=False, npi=False, lazy=False):
    """lazy: header statements given by NAME and left unevaluated until build(); otherwise the objects the builder
    returns (Constant / Register / NamedQubit) are passed on."""
    L = _lib()
    cb = L["CircuitBuilder"](native_gates=G)
    rname, rsize = ap["reg"]
    if lazy:
        for name, v in ap["lets"]:
            cb.let(name, _npv(v, npf), unevaluated=True)
        cb.register(rname, rsize, unevaluated=True)
        for m in ap["maps"]:
            if m[1] == "whole":
                cb.map(m[0], m[2], unevaluated=True)
            elif m[1] == "item":
                cb.map(m[0], m[2], m[3], unevaluated=True)
            else:
                cb.map(m[0], m[2], slice(m[3], m[4], m[5]), unevaluated=True)
    else:
        objs = {}
        for name, v in ap["lets"]:
            objs[name] = cb.let(name, _npv(v, npf))
        ov = lambda x: objs[x] if isinstance(x, str) else x
        objs[rname] = cb.register(rname, ov(rsize))
        for m in ap["maps"]:
            if m[1] == "whole":
                objs[m[0]] = cb.map(m[0], objs[m[2]])
            elif m[1] == "item":
                objs[m[0]] = cb.map(m[0], objs[m[2]], ov(m[3]))
            else:
                objs[m[0]] = cb.map(m[0], objs[m[2]], slice(ov(m[3]), ov(m[4]), ov(m[5])))

    def fill(b, it):
        t = it[0]
        if t == "g":
            b.gate(it[1], *[_sarg(a, npf, npi) for a in it[2]])
        elif t == "loop":
            inner = L["SequentialBlockBuilder"]() if it[2][0] == "seq" else L["ParallelBlockBuilder"]()
            for x in it[2][1]:
                fill(inner, x)
            b.loop(it[1], inner, unevaluated=True)
        else:
            inner = b.block(parallel=t == "par")
            for x in it[1]:
                fill(inner, x)

    for name, params, body in ap["macros"]:
        inner = L["SequentialBlockBuilder"]() if body[0] == "seq" else L["ParallelBlockBuilder"]()
        for x in body[1]:
            fill(inner, x)
        cb.macro(name, list(params), inner, unevaluated=True)
    for sub in ap["subs"]:
        if sub["style"] == "plain":
            cb.gate("prepare_all")
            for x in sub["items"]:
                fill(cb, x)
            cb.gate("measure_all")
        else:
            sb = cb.subcircuit()
            for x in sub["items"]:
                fill(sb, x)
    return cb.build()


# ------------------------------------------------------------------ usepulses modules / program files (temporary)
_TMP = {}


def _tmpdir():
    if "dir" not in _TMP:
        _TMP["dir"] = tempfile.mkdtemp(prefix="c03scale_")
        atexit.register(shutil.rmtree, _TMP["dir"], ignore_errors=True)
    return _TMP["dir"]


def pulse_module(gset, idle):
    """name of a module in the temporary directory whose jaqal_gates.ALL_GATES is gate_set(gset, idle)"""
    text = json.dumps(gset, sort_keys=True)
    name = "c03scale_g" + hashlib.sha256((text + str(bool(idle))).encode()).hexdigest()[:12]
    path = os.path.join(_tmpdir(), name + ".py")
    if not os.path.exists(path):
        root = os.path.dirname(os.path.dirname(os.path.dirname(os.path.abspath(__file__))))
        with open(path, "w") as f:
            f.write("import sys\n"
                    f"if {root!r} not in sys.path:\n    sys.path.append({root!r})\n"
                    "from harness.agents import c03_scale as _m\n\n\n"
                    "class jaqal_gates:\n"
                    f"    ALL_GATES = {{k: v for k, v in _m.gate_set_from_json({text!r}, {bool(idle)!r}).items()}}\n")
    return name


def program_file(text):
    path = os.path.join(_tmpdir(), "p" + hashlib.sha256(text.encode()).hexdigest()[:16] + ".jaqal")
    if not os.path.exists(path):
        with open(path, "w") as f:
            f.write(text)
    return path


# ------------------------------------------------------------------ executing one case on the real code
class Hang(Exception):
    pass


def _alarm(*_a):
    raise Hang()


API_DEFAULT = {"gates": "inject", "parse": "string", "run": "circuit", "run_kw": "default", "parse_kw": [],
               "override_kw": "absent", "pre": [], "np": False, "lazy": False, "sep": "\n"}


def _run_kwargs(L, how):
    if how == "default":
        return (), {}
    if how == "backend_none":
        return (), {"backend": None}
    if how == "backend_obj":
        return (), {"backend": L["UnitarySerializedEmulator"]()}
    if how == "emulator_backend":
        return (), {"emulator_backend": L["UnitarySerializedEmulator"]()}
    if how == "positional":
        return (L["UnitarySerializedEmulator"](), False, None), {}
    if how == "force_sim":
        return (), {"force_sim": True}
    if how == "all_none":
        return (None, False, None), {}
    raise ValueError(how)


def _split(gset):
    """two disjoint halves of a gate set description"""
    names = sorted(gset)
    return {k: gset[k] for k in names[0::2]}, {k: gset[k] for k in names[1::2]}


def norm_api(api, ap):
    """An override dictionary is applied exactly once and BEFORE anything replaces the lets by their declared values:
    by the parser together with expand_let / expand_let_map, or by fill_in_let on a circuit parsed without them."""
    api = dict(API_DEFAULT, **(api or {}))
    if ap.get("override") is not None and api.get("ov_via") != "parse":
        api["parse_kw"] = [k for k in api["parse_kw"] if k not in ("expand_let", "expand_let_map")]
    return api


def run_case(case, ap):
    """-> ExecutionResult (real code only)"""
    L = _lib()
    api = norm_api(case.get("api"), ap)
    idle = bool(ap.get("idle"))
    G = gate_set(ap["gset"], idle)
    ov = ap.get("override")
    form = case["form"]
    args, kw = _run_kwargs(L, api["run_kw"])
    if form == "text":
        prefix, pkw = [], {}
        mode = api["gates"]
        if mode == "inject":
            pkw.update(inject_pulses=G, autoload_pulses=False)
        else:
            if mode == "usepulses_split" and not idle:
                a, b = _split(ap["gset"])
                prefix = [f"from .{pulse_module(a, False)} usepulses *", f"from .{pulse_module(b, False)} usepulses *"]
            else:
                prefix = [f"from .{pulse_module(ap['gset'], idle)} usepulses *"] * (2 if mode == "usepulses_twice" else 1)
            pkw.update(import_path=_tmpdir())
            if mode == "usepulses_and_inject":
                pkw.update(inject_pulses={k: G[k] for k in sorted(G)[0::2]})
        text = to_text(ap, api["sep"], prefix)
        if api["run"] == "string":
            if args:  # (only import_path can be positional here; the rest goes on to run_jaqal_circuit by keyword)
                return L["run_jaqal_string"](text, _tmpdir(), backend=args[0], force_sim=args[1], emulator_backend=args[2])
            return L["run_jaqal_string"](text, import_path=_tmpdir(), **kw)
        if api["run"] == "file":
            path = program_file(text)
            if args:
                return L["run_jaqal_file"](path, _tmpdir(), backend=args[0], force_sim=args[1], emulator_backend=args[2])
            if api.get("file_import_path_default"):
                return L["run_jaqal_file"](path, **kw)  # (the program lies in the directory of the modules)
            return L["run_jaqal_file"](path, import_path=_tmpdir(), **kw)
        for k in api["parse_kw"]:
            pkw[k] = True
        if ov is not None and api.get("ov_via") == "parse":
            pkw["override_dict"] = ov
        elif api["override_kw"] == "none":
            pkw["override_dict"] = None
        elif api["override_kw"] == "empty":
            pkw["override_dict"] = {}
        if api["parse"] == "file":
            c = L["parse_jaqal_file"](program_file(text), **pkw)
        else:
            c = L["parse_jaqal_string"](text, **pkw)
        if "return_usepulses" in api["parse_kw"]:
            c = c[0]
    elif form == "sexpr":
        c = L["build"](to_sexpr(ap, api["np"], api["np"]), inject_pulses=G)
    elif form == "builder":
        c = via_builder(ap, G, api["np"], api["np"], lazy=bool(api.get("lazy")))
    else:
        raise ValueError(form)
    if ov is not None and api.get("ov_via") != "parse":
        c = L["fill_in_let"](c, ov) if api.get("ov_via") == "fill_in_let_positional" else L["fill_in_let"](c, override_dict=ov)
    for p in api["pre"]:
        if p == "expand_macros":
            c = L["expand_macros"](c)
        elif p == "expand_macros_keep":
            c = L["expand_macros"](c, preserve_definitions=True)
        elif p == "fill_in_let":
            c = L["fill_in_let"](c)
        elif p == "fill_in_let_none":
            c = L["fill_in_let"](c, None)
        elif p == "fill_in_let_empty":
            c = L["fill_in_let"](c, {})
        elif p == "expand_subcircuits":
            c = L["expand_subcircuits"](c)
        else:
            raise ValueError(p)
    return L["run_jaqal_circuit"](c, *args, **kw)


def execute(case, ap):
    """-> ("ok", [(state, probabilities)]) | ("err", "Type: message") | ("hang", "")"""
    old = signal.signal(signal.SIGALRM, _alarm)
    signal.alarm(int(T.limit()))
    try:
        with warnings.catch_warnings():
            warnings.simplefilter("ignore")
            res = run_case(case, ap)
            return ("ok", [(np.array(sc.state_vector), np.array(sc.simulated_probability_by_int)) for sc in res.subcircuits])
    except Hang:
        T.saw_hang()
        return ("hang", "")
    except Exception as e:  # every generated program is valid: nothing is a legitimate rejection
        return ("err", f"{type(e).__name__}: {str(e)[:300]}")
    finally:
        signal.alarm(0)
        signal.signal(signal.SIGALRM, old)


def _fmt(v):
    v = np.asarray(v)
    if v.size > 8:
        nz = np.flatnonzero(np.abs(v) > 1e-6)
        head = ", ".join(f"{int(i)}: {v[i]:.4g}" for i in nz[:6])
        return f"<{v.size} entries, {len(nz)} non-zero: {head}{' ...' if len(nz) > 6 else ''}>"
    if np.iscomplexobj(v):
        return "[" + ", ".join(f"{z.real:.5g}{z.imag:+.5g}j" for z in v.tolist()) + "]"
    return "[" + ", ".join(f"{x:.5g}" for x in v.tolist()) + "]"


def _short(s, k=60):
    s = str(s)
    return s if len(s) <= k else s[:k // 2] + f"...({len(s)} chars)..." + s[-10:]


def _gates_text(sub):
    parts = [f"{_short(g, 40)} on {qs}" + (f" at {[round(c, 6) if isinstance(c, float) else c for c in cs[:3]]}" if cs else "") for g, qs, cs in sub[:12]]
    return "; ".join(parts) + (f"; ... ({len(sub)} gates)" if len(sub) > 12 else "")


def program_excerpt(ap, limit=700):
    t = to_text(ap).replace("\n", " / ")
    return t if len(t) <= limit else t[: limit * 2 // 3] + f" ...({len(t)} chars)... " + t[-limit // 3:]


def judge(case, ap=None):
    """(ok, detail).  Raises Invalid when the description is not a valid program (a bug of this generator)."""
    if ap is None:
        ap = make_ap(case)
    if ap.get("override"):
        interpret(ap, use_override=False)  # the program itself must be valid too
    sem = interpret(ap, use_override=True)
    want = reference_states(ap, sem)
    r = execute(case, ap)
    api = {k: v for k, v in (case.get("api") or {}).items() if v != API_DEFAULT.get(k)}
    how = f"[{case['dim']} size={case['size']} variant={case.get('variant')} form={case['form']}" + (f" api={api}" if api else "") + "]"
    if r[0] != "ok":
        return False, f"{how} a valid program " + ("does not terminate" if r[0] == "hang" else f"raises {r[1]}") + "; program: " + program_excerpt(ap)
    got = r[1]
    if len(got) != len(want):
        return False, f"{how} {len(got)} subcircuits reported, {len(want)} written; program: " + program_excerpt(ap)
    for k, ((v, p), w) in enumerate(zip(got, want)):
        if v.shape != w.shape:
            return False, f"{how} subcircuit {k}: state_vector of shape {v.shape}, expected {w.shape}"
        dv = float(np.max(np.abs(v - w))) if np.all(np.isfinite(v)) else float("inf")
        if not dv <= TOL:
            i = int(np.argmax(np.abs(v - w))) if math.isfinite(dv) else 0
            return False, (f"{how} subcircuit {k} ({sem['n']} qubits): state_vector {_fmt(v)} is not the product of the gate matrices "
                           f"on |0..0> {_fmt(w)} (largest deviation {dv:.3g} at index {i}: got {v[i]:.6g}, expected {w[i]:.6g}); "
                           f"executed gates: {_gates_text(sem['subs'][k])}; program: " + program_excerpt(ap))
        pw = np.abs(w) ** 2
        if p.shape != pw.shape or not float(np.max(np.abs(p - pw))) <= TOL:
            return False, f"{how} subcircuit {k}: probabilities {_fmt(p)} but |amplitude|^2 is {_fmt(pw)}"
    return True, f"{len(want)} subcircuits, {sum(len(s) for s in sem['subs'])} executed gates agree with the reference"


# ------------------------------------------------------------------ generator helpers
def Qx(reg, i):
    return ["idx", reg, i]


def ang(rng):
    v = round(rng.uniform(-3.0, 3.0), rng.choice([1, 2, 3]))
    return v if abs(v) > 0.05 else 0.7


def base_ap(n=2, reg="q", gset=None):
    return {"gset": dict(BASE if gset is None else gset), "idle": False, "lets": [], "reg": [reg, n], "maps": [],
            "macros": [], "subs": [], "override": None}


def params_of(gset, name):
    if name not in gset and name.startswith("I_"):
        name = name[2:]
    return kind_spec(gset[name])[0]


def arity(gset, name):
    return sum(1 for _p, k in params_of(gset, name) if k == "q")


def mk(rng, gset, name, qrefs, cl=None):
    """a gate statement: qubit arguments from qrefs, classical ones from cl (then random)"""
    qi, ci, args = iter(qrefs), iter(cl or ()), []
    for _pn, k in params_of(gset, name):
        if k == "q":
            args.append(next(qi))
        else:
            c = next(ci, None)
            if c is None:
                c = rng.randrange(-2, 9) if k == "i" else ang(rng)
            args.append(c)
    return ["g", name, args]


_SINGLE = ["H1", "H2", "R", "U", "P", "PF", "SX", "S", "H1", "R", "MP", "N", "X"]
_DOUBLE = ["CX", "NS", "CR", "NS", "CX", "CZ"]
_TRIPLE = ["CCX", "T3"]


def scramble(rng, gset, refs):
    """a generic one-qubit gate on each given qubit argument"""
    out = []
    for r in refs:
        g = rng.choice(["H1", "H2", "R", "U"])
        out.append(mk(rng, gset, g, [r]))
    return out


def payload(rng, gset, refmap, count, idle=False, multi=0.5):
    """`count` random gate statements; refmap: fundamental qubit -> [argument forms that denote it]"""
    qs, out = list(refmap), []
    for _ in range(count):
        x = rng.random()
        if len(qs) >= 3 and x < multi * 0.3:
            name = rng.choice(_TRIPLE)
        elif len(qs) >= 2 and x < multi:
            name = rng.choice(_DOUBLE)
        else:
            name = rng.choice(_SINGLE)
        sel = rng.sample(qs, arity(gset, name))
        if idle and rng.random() < 0.1:
            name = "I_" + name
        out.append(mk(rng, gset, name, [rng.choice(refmap[i]) for i in sel]))
    return out


def plain(items):
    return {"style": "plain", "items": items}


SPECIAL = (0, 1, 7, 8, 9, 10, 11, 15, 16, 17, 31, 32, 33, 48, 49, 63, 64, 65, 99, 100, 101, 127, 128, 129, 199, 200, 254,
           255, 256, 257, 511, 512, 998, 999, 1000)


def special_positions(k, rng, extra=3):
    s = sorted({p for p in SPECIAL if p < k} | {k - 1, k // 2} | {rng.randrange(k) for _ in range(extra)})
    return s


# ------------------------------------------------------------------ the families (one dimension grows, the rest stays small)
def fam_register(n, rng, variant):
    ap = base_ap(n)
    sizearg = n
    if rng.random() < 0.3:
        ap["lets"].append(["NQ", n])
        ap["reg"][1] = sizearg = "NQ"
    refmap = {i: [Qx("q", i)] for i in range(n)}
    if n >= 4 and rng.random() < 0.7:
        ap["maps"] += [["hi", "slice", "q", n - 3, None, None], ["rv", "slice", "q", n - 1, -1, -1],
                       ["ev", "slice", "q", 0, sizearg, 2], ["top", "item", "q", n - 1], ["rr", "slice", "rv", 0, 2, None]]
        for j in range(3):
            refmap[n - 3 + j].append(Qx("hi", j))
        for j in range(n):
            refmap[n - 1 - j].append(Qx("rv", j))
        for j in range((n + 1) // 2):
            refmap[2 * j].append(Qx("ev", j))
        refmap[n - 1].append("top")
        refmap[n - 1].append(Qx("rr", 0))
        refmap[n - 2].append(Qx("rr", 1))
    ref = lambda i: rng.choice(refmap[i]) if rng.random() < 0.5 else refmap[i][0]
    lows = [i for i in (0, 1, 2) if i < n]
    highs = [i for i in (n - 1, n - 2) if i >= 0]
    gs = ap["gset"]
    items = []
    if variant and variant != "random":
        gname, orient = variant.split("/")
        k = min(arity(gs, gname), n)
        if k < arity(gs, gname):
            gname = "NS"
        lo, hi = rng.choice(lows), rng.choice([h for h in highs if h not in lows] or highs)
        qs = [lo, hi] if k == 2 else [lo, rng.choice([m for m in range(n) if m not in (lo, hi)]), hi]
        if len(set(qs)) < len(qs):
            qs = list(range(k))
        qs.sort()
        if orient == "down":
            qs.reverse()
        elif orient == "rand":
            rng.shuffle(qs)
        items = scramble(rng, gs, [ref(i) for i in qs]) + [mk(rng, gs, gname, [ref(i) for i in qs])]
        if rng.random() < 0.5:
            items.append(mk(rng, gs, "H1", [ref(qs[-1])]))
        ap["subs"].append(plain(items))
        return ap
    used = sorted(set(rng.sample(range(n), min(n, rng.choice([2, 3, 3, 4]))) + [rng.choice(highs)]))
    items = scramble(rng, gs, [ref(i) for i in used])
    budget = 8 - len(items) if n >= 12 else 12 - len(items)
    for _ in range(max(2, budget)):
        name = rng.choice(_TRIPLE if (len(used) >= 3 and rng.random() < 0.3) else _DOUBLE[:5] if rng.random() < 0.75 else ["R", "H2", "P"])
        if arity(gs, name) > len(used):
            name = "H1"
        sel = rng.sample(used, arity(gs, name))
        items.append(mk(rng, gs, name, [ref(i) for i in sel]))
    ap["subs"].append(plain(items))
    return ap


def fam_statements(k, rng, variant):
    n = rng.choice([2, 3, 3, 4])
    if variant == "branch":
        n = max(n, 3)
    ap = base_ap(n)
    ap["idle"] = rng.random() < 0.3
    gs = ap["gset"]
    refmap = {i: [Qx("q", i)] for i in range(n)}
    if variant == "top":
        ap["subs"].append(plain(payload(rng, gs, refmap, k, ap["idle"])))
    elif variant == "block":
        ap["subs"].append(plain([["seq", payload(rng, gs, refmap, k, ap["idle"])]]))
    elif variant == "loop1":
        ap["subs"].append(plain([["loop", 1, ["seq", payload(rng, gs, refmap, k, ap["idle"])]]]))
    elif variant == "macro":
        inner = {i: list(v) for i, v in refmap.items()}
        inner[0].append("pa")
        inner[1].append("pb")
        ap["macros"].append(["body", ["pa", "pb"], ["seq", payload(rng, gs, inner, k, ap["idle"])]])
        ap["subs"].append(plain([mk(rng, gs, "H1", [Qx("q", 0)]), ["g", "body", [Qx("q", 0), Qx("q", 1)]], mk(rng, gs, "H2", [Qx("q", 1)])]))
    elif variant == "subcircuit":
        ap["subs"].append({"style": "block", "items": payload(rng, gs, refmap, k, ap["idle"])})
    elif variant == "branch":
        left = {i: refmap[i] for i in range(n - 1)}
        brs = [["seq", payload(rng, gs, left, k, ap["idle"])], mk(rng, gs, "H1", [Qx("q", n - 1)])]
        rng.shuffle(brs)
        ap["subs"].append(plain([["par", brs], mk(rng, gs, "CX", [Qx("q", n - 1), Qx("q", 0)])]))
    elif variant == "two_subs":
        ap["subs"].append(plain(payload(rng, gs, refmap, k // 2, ap["idle"])))
        ap["subs"].append({"style": rng.choice(["plain", "block"]), "items": payload(rng, gs, refmap, k - k // 2, ap["idle"])})
    else:
        raise ValueError(variant)
    return ap


def _factor(k, rng):
    ds = [d for d in range(2, int(math.isqrt(k)) + 1) if k % d == 0]
    if not ds:
        return k, 1
    d = rng.choice(ds)
    return (d, k // d) if rng.random() < 0.5 else (k // d, d)


def fam_loops(k, rng, variant):
    n = rng.choice([2, 3])
    ap = base_ap(n)
    gs = ap["gset"]
    refmap = {i: [Qx("q", i)] for i in range(n)}
    pre = scramble(rng, gs, [Qx("q", i) for i in range(n)])
    body = payload(rng, gs, refmap, rng.choice([1, 2, 3]), multi=0.6)
    post = [mk(rng, gs, "NS", [Qx("q", 1), Qx("q", 0)])]
    if variant == "literal":
        mid = [["loop", k, ["seq", body]]]
    elif variant == "let":
        ap["lets"].append(["CNT", float(k) if rng.random() < 0.2 else k])
        mid = [["loop", "CNT", ["seq", body]]]
    elif variant == "macro_arg":
        inner = {0: ["a"], 1: [Qx("q", 1)]}
        ap["macros"].append(["rep", ["c", "a"], ["seq", [["loop", "c", ["seq", payload(rng, gs, inner, 2, multi=0.6)]]]]])
        mid = [["g", "rep", [k, Qx("q", 0)]]]
    elif variant == "nested":
        a, b = _factor(k, rng)
        mid = [["loop", a, ["seq", [mk(rng, gs, "H1", [Qx("q", 0)]), ["loop", b, ["seq", body]]]]]]
    elif variant == "macro_in_loop":
        inner = {0: ["a"], 1: ["b"]}
        ap["macros"].append(["step", ["a", "b"], ["seq", payload(rng, gs, inner, 2, multi=0.7)]])
        mid = [["loop", k, ["seq", [["g", "step", [Qx("q", 1), Qx("q", 0)]]]]]]
    elif variant == "par_body":
        mid = [["loop", k, ["par", [mk(rng, gs, "H1", [Qx("q", 0)]), mk(rng, gs, "R", [Qx("q", 1)])]]]]
    else:
        raise ValueError(variant)
    ap["subs"].append(plain(pre + mid + post))
    return ap


def fam_depth(d, rng, variant):
    ap = base_ap(5)
    gs = ap["gset"]
    inner = {0: [Qx("q", 0)], 1: [Qx("q", 1)]}
    g = lambda: payload(rng, gs, inner, 1, multi=0.5)[0]
    # a parallel block can only have a second branch on a qubit that nothing nested inside it uses: three levels get one
    free = [2, 3, 4]
    sib = lambda: mk(rng, gs, rng.choice(["H1", "R", "P", "H2"]), [Qx("q", free.pop())])
    if variant == "loops":
        twos = {d // 2, rng.randrange(d)}  # (and the deepest loop runs twice)
        cur = ["loop", 2, ["seq", [g(), g()]]]
        for lv in range(d - 1):
            cur = ["loop", 2 if lv in twos else 1, ["seq", [g(), cur, g()]]]
    elif variant == "seqpar":
        with_sib = set(rng.sample(range(d - 1), min(3, d - 1)))
        cur, kind = ["seq", [g(), g()]], "seq"
        for lv in range(d - 1):
            if kind == "seq":
                brs = [cur, sib()] if (free and (lv in with_sib or lv + 1 in with_sib)) else [cur]
                rng.shuffle(brs)
                cur, kind = ["par", brs], "par"
            else:
                cur, kind = ["seq", [g(), cur, g()]], "seq"
    elif variant == "triple":
        levels = max(1, d // 3)
        with_sib = set(rng.sample(range(levels), min(3, levels)))
        cur = g()
        for lv in range(levels):
            brs = [["seq", [g(), cur, g()]]] + ([sib()] if lv in with_sib else [])
            rng.shuffle(brs)
            cur = ["loop", 2 if lv in (0, levels // 2, levels - 1) else 1, ["par", brs]]
    else:
        raise ValueError(variant)
    ap["subs"].append(plain(scramble(rng, gs, [Qx("q", i) for i in range(5)]) + [cur, mk(rng, gs, "T3", [Qx("q", 2), Qx("q", 0), Qx("q", 1)]),
                                                                                 mk(rng, gs, "NS", [Qx("q", 4), Qx("q", 3)])]))
    return ap


def fam_macros(k, rng, variant):
    n = rng.choice([2, 3])
    ap = base_ap(n)
    gs = ap["gset"]
    pre = scramble(rng, gs, [Qx("q", i) for i in range(n)])
    if variant == "chain":
        ap["lets"].append(["TH", 0.37])
        ap["macros"].append(["m0", ["a", "b", "t"], ["seq", [["g", "CR", ["a", "t", "b"]], ["g", "H1", ["a"]]]]])
        for j in range(1, k):
            own = rng.choice([["g", "NS", ["a", "b"]], ["g", "NS", ["b", "a"]], ["g", "CX", ["a", "b"]], ["g", "CX", ["b", "a"]],
                              ["g", "R", ["a", "t"]], ["g", "PF", ["t", "b"]], ["g", "U", ["b", "t", 0.3]], ["g", "H2", ["a"]]])
            qa = ["a", "b"] if rng.random() < 0.5 else ["b", "a"]
            call = ["g", f"m{j - 1}", qa + [rng.choice(["t", "t", "t", "TH", round(0.1 + 0.01 * j, 3)])]]
            if k <= 40 and rng.random() < 0.15:
                call = ["loop", 1, ["seq", [call]]]
            body = [own, call] if rng.random() < 0.7 else [call, own]
            if rng.random() < 0.2:
                body.append(["g", "H1", ["b"]])
            ap["macros"].append([f"m{j}", ["a", "b", "t"], ["seq", body]])
        i, j = rng.sample(range(n), 2)
        mid = [["g", f"m{k - 1}", [Qx("q", i), Qx("q", j), 0.81]]]
    elif variant == "count":
        for j in range(k):
            ap["macros"].append([f"mc{j}", ["a"], ["seq", [["g", "R", ["a", round(0.1 + 0.0113 * j, 4)]], ["g", "H1" if j % 2 else "H2", ["a"]]]]])
        mid = []
        for j in special_positions(k, rng):
            mid.append(["g", f"mc{j}", [Qx("q", j % n)]])
            if rng.random() < 0.3:
                mid.append(mk(rng, gs, "NS", [Qx("q", 0), Qx("q", 1)]))
    elif variant == "params":
        roles = [rng.choice("qqfi") for _ in range(k)]
        roles[0], roles[-1] = "q", "q"
        fund = [rng.randrange(n) for _ in range(k)]
        fund[-1] = (fund[0] + 1) % n
        names = [f"p{j}" for j in range(k)]
        args = [Qx("q", fund[j]) if roles[j] == "q" else round(0.1 + 0.0131 * j, 4) if roles[j] == "f" else j % 7 for j in range(k)]
        sp = set(special_positions(k, rng))
        by = {r: [j for j in range(k) if roles[j] == r] for r in "qfi"}

        def pick(r, avoid=()):
            c = [j for j in by[r] if not (r == "q" and fund[j] in avoid)]
            if not c:
                return None
            s = [j for j in c if j in sp]
            return rng.choice(s) if (s and rng.random() < 0.7) else rng.choice(c)

        body = []
        for _ in range(12):
            name = rng.choice(["R", "CX", "NS", "CR", "P", "PF", "U", "H1"])
            qs, ok = [], True
            for _pn, kind in params_of(gs, name):
                if kind == "q":
                    j = pick("q", [fund[x] for x in qs])
                    if j is None:
                        ok = False
                        break
                    qs.append(j)
            if not ok:
                continue
            qi, a = iter(qs), []
            for _pn, kind in params_of(gs, name):
                if kind == "q":
                    a.append(names[next(qi)])
                else:
                    j = pick(kind)
                    a.append(names[j] if j is not None else (2 if kind == "i" else 0.4))
            body.append(["g", name, a])
        ap["macros"].append(["big", names, ["seq", body]])
        mid = [["g", "big", args]]
    else:
        raise ValueError(variant)
    ap["subs"].append(plain(pre + mid + [mk(rng, gs, "NS", [Qx("q", 1), Qx("q", 0)])]))
    return ap


def fam_aliases(k, rng, variant):
    n = rng.choice([4, 5, 6])
    ap = base_ap(n)
    gs = ap["gset"]
    if rng.random() < 0.4:
        ap["lets"].append(["LN", n])
    ln = lambda v: "LN" if (ap["lets"] and v == n and rng.random() < 0.4) else v
    cur = list(range(n))
    chain = []
    ap["maps"].append(["al0", "whole", "q"] if rng.random() < 0.5 else ["al0", "slice", "q", 0, ln(n), None])
    chain.append(list(cur))
    shrink_at = set(rng.sample(range(1, k), min(k - 1, rng.choice([0, 1, 2, 3]))))
    for j in range(1, k):
        src, m = f"al{j - 1}", len(cur)
        op = rng.choice(["whole", "reverse", "reverse", "reverse", "explicit", "explicit_step"])
        if j in shrink_at and m > 3:
            op = rng.choice(["drop_first", "drop_last", "stride2" if m >= 5 else "drop_first", "reverse_drop"])
        if op == "whole":
            ap["maps"].append([f"al{j}", "whole", src])
        elif op == "reverse":
            ap["maps"].append([f"al{j}", "slice", src, m - 1, -1, -1])
            cur = cur[::-1]
        elif op == "explicit":
            ap["maps"].append([f"al{j}", "slice", src, 0, ln(m), None])
        elif op == "explicit_step":
            ap["maps"].append([f"al{j}", "slice", src, None, ln(m), 1])
        elif op == "drop_first":
            ap["maps"].append([f"al{j}", "slice", src, 1, m, None])
            cur = cur[1:]
        elif op == "drop_last":
            ap["maps"].append([f"al{j}", "slice", src, 0, m - 1, None])
            cur = cur[:-1]
        elif op == "stride2":
            ap["maps"].append([f"al{j}", "slice", src, 0, m, 2])
            cur = cur[0:m:2]
        else:
            ap["maps"].append([f"al{j}", "slice", src, m - 2, -1, -1])
            cur = cur[m - 2::-1]
        chain.append(list(cur))
    ap["maps"].append(["zq", "item", f"al{k // 3}", 1])
    ap["maps"].append(["tail", "slice", f"al{k - 1}", 1, len(chain[k - 1]), None])
    deep = {i: [] for i in range(n)}
    for lvl in (k - 1, k // 2):
        for pos, f in enumerate(chain[lvl]):
            deep[f].append(Qx(f"al{lvl}", pos))
    deep[chain[k // 3][1]].append("zq")
    for pos, f in enumerate(chain[k - 1][1:]):
        deep[f].append(Qx("tail", pos))
    reach = [i for i in range(n) if deep[i]]
    items = scramble(rng, gs, [Qx("q", i) for i in reach])
    for _ in range(2):  # (resolving a qubit through a long chain is expensive in the library: few references)
        name = rng.choice(["CX", "NS", "CR", "T3"] if k <= 40 else ["CX", "NS", "CR"])
        sel = rng.sample(reach, arity(gs, name))
        items.append(mk(rng, gs, name, [rng.choice(deep[i]) if rng.random() < 0.85 else Qx("q", i) for i in sel]))
    ap["subs"].append(plain(items))
    return ap


def fam_header(k, rng, variant):
    n = 3
    ap = base_ap(n)
    gs = ap["gset"]
    nl = k if variant in ("lets", "both", "override") else 6
    nm = k if variant in ("maps", "both") else 6
    for j in range(nl):
        ap["lets"].append([f"c{j}", (j // 3) % n if j % 3 == 0 else round(0.05 + 0.0137 * j, 4)])
    ints = [j for j in range(nl) if j % 3 == 0]
    flts = [j for j in range(nl) if j % 3]
    fq = {}
    for j in range(nm):
        if j % 5 == 4:
            ap["maps"].append([f"z{j}", "slice", "q", j % 2, None, None])  # (a register alias among the qubit aliases)
            continue
        if ints and rng.random() < 0.3:
            i = rng.choice(ints)
            ap["maps"].append([f"z{j}", "item", "q", f"c{i}"])
            fq[j] = (i // 3) % n
        else:
            ap["maps"].append([f"z{j}", "item", "q", j % n])
            fq[j] = j % n
    spl = set(special_positions(nl, rng))
    spm = set(special_positions(nm, rng))

    def pk(c, sp):
        s = [j for j in c if j in sp]
        return rng.choice(s) if (s and rng.random() < 0.75) else rng.choice(c)

    def qref(avoid=()):
        for _ in range(50):
            x = rng.random()
            if x < 0.6:
                j = pk(list(fq), spm)
                if fq[j] not in avoid:
                    return f"z{j}", fq[j]
            elif x < 0.85:
                i = pk(ints, spl)
                if (i // 3) % n not in avoid:
                    return Qx("q", f"c{i}"), (i // 3) % n
            else:
                sl = [j for j in range(nm) if j % 5 == 4]
                if sl:
                    j = pk(sl, spm)
                    f = j % 2 + rng.randrange(n - j % 2)
                    if f not in avoid:
                        return Qx(f"z{j}", f - j % 2), f
        f = [i for i in range(n) if i not in avoid][0]
        return Qx("q", f), f

    items = scramble(rng, gs, [Qx("q", i) for i in range(n)])
    for _ in range(12):
        name = rng.choice(["R", "R", "PF", "U", "P", "CR", "CX", "NS", "MP"])
        qs, used, cl = [], [], []
        for _pn, kind in params_of(gs, name):
            if kind == "q":
                r, f = qref(used)
                qs.append(r)
                used.append(f)
            elif kind == "i":
                cl.append(f"c{pk(ints, spl)}")
            else:
                cl.append(f"c{pk(flts, spl)}" if rng.random() < 0.85 else f"c{pk(ints, spl)}")
        items.append(mk(rng, gs, name, qs, cl))
    ap["subs"].append(plain(items))
    if variant == "override":
        ov = {}
        for j in range(nl):
            if rng.random() < 0.9:
                # (an index keeps its value - another one would change which qubits the aliases denote - but not its kind)
                ov[f"c{j}"] = (float((j // 3) % n) if rng.random() < 0.3 else (j // 3) % n) if j % 3 == 0 else round(3.0 - 0.0029 * j, 4)
        ap["override"] = ov
    return ap


def fam_subcircuits(k, rng, variant):
    ap = base_ap(2)
    for j in range(k):
        a = round(0.02 + 0.0111 * j, 4)
        items = [["g", "R", [Qx("q", j % 2), a]], ["g", "CX" if j % 3 else "NS", [Qx("q", j % 2), Qx("q", 1 - j % 2)]]]
        if j % 4 == 1:
            items.append(["g", "H1", [Qx("q", 1)]])
        style = variant if variant in ("plain", "block") else rng.choice(["plain", "block"])
        ap["subs"].append({"style": style, "items": items})
    return ap


def fam_parallel(w, rng, variant):
    if variant == "pairs":
        w = min(w, 7)
    n = 2 * w if variant == "pairs" else max(w, 2)
    ap = base_ap(n)
    gs = ap["gset"]
    order = list(range(w))
    rng.shuffle(order)
    brs = []
    for j in order:
        if variant == "pairs":
            a, b = (2 * j, 2 * j + 1) if rng.random() < 0.5 else (2 * j + 1, 2 * j)
            brs.append(["seq", [mk(rng, gs, "H1", [Qx("q", a)]), mk(rng, gs, rng.choice(["CX", "NS", "CR"]), [Qx("q", a), Qx("q", b)])]])
        elif variant == "blocks" and rng.random() < 0.5:
            brs.append(["seq", [mk(rng, gs, "R", [Qx("q", j)]), mk(rng, gs, "H2", [Qx("q", j)])]])
        else:
            brs.append(mk(rng, gs, rng.choice(["R", "H1", "H2", "P", "U"]), [Qx("q", j)]))
    items = [["par", brs]]
    a, b = rng.sample(range(n), 2)
    items.append(mk(rng, gs, rng.choice(["CX", "NS", "CR"]), [Qx("q", a), Qx("q", b)]))
    if n >= 3:
        items.append(mk(rng, gs, "T3", [Qx("q", i) for i in rng.sample(range(n), 3)]))
    ap["subs"].append(plain(items))
    return ap


def fam_names_long(ln, rng, variant):
    st = lambda c, last: c * (ln - 1) + last
    gset = dict(BASE)
    ga, gb, g2a, g2b = st("g", "a"), st("g", "b"), st("G", "a"), st("G", "b")
    gset.update({ga: "V1:2", gb: "V1:3", g2a: "V2:1", g2b: "V2:2"})
    reg = "r" * ln
    ap = base_ap(3, reg, gset)
    A, B, IX, IY = st("n", "a"), st("n", "b"), st("i", "0"), st("i", "1")
    ap["lets"] += [[A, 0.41], [B, 1.23], [IX, 1], [IY, 0]]
    za, zb, sx = st("z", "a"), st("z", "b"), st("s", "x")
    ap["maps"] += [[za, "item", reg, IX], [zb, "item", reg, IY], [sx, "slice", reg, 1, 3, None]]
    pa, pb = st("p", "a"), st("p", "b")
    ma, mb = st("M", "a"), st("M", "b")
    ap["macros"].append([ma, [pa, pb], ["seq", [["g", "R", [pa, A]], ["g", g2a, [pa, pb]], ["g", gb, [pb]]]]])
    ap["macros"].append([mb, [pa, pb], ["seq", [["g", "R", [pb, B]], ["g", g2b, [pb, pa]], ["g", ga, [pa]], ["g", ma, [pb, pa]]]]])
    pool = [["g", ga, [za]], ["g", gb, [zb]], ["g", "R", [Qx(reg, IX), B]], ["g", "R", [Qx(reg, IY), A]], ["g", g2a, [Qx(sx, 1), za]],
            ["g", g2b, [zb, Qx(sx, 0)]], ["g", ma, [za, zb]], ["g", mb, [Qx(reg, 2), zb]], ["g", ma, [Qx(sx, 1), Qx(reg, IY)]],
            ["g", "PF", [A, zb]], ["g", "PF", [B, za]], ["g", "CX", [za, Qx(sx, 1)]]]
    items = scramble(rng, gset, [Qx(reg, i) for i in range(3)]) + rng.sample(pool, rng.randint(6, len(pool)))
    ap["subs"].append(plain(items))
    return ap


_STEMS = ["x", "cal", "a", "q0", "r", "m", "t", "_", "__", "c10", "r0", "p0", "g", "macro", "let", "map", "loop", "reg", "from",
          "as", "pulse", "all", "pi", "e", "E", "e5", "inf", "nan", "self", "in", "is", "if", "X_", "I", "body", "name"]
_ODD = ["cal.x", "x.cal", "cal.cal.x", "a.b.c.d", "x.0", "x.1.2", "q.q", "_._", "_1", "_.x", "x._", "a1.b2", "A.a", "a.A",
        "__macro__", "__c10", "__r0", "__init__", "__in_context__", "__class__", "__dict__", "__0", "_0_", "___",
        "le", "lets", "let_", "Let", "LET", "ma", "mapp", "map_", "reg", "registers", "register_", "Register", "macr", "macros",
        "macro_", "Macro", "loo", "loops", "loop_", "Loop", "loop1", "fro", "from_", "From", "asx", "As", "a", "usepulse",
        "usepulses_", "Usepulses", "impor", "imports", "branc", "branches", "branch_", "subcircui", "subcircuits", "subcircuit_",
        "Subcircuit", "prepare_al", "prepare_all_", "prepare_all.x", "prepare", "prepare_all1", "Prepare_all", "measure_al",
        "measure_all2", "measure", "measure_all_", "measure.all", "pi", "inf", "nan", "e", "E", "e5", "x1e5", "e_1", "None", "True",
        "self", "lambda", "def", "class", "if", "in", "is", "not", "and", "or", "for", "while", "all", "any", "len", "print", "parallel",
        "sequential", "gate", "circuit", "array_item", "sequential_block", "parallel_block", "subcircuit_block", "usepulses.x",
        "I_X", "I_", "I_I_X", "I_R", "I_go", "I_NS", "X_stretched", "R_stretched", "_stretched", "p0", "p1", "p10", "statements",
        "body", "name", "size", "q.0", "q_0", "q0", "Q", "r", "x", "X.cal", "cal.X", "cal.CX", "CX.cal", "R.R", "NS_", "_NS", "Rx", "R_x"]


def _name_pool(rng):
    out = list(_ODD)
    for s in rng.sample(_STEMS, 8):
        out += [f"cal.{s}", f"{s}.cal", f"{s}_", f"_{s}", f"{s}0", s.upper() if s.upper() != s else s.lower(), f"{s}.{s}", f"__{s}__", f"__{s}"]
    seen, uniq = set(), []
    for x in out:
        if x not in seen and x not in BOUNDS and x not in ("let", "map", "register", "macro", "loop", "import", "usepulses", "from",
                                                           "as", "branch", "subcircuit", "version"):
            seen.add(x)
            uniq.append(x)
    return uniq


def fam_names_spelling(k, rng, variant):
    pool = [x for x in _name_pool(rng) if x not in BASE]
    if variant == "pairs":  # names that differ by a dotted prefix / suffix / underscore only, in ONE namespace
        bad = set(BASE) | set(BOUNDS) | {"let", "map", "register", "macro", "loop", "import", "usepulses", "from", "as", "branch", "subcircuit", "version"}
        stems = rng.sample([x for x in _STEMS if x not in bad], 5)
        sp = lambda t: rng.sample([f"cal.{t}", f"{t}.cal", f"{t}_", f"_{t}", f"{t}.{t}", f"cal.cal.{t}", f"{t}0", f"{t}.0", f"__{t}", f"{t}.x"], 3)
        groups = {"gate1": [stems[0], f"cal.{stems[0]}"] + sp(stems[0]), "let_angle": [stems[1], f"cal.{stems[1]}"] + sp(stems[1]),
                  "alias_q": [stems[2]] + sp(stems[2])[:2], "macro": [stems[3]] + sp(stems[3])[:1], "param": [stems[4]] + sp(stems[4])[:1]}
        fam = [x for g in groups.values() for x in g]
        fam = list(dict.fromkeys(fam))
        names = fam + [x for x in rng.sample(pool, len(pool)) if x not in fam]
    elif variant == "markers":
        first = [x for x in pool if x.startswith(("I_", "__", "prepare", "measure")) or x.endswith("_stretched") or "block" in x or x in ("gate", "circuit", "array_item")]
        rng.shuffle(first)
        names = first + [x for x in rng.sample(pool, len(pool)) if x not in first]
    else:
        names = rng.sample(pool, len(pool))
    names = names[:max(k, 8) + (len(fam) if variant == "pairs" else 0)]
    roles = ["let_angle", "gate1", "alias_q", "let_index", "macro", "param", "gate2", "let_angle", "alias_q", "param", "alias_r", "let_count"]
    by = {r: [] for r in roles + ["register"]}
    if variant == "pairs":
        # the spellings of ONE stem share a namespace: three gates, three angles, two qubit aliases, two macros, parameters
        rest = [x for x in names if x not in fam]
        taken = set()
        for r, g in groups.items():
            for nm in g:
                if nm not in taken:
                    taken.add(nm)
                    by[r].append(nm)
            rng.shuffle(by[r])
        by["register"].append(rest[0])
        for j, nm in enumerate(rest[1:]):
            by[roles[j % len(roles)]].append(nm)
    else:
        by["register"].append(names[0])
        for j, nm in enumerate(names[1:]):
            by[roles[j % len(roles)]].append(nm)
    n = 3
    reg = by["register"][0]
    gset = dict(BASE)
    for j, nm in enumerate(by["gate1"]):
        gset[nm] = f"V1:{2 + j}"
    for j, nm in enumerate(by["gate2"]):
        gset[nm] = f"V2:{1 + j}"
    ap = base_ap(n, reg, gset)
    gs = gset
    fq, items = {}, []
    for j, nm in enumerate(by["let_angle"]):
        ap["lets"].append([nm, round(0.21 + 0.173 * j, 3)])
    for j, nm in enumerate(by["let_index"]):
        ap["lets"].append([nm, j % n])
    for j, nm in enumerate(by["let_count"]):
        ap["lets"].append([nm, 2 + j % 2])
    rng.shuffle(ap["lets"])
    for j, nm in enumerate(by["alias_q"]):
        if by["let_index"] and rng.random() < 0.4:
            i = rng.randrange(len(by["let_index"]))
            ap["maps"].append([nm, "item", reg, by["let_index"][i]])
            fq[nm] = i % n
        else:
            ap["maps"].append([nm, "item", reg, j % n])
            fq[nm] = j % n
    rr = {}
    for j, nm in enumerate(by["alias_r"]):
        if j % 2:
            ap["maps"].append([nm, "slice", reg, n - 1, -1, -1])
            rr[nm] = list(range(n))[::-1]
        else:
            ap["maps"].append([nm, "slice", reg, 1, None, None])
            rr[nm] = list(range(1, n))
    refmap = {i: [Qx(reg, i)] for i in range(n)}
    for nm, f in fq.items():
        refmap[f].append(nm)
    for nm, res in rr.items():
        for pos, f in enumerate(res):
            refmap[f].append(Qx(nm, pos))
    for j, nm in enumerate(by["let_index"]):
        refmap[j % n].append(Qx(reg, nm))
    ref = lambda f: rng.choice(refmap[f])
    items = scramble(rng, gs, [Qx(reg, i) for i in range(n)])
    params = by["param"]
    for j, nm in enumerate(by["macro"]):
        ps = (params[(2 * j) % len(params)], params[(2 * j + 1) % len(params)]) if len(params) >= 2 else ("pa", "pb")
        ang_ = rng.choice(by["let_angle"]) if by["let_angle"] else 0.5
        g1 = rng.choice(by["gate1"]) if by["gate1"] else "H1"
        g2 = rng.choice(by["gate2"]) if by["gate2"] else "NS"
        body = [["g", g2, [ps[j % 2], ps[1 - j % 2]]], ["g", "R", [ps[1], ang_]], ["g", g1, [ps[0]]]]
        if j and rng.random() < 0.5:
            body.append(["g", by["macro"][j - 1], [ps[1], ps[0]]])
        ap["macros"].append([nm, list(ps), ["seq", body]])
    stm = []
    for nm in by["let_angle"]:
        stm.append(["g", rng.choice(["R", "PF"]), [ref(rng.randrange(n)), nm]] if rng.random() < 0.5 else mk(rng, gs, "U", [ref(rng.randrange(n))], [nm, 0.3]))
        if stm[-1][1] == "PF":
            stm[-1][2].reverse()
    for nm in by["gate1"]:
        stm.append(["g", nm, [ref(rng.randrange(n))]])
    for nm in by["gate2"]:
        a, b = rng.sample(range(n), 2)
        stm.append(["g", nm, [ref(a), ref(b)]])
    for nm in by["macro"]:
        a, b = rng.sample(range(n), 2)
        stm.append(["g", nm, [ref(a), ref(b)]])
    for nm in by["let_count"]:
        stm.append(["loop", nm, ["seq", [mk(rng, gs, "H1", [ref(0)]), mk(rng, gs, "CX", [ref(0), ref(1)])]]])
    rng.shuffle(stm)
    ap["subs"].append(plain(items + stm))
    return ap


def fam_api(k, rng, variant):
    """a moderate program with a bit of everything (k = register size)"""
    n = k
    ap = base_ap(n)
    ap["idle"] = rng.random() < 0.3
    gs = ap["gset"]
    ap["lets"] += [["ALPHA", ang(rng)], ["IX", rng.randrange(n)], ["CNT", rng.choice([0, 1, 2, 3])], ["KK", rng.randrange(0, 7)], ["BETA", 2.0]]
    ix = ap["lets"][1][1]
    ap["maps"] += [["rv", "slice", "q", n - 1, -1, -1], ["zz", "item", "q", "IX"], ["hi", "slice", "q", n - 2, None, None]]
    refmap = {i: [Qx("q", i), Qx("rv", n - 1 - i)] for i in range(n)}
    refmap[ix] += ["zz", Qx("q", "IX")]
    refmap[n - 2].append(Qx("hi", 0))
    refmap[n - 1].append(Qx("hi", 1))
    act = sorted(set(rng.sample(range(n), min(n, 3)) + [n - 1]))
    sub = {i: refmap[i] for i in act}
    ap["macros"].append(["rot", ["a", "t"], ["seq", [["g", "R", ["a", "t"]], ["g", "PF", ["ALPHA", "a"]], ["g", "P", ["a", "KK"]]]]])
    ap["macros"].append(["pair", ["a", "b", "t"], ["seq", [["g", "rot", ["b", "t"]], ["g", "CR", ["a", "t", "b"]], ["loop", "CNT", ["seq", [["g", "NS", ["b", "a"]]]]]]]])
    a, b = rng.sample(act, 2)
    items = scramble(rng, gs, [rng.choice(refmap[i]) for i in act])
    items += [["g", "pair", [rng.choice(refmap[a]), rng.choice(refmap[b]), "ALPHA"]], ["g", "rot", [rng.choice(refmap[b]), "BETA"]]]
    items += payload(rng, gs, sub, 3, ap["idle"])
    items.append(["loop", "CNT", ["par", [mk(rng, gs, "H1", [rng.choice(refmap[a])]), mk(rng, gs, "R", [rng.choice(refmap[b])], ["ALPHA"])]]])
    ap["subs"].append(plain(items))
    ap["subs"].append({"style": "block", "items": payload(rng, gs, sub, 4, ap["idle"]) + [["g", "pair", [Qx("q", b), Qx("q", a), 0.77]]]})
    if variant == "override":
        ap["override"] = {"ALPHA": ang(rng), "CNT": rng.choice([0, 1, 2]), "KK": rng.randrange(0, 9), "BETA": rng.choice([1, 0.5, 3.0])}
        for key in rng.sample(sorted(ap["override"]), rng.randrange(0, 3)):
            del ap["override"][key]
    return ap


FAMILIES = {
    # dim: (function, quick sizes, thorough sizes, variants)
    "register": (fam_register, (8, 9, 10, 11, 12, 13, 14), tuple(range(2, 15)),
                 tuple(f"{g}/{o}" for g in ("CX", "NS", "CR", "CCX", "T3") for o in ("up", "down", "rand")) + ("random",)),
    "statements": (fam_statements, (8, 16, 32, 64, 128, 200, 256, 1000), (8, 11, 16, 17, 32, 33, 64, 65, 128, 129, 200, 255, 256, 257, 1000),
                   ("top", "block", "loop1", "macro", "subcircuit", "branch", "two_subs")),
    "loops": (fam_loops, (8, 16, 32, 34, 64, 128, 256, 1000), (8, 9, 16, 17, 32, 33, 34, 63, 64, 65, 100, 127, 128, 129, 255, 256, 257, 1000),
              ("literal", "let", "macro_arg", "nested", "macro_in_loop", "par_body")),
    "depth": (fam_depth, (8, 16, 20, 32, 40, 64, 100), (8, 9, 16, 17, 20, 32, 33, 40, 64, 65, 100), ("loops", "seqpar", "triple")),
    "macros": (fam_macros, (8, 16, 33, 65, 100, 130), (8, 9, 16, 17, 32, 33, 64, 65, 100, 128, 130), ("chain", "count", "params")),
    "aliases": (fam_aliases, (8, 16, 33, 65, 66), (8, 9, 16, 17, 32, 33, 64, 65, 66, 100, 130), ("chain", "chain")),
    "header": (fam_header, (8, 16, 32, 49, 64, 100, 128, 256, 1000), (8, 9, 16, 17, 32, 33, 49, 64, 65, 100, 128, 129, 255, 256, 257, 1000),
               ("lets", "maps", "both", "override")),
    "subcircuits": (fam_subcircuits, (8, 16, 32, 64, 128, 256), (8, 9, 16, 17, 32, 33, 64, 65, 128, 129, 256, 257, 1000), ("plain", "block", "mixed")),
    "parallel": (fam_parallel, (4, 8, 11, 14), tuple(range(2, 15)), ("gates", "blocks", "pairs")),
    "names_long": (fam_names_long, (8, 16, 32, 64, 128, 255, 256, 257, 300, 1000), (2, 8, 16, 32, 64, 128, 254, 255, 256, 257, 300, 512, 1000, 5000), ("pair",)),
    "names_spelling": (fam_names_spelling, (12, 24, 36), (12, 24, 36, 48), ("random", "pairs", "markers")),
    "api_defaults": (fam_api, (3, 4, 10), (2, 3, 4, 5, 10, 11), ("plain", "override")),
}
# what the unchanged library documents as its own limits (see the module docstring)
MAXSIZE = {("depth", "loops"): 100, ("depth", "triple"): 128, ("depth", "seqpar"): 256, ("macros", "chain"): 130, ("macros", "params"): 256,
           ("aliases", "chain"): 130, ("register", None): 14, ("parallel", None): 14}


def make_ap(case):
    """the program description of a case (deterministic in dim / size / variant / rs)"""
    fn = FAMILIES[case["dim"]][0]
    rng = random.Random(f"c03_scale/{case['dim']}/{case['size']}/{case.get('variant')}/{case['rs']}")
    return fn(int(case["size"]), rng, case.get("variant"))


# ------------------------------------------------------------------ API variants
RUN_KW = ("default", "backend_none", "backend_obj", "emulator_backend", "positional", "force_sim", "all_none")
GATES = ("inject", "usepulses", "usepulses_twice", "usepulses_split", "usepulses_and_inject")
PRE = ("expand_macros", "expand_macros_keep", "fill_in_let", "fill_in_let_none", "fill_in_let_empty", "expand_subcircuits")


def light_api(rng, form, ap):
    """the API choices of a SCALE case: mostly the defaults"""
    api = {}
    if form == "text":
        if rng.random() < 0.25:
            api["sep"] = ";"
        x = rng.random()
        if x < 0.12 and not ap.get("override"):
            api["gates"] = rng.choice(GATES[1:])
            api["run"] = rng.choice(["circuit", "string", "file"])
        elif x < 0.2:
            api["parse"] = "file"
        if api.get("run", "circuit") == "circuit" and rng.random() < 0.2:
            api["parse_kw"] = rng.choice([["expand_let"], ["expand_macro"], ["expand_let", "expand_macro"], ["return_usepulses"], ["expand_let_map"]])
    else:
        if rng.random() < 0.3:
            api["np"] = True
        if form == "builder" and rng.random() < 0.5:
            api["lazy"] = True
    if ap.get("override"):
        api["ov_via"] = rng.choice(["parse", "fill_in_let", "fill_in_let_positional"]) if form == "text" else rng.choice(["fill_in_let", "fill_in_let_positional"])
        if api["ov_via"] == "parse" and not ({"expand_let", "expand_let_map"} & set(api.get("parse_kw", []))):
            api["parse_kw"] = sorted(set(api.get("parse_kw", [])) | {rng.choice(["expand_let", "expand_let_map"])})
    if rng.random() < 0.2:
        api["run_kw"] = rng.choice(RUN_KW[1:])
    if api.get("run", "circuit") == "circuit" and rng.random() < 0.15:
        api["pre"] = rng.sample(PRE, rng.choice([1, 1, 2]))
    return api


def full_api(rng, form, ap):
    """the API choices of an api_defaults case: everything varies"""
    api = {"run_kw": rng.choice(RUN_KW)}
    if form == "text":
        api["sep"] = rng.choice(["\n", ";"])
        api["gates"] = rng.choice(GATES)
        entry = rng.choice(["circuit", "circuit", "string", "file"]) if (api["gates"] != "inject" and not ap.get("override")) else "circuit"
        api["run"] = entry
        if entry == "file" and rng.random() < 0.5:
            api["file_import_path_default"] = True
        if entry == "circuit":
            api["parse"] = rng.choice(["string", "file"])
            api["parse_kw"] = sorted(k for k in ("expand_let", "expand_let_map", "expand_macro", "return_usepulses") if rng.random() < 0.35)
            api["override_kw"] = rng.choice(["absent", "none", "empty"])
    else:
        api["np"] = rng.random() < 0.5
        api["lazy"] = form == "builder" and rng.random() < 0.5
    if ap.get("override"):
        api["ov_via"] = rng.choice(["parse", "fill_in_let", "fill_in_let_positional"]) if form == "text" else rng.choice(["fill_in_let", "fill_in_let_positional"])
        if api["ov_via"] == "parse" and not ({"expand_let", "expand_let_map"} & set(api.get("parse_kw", []))):
            api["parse_kw"] = sorted(set(api.get("parse_kw", [])) | {rng.choice(["expand_let", "expand_let_map"])})
    if api.get("run", "circuit") == "circuit":
        k = rng.choice([0, 0, 1, 2, 3])
        api["pre"] = [rng.choice(PRE) for _ in range(k)]
    return api


def sweep_api(rng, full):
    """run_jaqal_circuit argument styles x where the gates come from x entry point; parse options x override_dict kinds;
    every pass applied beforehand, alone and twice"""
    out = []
    sizes = (3, 10) if not full else (2, 3, 5, 10, 11)

    def case(api, form="text", variant="plain", size=None):
        return {"dim": "api_defaults", "size": size or rng.choice(sizes), "variant": variant, "rs": rng.randrange(1 << 30), "form": form, "api": api}

    combos = [(r, g, e) for r in RUN_KW for g in GATES for e in ("circuit", "string", "file") if not (g == "inject" and e != "circuit")]
    if not full:
        combos = rng.sample(combos, 30)
    for r, g, e in combos:
        api = {"run_kw": r, "gates": g, "run": e}
        if e == "file" and rng.random() < 0.5:
            api["file_import_path_default"] = True
        out.append(case(api))
    opts = ("expand_let", "expand_let_map", "expand_macro", "return_usepulses")
    subsets = [[o for j, o in enumerate(opts) if m >> j & 1] for m in range(16)]
    pk = [(s, o, v) for s in subsets for o in ("absent", "none", "empty", "dict") for v in ("string", "file")]
    if not full:
        pk = rng.sample(pk, 30)
    for s, o, v in pk:
        api = {"parse_kw": s, "parse": v, "gates": rng.choice(GATES)}
        if o == "dict":
            if not ({"expand_let", "expand_let_map"} & set(s)):
                continue
            api["ov_via"] = "parse"
            out.append(case(api, variant="override"))
        else:
            api["override_kw"] = o
            out.append(case(api))
    pres = [[p] for p in PRE] + [[p, p] for p in PRE] + [[a, b] for a in PRE for b in PRE if a != b]
    if not full:
        pres = [[p] for p in PRE] + rng.sample(pres[len(PRE):], 10)
    for p in pres:
        form = rng.choice(["text", "sexpr", "builder"])
        var = rng.choice(["plain", "override"])
        api = {"pre": p}
        if var == "override":
            api["ov_via"] = rng.choice(["fill_in_let", "fill_in_let_positional"])
        if form != "text":
            api["np"] = rng.random() < 0.5
            api["lazy"] = form == "builder" and rng.random() < 0.5
        out.append(case(api, form, var))
    return out


# ------------------------------------------------------------------ run / replay
def pick_form(rng, dim):
    if dim == "api_defaults":
        return rng.choice(["text", "text", "sexpr", "builder"])
    return rng.choice(["text", "text", "sexpr", "builder"])


def new_case(rng, dim, size, variant, form=None):
    case = {"dim": dim, "size": size, "variant": variant, "rs": rng.randrange(1 << 30), "form": form or pick_form(rng, dim)}
    ap = make_ap(case)
    case["api"] = (full_api if dim == "api_defaults" else light_api)(rng, case["form"], ap)
    return case, ap


def allowed(dim, variant, size):
    lim = MAXSIZE.get((dim, variant), MAXSIZE.get((dim, None)))
    return lim is None or size <= lim


def sweep_cases(rng, thorough):
    """every family at each of its threshold sizes: one variant per size in the quick tier (rotating with the seed), every
    variant in the thorough one"""
    out = []
    for dim in DIMS:
        _fn, qs, ts, variants = FAMILIES[dim]
        if dim == "api_defaults":
            continue
        sizes = ts if thorough else qs
        for j, size in enumerate(sizes):
            if dim == "register":
                vs = [v for v in variants if v != "random"]
                vs = vs if thorough else [v for v in vs if v.endswith(rng.choice(["/up", "/down", "/rand"]))]
                if not thorough and size >= 13:
                    vs = rng.sample(vs, 3)
            elif thorough or dim in ("names_spelling", "names_long", "aliases"):
                vs = list(variants)
            else:
                vs = [variants[(j + rng.randrange(len(variants))) % len(variants)]]
            if dim == "aliases" and size > 66:
                vs = vs[:1]
            for v in vs:
                if not allowed(dim, v, size):
                    continue
                if dim == "parallel" and v == "pairs" and size > 7:
                    continue
                out.append((dim, size, v))
    return out


def random_case(rng, thorough):
    dim = rng.choice(DIMS)
    _fn, qs, ts, variants = FAMILIES[dim]
    for _ in range(100):
        size = rng.choice(ts if (thorough or rng.random() < 0.5) else qs)
        variant = rng.choice(variants)
        if size >= 1000 and dim in ("subcircuits",) and not thorough:
            continue
        if dim == "parallel" and variant == "pairs" and size > (7 if thorough else 6):
            continue
        if dim in ("register", "parallel") and size >= 13 and not thorough and rng.random() < 0.6:
            continue
        if dim == "names_long" and size > 1000 and rng.random() < 0.7:
            continue
        if dim == "aliases" and size > 66 and (not thorough or rng.random() < 0.9):
            continue
        if allowed(dim, variant, size):
            return dim, size, variant
    return dim, qs[0], variants[0]


def run(seed: int, n: int, driver: str = DEFAULT_DRIVER, thorough: bool = False) -> dict:
    rng = random.Random(f"c03_scale:{seed}")
    dist = {}

    def bump(k, d=1):
        dist[k] = dist.get(k, 0) + d

    oracle = {o: {"cases": 0, "failures": []} for o in ORACLES}
    samples, distinct = [], set()

    def do(case, ap=None):
        name = oracle_name(case["dim"])
        case = dict(case, oracle=name)
        try:
            if ap is None:
                ap = make_ap(case)
            ok, detail = judge(case, ap)
        except Invalid as e:  # a bug of this generator, not of the library: counted, never reported as a violation
            bump("generator_produced_an_invalid_description")
            bump(f"generator_invalid:{case['dim']}:{case.get('variant')}:{e}"[:120])
            return
        oracle[name]["cases"] += 1
        api = norm_api(case.get("api"), ap)
        bump("dim:" + case["dim"])
        bump(f"variant:{case['dim']}:{case.get('variant')}" if case["dim"] != "register" else "variant:register:" + str(case.get("variant")).split("/")[0])
        sz = int(case["size"])
        bump(f"size:{case['dim']}:" + ("<8" if sz < 8 else "8-15" if sz < 16 else "16-31" if sz < 32 else "32-63" if sz < 64 else "64-127" if sz < 128
                                      else "128-255" if sz < 256 else "256-999" if sz < 1000 else ">=1000"))
        if case["dim"] in ("register", "parallel", "api_defaults"):
            bump(f"register_qubits:{ap['reg'][1] if isinstance(ap['reg'][1], int) else dict(map(tuple, ap['lets']))[ap['reg'][1]]}")
        bump("form:" + case["form"])
        for k in ("gates", "run", "run_kw", "parse", "override_kw"):
            if api[k] != API_DEFAULT[k]:
                bump(f"api:{k}={api[k]}")
        for k in api["parse_kw"]:
            bump("api:parse_kw:" + k)
        for k in api["pre"]:
            bump("api:pass_before_run:" + k)
        if api["np"]:
            bump("api:numpy_float64_and_int64_values")
        if case["form"] == "builder":
            bump("builder:header_by_name_unevaluated" if api["lazy"] else "builder:header_objects_passed_on")
        if api["sep"] == ";":
            bump("text:statements_separated_by_semicolons")
        if ap.get("override"):
            bump("override:" + str(api.get("ov_via")))
            bump("override:entries>=64" if len(ap["override"]) >= 64 else "override:entries<64")
        if ap.get("idle"):
            bump("gate_set:with_idle_gates")
        distinct.add(hashlib.sha256(json.dumps([case["dim"], case["size"], case.get("variant"), case["rs"], case["form"], case.get("api")], sort_keys=True).encode()).hexdigest())
        if not ok:
            bump("failures:" + case["dim"])
            if len(oracle[name]["failures"]) < 20:
                oracle[name]["failures"].append({"case": case, "detail": detail})
        return ok

    for dim, size, variant in sweep_cases(rng, thorough):
        forms = ("text", "sexpr", "builder") if (thorough and dim not in ("register", "parallel") and not (dim == "aliases" and size > 66)) else (None,)
        for form in forms:
            case, ap = new_case(rng, dim, size, variant, form)
            bump("sweep:" + dim)
            do(case, ap)
    for case in sweep_api(rng, thorough):
        bump("sweep:api_defaults")
        do(case)
    for k in range(n):
        dim, size, variant = random_case(rng, thorough)
        case, ap = new_case(rng, dim, size, variant)
        do(case, ap)
        if len(samples) < 4 and k % 7 == 0:
            samples.append(case)
    return {"corr": {}, "oracle": oracle, "distribution": dist, "samples": samples, "nontrivial": len(distinct)}


def replay(case: dict, driver: str = DEFAULT_DRIVER) -> dict:
    try:
        ok, detail = judge(case)
    except Invalid as e:
        return {"model": None, "impl": None, "oracle_ok": None, "detail": f"not a valid program description: {e}"}
    name = case.get("oracle") or oracle_name(str(case.get("dim")))
    return {"model": None, "impl": None, "oracle_ok": bool(ok), "detail": f"{name}: {detail}"}


# ------------------------------------------------------------------ CLI
def main(argv=None):
    p = argparse.ArgumentParser(description=__doc__.split("\n")[0])
    p.add_argument("--driver", default=DEFAULT_DRIVER)
    p.add_argument("--count", type=int, default=150, help="number of random cases besides the sweeps")
    p.add_argument("--seed", type=int, default=0)
    p.add_argument("--thorough", action="store_true")
    p.add_argument("--json", action="store_true")
    a = p.parse_args(argv)
    t0 = time.time()
    res = run(a.seed, a.count, a.driver, a.thorough)
    if a.json:
        print(json.dumps(res))
    bad = 0
    for o, r in res["oracle"].items():
        print(f"oracle {o:20s} cases={r['cases']:6d} failures={len(r['failures'])}")
        bad += len(r["failures"])
        for d in r["failures"][:2]:
            print("   DETAIL", d["detail"][:1500])
            print("   CASE  ", json.dumps(d["case"]))
    print(f"nontrivial={res['nontrivial']}  wall={time.time() - t0:.1f}s  distribution=" + json.dumps(res["distribution"], sort_keys=True))
    return 1 if bad else 0


if __name__ == "__main__":
    sys.exit(main())
