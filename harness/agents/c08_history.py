#!/venv/bin/python
"""C08 over HISTORIES: several calls in a row that share argument OBJECTS.

Every other C08 stream (walk_diff, extra_c08) checks one call with fresh arguments.  Here one case is a
history of 2-6 observed calls among

    parse_jaqal_string(text, expand_let=True, override_dict=D)      then run / parse outputs
    fill_in_let(circuit, D)                                         then run / parse outputs
    run_jaqal_circuit(circuit)
    parse_jaqal_output_list(circuit, outputs)

in which the SAME override dict object D (non-empty, also mutated by the caller between calls), the same
circuit objects (plain, and filled-in ones made earlier in the history), the same outputs list object and
the same injected gate set are reused for DIFFERENT programs that declare the same let names with different
values (zero counts included), have identical subcircuits, nested loops with let-valued counts and
zero-count loops around subcircuits.

Every observed call is judged against an independent reference computed here from the program's structure
and the environment of THAT call (declared values overridden by the dict as the caller set it - the script
keeps its own record of what the caller put in the dict / the outputs list, so whatever an earlier call did
to the shared objects cannot leak into the expectation).  No purity assertion is made (that is C11); when a
step fails, the detail merely mentions a shared object that no longer holds what the caller put there.

oracle (the C08 text on the real code alone; corr is empty):
  hist_terminates          every library call of the history returns within the alarm
  hist_accepted            parsing / fill_in_let of a valid program with a valid override dict raises nothing
  hist_emulator_visits     run_jaqal_circuit: [readout.subcircuit.index] == reference unrolling for this call's
                           program and environment (zero counts give no visits, let-valued/overridden counts act
                           as literals), subcircuits numbered 0,1,2,... in flat order (also those never visited)
  hist_output_list_visits  parse_jaqal_output_list with an outputs list of matching length: same attribution,
                           and the readout values are the given outputs in order
  hist_own_readouts        readout indices 0,1,2,...; each subcircuit's .readouts are exactly its own readouts
                           in order and its relative frequencies count exactly those (nothing left over from an
                           earlier call of the history)
  hist_outcome_possible    every sampled outcome has non-zero probability in its subcircuit's distribution, and
                           is possible for the subcircuit of THIS call's program/environment (bits that the
                           reference knows to be deterministic)

CLI: c08_history.py [--seed S] [--n N] [--thorough]
"""
import os, sys, json, copy, random, signal, argparse

DEFAULT_DRIVER = "/verif/lean/.lake/build/bin/jaqal-model"
COUNT_NAMES = ["n", "m", "k", "reps", "inner"]
INDEX_NAMES = ["i", "j"]
ORACLES = ("hist_terminates", "hist_accepted", "hist_emulator_visits", "hist_output_list_visits",
           "hist_own_readouts", "hist_outcome_possible")
MAX_VISITS = 150          # bound on the unrolled visit sequence with every count at its maximum
_real = {}


def _load():
    """import jaqalpaq lazily (no work at import time)"""
    if _real:
        return _real
    os.environ["JAQALPAQ_RUN_EMULATOR"] = "1"
    root = os.path.dirname(os.path.dirname(os.path.dirname(os.path.abspath(__file__))))   # .../verif
    if not os.path.isfile(os.path.join(root, "harness", "gates.py")):
        root = "/verif"
    if root not in sys.path:
        sys.path.insert(0, root)
    import warnings
    warnings.filterwarnings("ignore")
    import numpy
    from harness.gates import GATES_IDLE as GI
    from harness import timeouts as T
    from jaqalpaq.parser import parse_jaqal_string
    from jaqalpaq.emulator import run_jaqal_circuit
    from jaqalpaq.core.algorithm import fill_in_let
    from jaqalpaq.core.result import parse_jaqal_output_list
    from jaqalpaq.error import JaqalError
    _real.update(GI=GI, T=T, np=numpy, parse=parse_jaqal_string, run=run_jaqal_circuit, fill=fill_in_let,
                 out=parse_jaqal_output_list, JaqalError=JaqalError)
    return _real


class Hang(Exception):
    pass


def _alarm(*a):
    raise Hang()


# ---------------------------------------------------------------- programs
# top-level items:
#   ["sub", "sc"|"pm", inner]     subcircuit { inner }   |   prepare_all inner measure_all
#   ["loop", count, items]        loop count { items }          count: int literal or the name of a let
#   ["blk", items]                { items }                     (top level only)
# inner items (inside one subcircuit, they never add a visit):
#   ["g", name, q]                name in X Y Z SX, q: int literal or the name of a let (r[q])
#   ["cx", c, t]                  CX r[c] r[t]
#   ["iloop", count, inner]       loop count { inner }
#   ["par", [g, g]]               < g | g > on distinct literal qubits
#   ["call", macro, q]            macro call with one qubit argument
# a macro is {"name": F, "body": inner} with the parameter `a` as the only qubit (["g", name, "a"]).

def gen_count(rng, ctx):
    if ctx["cnames"] and rng.random() < 0.65:
        return rng.choice(ctx["cnames"])
    return rng.choice([0, 1, 1, 2, 2, 3])


def gen_qubit(rng, ctx):
    if ctx.get("param"):
        return ctx["param"]
    if ctx["inames"] and rng.random() < 0.35:
        return rng.choice(ctx["inames"])
    return rng.randrange(ctx["nq"])


def gen_inner(rng, ctx, depth=0, maxlen=3):
    out = []
    for _ in range(rng.randint(0, maxlen)):
        k = rng.random()
        if k < 0.55 or depth >= 2:
            out.append(["g", rng.choice(["X", "X", "X", "Y", "Z", "SX"]), gen_qubit(rng, ctx)])
        elif k < 0.75:
            out.append(["iloop", gen_count(rng, ctx), gen_inner(rng, ctx, depth + 1, 2)])
        elif k < 0.83 and not ctx.get("param") and ctx["nq"] >= 2:
            c, t = rng.sample(range(ctx["nq"]), 2)
            out.append(["cx", c, t])
        elif k < 0.90 and not ctx.get("param") and ctx["nq"] >= 2:
            a, b = rng.sample(range(ctx["nq"]), 2)
            out.append(["par", [["g", rng.choice(["X", "Y", "Z"]), a], ["g", rng.choice(["X", "Y"]), b]]])
        elif ctx.get("macros") and not ctx.get("param"):
            out.append(["call", rng.choice(ctx["macros"]), gen_qubit(rng, ctx)])
        else:
            out.append(["g", "X", gen_qubit(rng, ctx)])
    return out


def gen_sub(rng, ctx):
    if ctx.get("same_sub") is not None:
        return ["sub", rng.choice(["sc", "pm"]), copy.deepcopy(ctx["same_sub"])]
    return ["sub", rng.choice(["sc", "sc", "pm"]), gen_inner(rng, ctx)]


def gen_items(rng, ctx, depth, maxdepth, top=False):
    out = []
    for _ in range(rng.randint(1 if top else 0, 3)):
        k = rng.random()
        if k < 0.45 or depth >= maxdepth:
            out.append(gen_sub(rng, ctx))
        elif k < 0.92 or not top:
            out.append(["loop", gen_count(rng, ctx), gen_items(rng, ctx, depth + 1, maxdepth)])
        else:
            out.append(["blk", gen_items(rng, ctx, depth + 1, maxdepth)])
    return out


def count_subs(items):
    return sum(1 if it[0] == "sub" else count_subs(it[-1]) for it in items)


def uses_let_count(items):
    return any((it[0] == "loop" and (isinstance(it[1], str) or uses_let_count(it[2]))) or
               (it[0] == "blk" and uses_let_count(it[1])) for it in items)


def gen_decl(rng, cnames, inames, nq):
    d = {nm: rng.choice([0, 0, 0, 1, 1, 2, 2, 3]) for nm in cnames}
    d.update({nm: rng.randrange(nq) for nm in inames})
    return d


def gen_program(rng, cnames, inames, nq, maxdepth):
    for _ in range(200):
        ctx = {"cnames": cnames, "inames": inames, "nq": nq, "macros": []}
        macros = []
        if rng.random() < 0.3:
            body = gen_inner(rng, dict(ctx, param="a"), 1, 3)
            macros.append({"name": "F", "body": body})
            ctx["macros"] = ["F"]
        if rng.random() < 0.4:
            ctx["same_sub"] = gen_inner(rng, ctx)
        items = gen_items(rng, ctx, 0, maxdepth, top=True)
        worst = {nm: 3 for nm in cnames}
        if count_subs(items) == 0 or not uses_let_count(items) or len(ref_visits(items, worst)) > MAX_VISITS:
            continue
        return {"decl": gen_decl(rng, cnames, inames, nq), "nq": nq, "macros": macros, "items": items,
                "identical_subs": ctx.get("same_sub") is not None and count_subs(items) > 1}
    raise RuntimeError("generator could not produce a program")


# ---------------------------------------------------------------- text

def q_text(q):
    return "a" if q == "a" else f"r[{q}]"


def inner_text(inner, ind):
    out = []
    for it in inner:
        if it[0] == "g": out.append(f"{ind}{it[1]} {q_text(it[2])}")
        elif it[0] == "cx": out.append(f"{ind}CX r[{it[1]}] r[{it[2]}]")
        elif it[0] == "iloop": out.append(f"{ind}loop {it[1]} {{\n" + inner_text(it[2], ind + "  ") + f"\n{ind}}}")
        elif it[0] == "par": out.append(f"{ind}< " + " | ".join(f"{g[1]} {q_text(g[2])}" for g in it[1]) + " >")
        else: out.append(f"{ind}{it[1]} {q_text(it[2])}")
    return "\n".join(out)


def items_text(items, ind=""):
    out = []
    for it in items:
        if it[0] == "sub":
            body = inner_text(it[2], ind + "  ")
            if it[1] == "sc": out.append(f"{ind}subcircuit {{\n{body}\n{ind}}}")
            else: out.append(f"{ind}prepare_all\n{body}\n{ind}measure_all")
        elif it[0] == "loop": out.append(f"{ind}loop {it[1]} {{\n" + items_text(it[2], ind + "  ") + f"\n{ind}}}")
        else: out.append(f"{ind}{{\n" + items_text(it[1], ind + "  ") + f"\n{ind}}}")
    return "\n".join(out)


def prog_text(p):
    head = "".join(f"let {nm} {v}\n" for nm, v in p["decl"].items()) + f"register r[{p['nq']}]\n"
    for m in p["macros"]:
        head += f"macro {m['name']} a {{\n" + inner_text(m["body"], "  ") + "\n}\n"
    return head + items_text(p["items"]) + "\n"


# ---------------------------------------------------------------- independent reference (property text only)

def val(c, env):
    return env[c] if isinstance(c, str) else c


def _walk(items, env, k):
    """-> (visited subcircuit numbers in execution order, next flat number).  Numbers follow the text, whatever
    the loop counts; a loop repeats the visits of its body `count` times, none for a count of zero."""
    visits = []
    for it in items:
        if it[0] == "sub":
            visits.append(k); k += 1
        elif it[0] == "loop":
            body, k = _walk(it[2], env, k)
            visits += body * max(val(it[1], env), 0)
        else:
            body, k = _walk(it[1], env, k)
            visits += body
    return visits, k


def ref_visits(items, env):
    return _walk(items, env, 0)[0]


def flat_subs(items, out=None):
    out = [] if out is None else out
    for it in items:
        if it[0] == "sub": out.append(it)
        else: flat_subs(it[-1], out)
    return out


def _bits(inner, env, macros, st, arg=None):
    """classical reachability of the measured bits: st[q] in (0, 1, None=unknown).  X/Y flip, Z keeps, SX makes the
    qubit unknown, CX flips the target when the control is 1 and makes it unknown when the control is unknown."""
    for it in inner:
        if it[0] == "g":
            q = arg if it[2] == "a" else val(it[2], env)
            if it[1] in ("X", "Y"): st[q] = None if st[q] is None else 1 - st[q]
            elif it[1] == "SX": st[q] = None
        elif it[0] == "cx":
            c, t = it[1], it[2]
            if st[c] is None: st[t] = None
            elif st[c] == 1 and st[t] is not None: st[t] = 1 - st[t]
        elif it[0] == "iloop":
            for _ in range(max(val(it[1], env), 0)): _bits(it[2], env, macros, st, arg)
        elif it[0] == "par":
            _bits(it[1], env, macros, st, arg)
        else:
            _bits(macros[it[1]], env, macros, st, val(it[2], env))
    return st


def ref_support(prog, env):
    macros = {m["name"]: m["body"] for m in prog["macros"]}
    return [_bits(s[2], env, macros, [0] * prog["nq"]) for s in flat_subs(prog["items"])]


def env_of(decl, override):
    e = dict(decl)
    if override:
        e.update({k: v for k, v in override.items() if k in decl})
    return e


def out_int(v):
    return int(v[::-1], 2) if isinstance(v, str) else v


# ---------------------------------------------------------------- histories

def gen_dict(rng, cnames, inames, nq, proper):
    names = cnames + inames
    k = rng.randint(1, max(1, len(names) - 1)) if proper else rng.randint(1, len(names))
    return {nm: (rng.randrange(nq) if nm in inames else rng.choice([0, 0, 1, 2, 3])) for nm in rng.sample(names, k)}


def gen_history(rng, thorough=False):
    nq = rng.choice([2, 3])
    cnames = rng.sample(COUNT_NAMES, rng.randint(1, 3))
    inames = rng.sample(INDEX_NAMES, rng.choice([0, 0, 1]))
    maxdepth = 3 if thorough else 2
    nprog = rng.choice([2, 2, 3, 3, 4] if thorough else [2, 2, 2, 3])
    progs = [gen_program(rng, cnames, inames, nq, maxdepth)]
    same_shape = rng.random() < 0.5
    while len(progs) < nprog:
        if same_shape or rng.random() < 0.1:
            p = copy.deepcopy(progs[0])
            for _ in range(20):
                p["decl"] = gen_decl(rng, cnames, inames, nq)
                if p["decl"] != progs[-1]["decl"]: break
        else:
            p = gen_program(rng, cnames, inames, nq, maxdepth)
        progs.append(p)
    dicts = [gen_dict(rng, cnames, inames, nq, proper=rng.random() < 0.75)]
    if rng.random() < 0.45:
        dicts.append({} if rng.random() < 0.4 else gen_dict(rng, cnames, inames, nq, proper=True))
    nouts = rng.choice([1, 1, 2])
    case = {"nq": nq, "cnames": cnames, "inames": inames, "progs": progs, "dicts": copy.deepcopy(dicts),
            "nouts": nouts, "npseed": rng.randrange(2 ** 31), "steps": []}
    steps = case["steps"]
    shadow = copy.deepcopy(dicts)
    outs = [[] for _ in range(nouts)]
    slots = {}                       # name -> {"p", "env", "filled"}
    fresh = [0]

    def new_slot(p, env, filled):
        nm = f"c{fresh[0]}"; fresh[0] += 1
        slots[nm] = {"p": p, "env": env, "filled": filled}
        return nm

    def pick_dict():
        r = rng.random()
        if r < 0.08: return None
        return 0 if (len(dicts) == 1 or rng.random() < 0.7) else 1

    def plain(p):
        nm = f"P{p}"
        if nm not in slots:
            steps.append({"op": "parse", "p": p, "to": nm})
            slots[nm] = {"p": p, "env": dict(progs[p]["decl"]), "filled": False}
        return nm

    def fill_from(src, d):
        s = slots[src]
        env = dict(s["env"]) if s["filled"] else env_of(progs[s["p"]]["decl"], None if d is None else shadow[d])
        nm = new_slot(s["p"], env, True)
        steps.append({"op": "fill", "from": src, "d": d, "to": nm})
        return nm

    target = rng.randint(2, 6)
    obs = 0
    last_p = None
    again = None
    while obs < target:
        if rng.random() < 0.22:
            d = rng.randrange(len(dicts))
            names = cnames + inames
            st, dl = {}, []
            for nm in rng.sample(names, rng.randint(1, min(2, len(names)))):
                if nm in shadow[d] and rng.random() < 0.4: dl.append(nm)
                else: st[nm] = rng.randrange(nq) if nm in inames else rng.choice([0, 1, 2, 3])
            for nm in dl: del shadow[d][nm]
            shadow[d].update(st)
            steps.append({"op": "mut", "d": d, "set": st, "del": dl})
            continue
        others = [i for i in range(nprog) if i != last_p]
        p = rng.choice(others) if (others and rng.random() < 0.75) else rng.randrange(nprog)
        r = rng.random()
        if again is not None and rng.random() < 0.18:
            # the same producer call once more (same text / circuit object, same dict object), typically after the
            # caller changed the dict
            r, p, d = again
        else:
            d = pick_dict()
        last_p = p
        again = None
        if r < 0.30:
            c = new_slot(p, env_of(progs[p]["decl"], None if d is None else shadow[d]), True)
            steps.append({"op": "parse_let", "p": p, "d": d, "to": c})
            again = (0.0, p, d)
        elif r < 0.60:
            c = fill_from(plain(p), d)
            again = (0.5, p, d)
        elif r < 0.75:
            c = plain(p)
        else:
            old = [nm for nm in slots]           # a circuit object made earlier in the history
            c = rng.choice(old) if old else plain(p)
            if rng.random() < 0.3: c = fill_from(c, pick_dict())
            last_p = slots[c]["p"]
        s = slots[c]
        want = ref_visits(progs[s["p"]]["items"], s["env"])
        nobs = 1 if rng.random() < 0.75 else 2      # sometimes the same circuit object is observed twice in a row
        for _ in range(nobs):
            if rng.random() < 0.55:
                steps.append({"op": "run", "c": c})
            else:
                o = rng.randrange(nouts)
                if len(outs[o]) == len(want) and rng.random() < 0.6:
                    vals = None
                else:
                    vals = outs[o][:len(want)]
                    while len(vals) < len(want):
                        v = rng.randrange(2 ** nq)
                        vals.append(format(v, "b").zfill(nq)[::-1] if rng.random() < 0.4 else v)
                    outs[o] = list(vals)
                steps.append({"op": "out", "c": c, "o": o, "vals": vals})
            obs += 1
    for p in progs:
        p["src"] = prog_text(p)
    return case


# ---------------------------------------------------------------- executing one history on the real code

def exec_history(case, R=None):
    """-> (checks, features): checks = [(oracle, ok, detail, step index)]"""
    R = R or _load()
    np = R["np"]; T = R["T"]
    progs = case["progs"]
    texts = [prog_text(p) for p in progs]
    real_d = [dict(d) for d in case["dicts"]]          # the objects handed to the library, reused all along
    shadow = [dict(d) for d in case["dicts"]]          # what the caller put there
    real_o = [[] for _ in range(case["nouts"])]
    shadow_o = [[] for _ in range(case["nouts"])]
    gates = R["GI"]                                    # one gate-set object for every call
    slots = {}
    checks = []
    feat = {"dict_progs": {}, "dict_mutated_after_use": 0, "slot_uses": {}, "out_uses": {}, "zero_loop_around_sub": 0,
            "unoverridden_shared_let_differs": 0, "last_use": {}}

    def note():
        msgs = []
        for j, (a, b) in enumerate(zip(real_d, shadow)):
            if a != b: msgs.append(f"override dict #{j} now holds {a} although the caller set {b}")
        for j, (a, b) in enumerate(zip(real_o, shadow_o)):
            if a != b: msgs.append(f"outputs list #{j} now holds {a} although the caller set {b}")
        return ("; " + "; ".join(msgs)) if msgs else ""

    def call(f, *a, **k):
        signal.alarm(int(T.limit()))
        try:
            return f(*a, **k)
        finally:
            signal.alarm(0)

    def use_dict(d, p):
        if d is None: return
        feat["dict_progs"].setdefault(d, set()).add(p)
        prev = feat["last_use"].get(d)
        if prev is not None and prev != p:
            a, b = progs[prev]["decl"], progs[p]["decl"]
            if any(nm not in shadow[d] and a[nm] != b[nm] for nm in a):
                feat["unoverridden_shared_let_differs"] += 1
        feat["last_use"][d] = p

    old = signal.signal(signal.SIGALRM, _alarm)
    st = np.random.get_state()
    np.random.seed(case.get("npseed", 0))
    try:
        for idx, s in enumerate(case["steps"]):
            op = s["op"]
            tag = f"step {idx} {json.dumps(s)}"
            try:
                if op == "mut":
                    for nm in s["del"]:
                        real_d[s["d"]].pop(nm, None); shadow[s["d"]].pop(nm, None)
                    real_d[s["d"]].update(s["set"]); shadow[s["d"]].update(s["set"])
                    if s["d"] in feat["dict_progs"]: feat["dict_mutated_after_use"] += 1
                    continue
                if op in ("parse", "parse_let", "fill"):
                    try:
                        if op == "parse":
                            c = call(R["parse"], texts[s["p"]], inject_pulses=gates, autoload_pulses=False)
                            slots[s["to"]] = {"p": s["p"], "env": dict(progs[s["p"]]["decl"]), "filled": False, "c": c}
                        elif op == "parse_let":
                            d = s["d"]
                            env = env_of(progs[s["p"]]["decl"], None if d is None else shadow[d])
                            use_dict(d, s["p"])
                            c = call(R["parse"], texts[s["p"]], inject_pulses=gates, autoload_pulses=False, expand_let=True,
                                     override_dict=None if d is None else real_d[d])
                            slots[s["to"]] = {"p": s["p"], "env": env, "filled": True, "c": c}
                        else:
                            src = slots[s["from"]]; d = s["d"]
                            env = dict(src["env"]) if src["filled"] else env_of(progs[src["p"]]["decl"], None if d is None else shadow[d])
                            use_dict(d, src["p"])
                            feat["slot_uses"][s["from"]] = feat["slot_uses"].get(s["from"], 0) + 1
                            c = call(R["fill"], src["c"]) if d is None else call(R["fill"], src["c"], real_d[d])
                            slots[s["to"]] = {"p": src["p"], "env": env, "filled": True, "c": c}
                        checks.append(("hist_accepted", True, "", idx))
                    except Hang:
                        raise
                    except Exception as e:
                        checks.append(("hist_accepted", False, f"{tag}: {type(e).__name__}: {e}{note()}", idx))
                        return checks, feat
                    checks.append(("hist_terminates", True, "", idx))
                    continue
                # ---- observed calls
                sl = slots[s["c"]]
                prog = progs[sl["p"]]; env = sl["env"]
                want = ref_visits(prog["items"], env)
                nsub = count_subs(prog["items"])
                feat["slot_uses"][s["c"]] = feat["slot_uses"].get(s["c"], 0) + 1
                if _zero_around_sub(prog["items"], env): feat["zero_loop_around_sub"] += 1
                oname = "hist_emulator_visits" if op == "run" else "hist_output_list_visits"
                given = None
                try:
                    if op == "run":
                        r = call(R["run"], sl["c"])
                    else:
                        o = s["o"]
                        feat["out_uses"][o] = feat["out_uses"].get(o, 0) + 1
                        if s["vals"] is not None:
                            real_o[o][:] = s["vals"]; shadow_o[o] = list(s["vals"])
                        given = [out_int(v) for v in shadow_o[o]]
                        r = call(R["out"], sl["c"], real_o[o])
                except Hang:
                    raise
                except Exception as e:
                    checks.append((oname, False, f"{tag}: {type(e).__name__}: {e}; reference visits {want} (environment {env}){note()}", idx))
                    checks.append(("hist_terminates", True, "", idx))
                    continue
                checks.append(("hist_terminates", True, "", idx))
                got = [ro.subcircuit.index for ro in r.readouts]
                subs = list(r.subcircuits)
                ok = (got == want and len(subs) == nsub and [sc.index for sc in subs] == list(range(nsub))
                      and all(ro.subcircuit is subs[ro.subcircuit.index] for ro in r.readouts if 0 <= ro.subcircuit.index < len(subs)))
                detail = f"{tag}: visits {got} over {len(subs)} subcircuits, reference {want} over {nsub} (environment {env})"
                if ok and given is not None:
                    vals = [ro.as_int for ro in r.readouts]
                    ok = vals == given
                    detail = f"{tag}: readout values {vals}, outputs given {given}"
                checks.append((oname, ok, "" if ok else detail + note(), idx))
                # own readouts / frequencies / indices
                ok = [ro.index for ro in r.readouts] == list(range(len(r.readouts)))
                detail = f"readout indices {[ro.index for ro in r.readouts]}"
                for k, sc in enumerate(subs):
                    own = [ro for ro in r.readouts if ro.subcircuit is sc]
                    mine = list(sc.readouts)
                    freq = [int(round(float(x))) for x in sc.relative_frequency_by_int]
                    hist = [0] * len(freq)
                    bad = False
                    for ro in own:
                        if 0 <= ro.as_int < len(hist): hist[ro.as_int] += 1
                        else: bad = True
                    if bad or len(mine) != len(own) or any(a is not b for a, b in zip(mine, own)) or freq != hist or \
                            any(abs(float(x) - h) > 1e-9 for x, h in zip(sc.relative_frequency_by_int, hist)):
                        ok = False
                        detail = (f"subcircuit {k}: {len(mine)} readouts listed, {len(own)} own readouts in the result; "
                                  f"frequencies {freq}, own histogram {hist}")
                        break
                checks.append(("hist_own_readouts", ok, "" if ok else f"{tag}: {detail}{note()}", idx))
                if op == "run":
                    sup = ref_support(prog, env)
                    ok = True; detail = ""
                    for ro in r.readouts:
                        k = ro.subcircuit.index
                        pr = ro.subcircuit.simulated_probability_by_int
                        if not (0 <= ro.as_int < len(pr)) or not pr[ro.as_int] > 0:
                            ok = False; detail = f"readout {ro.index} = {ro.as_int} has probability 0 in subcircuit {k}"; break
                        if 0 <= k < len(sup) and any(b is not None and ((ro.as_int >> q) & 1) != b for q, b in enumerate(sup[k])):
                            ok = False
                            detail = (f"readout {ro.index} = {ro.as_int} (bit q = qubit q) is impossible for subcircuit {k} of this "
                                      f"program under {env}: reference bits {sup[k]}")
                            break
                    checks.append(("hist_outcome_possible", ok, "" if ok else f"{tag}: {detail}{note()}", idx))
            except Hang:
                T.saw_hang()
                checks.append(("hist_terminates", False, f"{tag}: no result within the time limit{note()}", idx))
                return checks, feat
    finally:
        signal.alarm(0)
        signal.signal(signal.SIGALRM, old)
        np.random.set_state(st)
    return checks, feat


def _zero_around_sub(items, env):
    for it in items:
        if it[0] == "loop":
            if val(it[1], env) == 0 and count_subs(it[2]) > 0: return True
            if _zero_around_sub(it[2], env): return True
        elif it[0] == "blk" and _zero_around_sub(it[1], env): return True
    return False


def strip(case):
    """JSON copy of a case (everything needed to replay it)"""
    return json.loads(json.dumps(case))


# ---------------------------------------------------------------- protocol

def run(seed: int, n: int, driver: str = DEFAULT_DRIVER, thorough: bool = False) -> dict:
    R = _load()
    rng = random.Random(f"c08_history:{seed}")
    if thorough: n = n * 6
    oracle = {k: {"cases": 0, "failures": [], "total": 0} for k in ORACLES}
    dist = {}
    samples = []
    distinct = set()

    def bump(k, v=1):
        dist[k] = dist.get(k, 0) + v

    for i in range(n):
        case = gen_history(rng, thorough)
        checks, feat = exec_history(case, R)
        failed = set()
        for name, ok, detail, idx in checks:
            oracle[name]["cases"] += 1
            if not ok and name not in failed:          # one failure per oracle and history: the first failing step
                failed.add(name)
                oracle[name]["total"] += 1
                if len(oracle[name]["failures"]) < 20:
                    oracle[name]["failures"].append({"case": dict(strip(case), failed_step=idx), "detail": detail})
        steps = case["steps"]
        nobs = sum(1 for s in steps if s["op"] in ("run", "out"))
        bump("histories"); bump(f"observed_calls_{nobs}"); bump(f"programs_{len(case['progs'])}")
        for s in steps: bump("op_" + s["op"])
        bump("op_parse_let_or_fill_without_dict", sum(1 for s in steps if s["op"] in ("parse_let", "fill") and s["d"] is None))
        if any(len(ps) > 1 for ps in feat["dict_progs"].values()): bump("same_dict_object_for_different_programs")
        if feat["dict_mutated_after_use"]: bump("dict_mutated_by_caller_between_uses")
        if feat["unoverridden_shared_let_differs"]: bump("same_dict_then_shared_let_not_in_dict_with_other_value")
        if any(v > 1 for v in feat["slot_uses"].values()): bump("same_circuit_object_used_again")
        if any(v > 1 for v in feat["out_uses"].values()): bump("same_outputs_list_object_used_again")
        if any(s["op"] == "out" and s["vals"] is None for s in steps): bump("outputs_list_passed_again_unchanged")
        if feat["zero_loop_around_sub"]: bump("observed_call_with_zero_count_loop_around_subcircuit")
        if any(p["identical_subs"] for p in case["progs"]): bump("program_with_identical_subcircuits")
        if any(p["macros"] for p in case["progs"]): bump("program_with_macro")
        if len({json.dumps(p["items"]) for p in case["progs"]}) == 1: bump("same_shape_different_declared_values")
        if any(s["op"] == "fill" and not s["from"].startswith("P") for s in steps): bump("fill_of_an_already_filled_circuit")
        bump("gate_set_object_shared_by_all_calls")
        if nobs >= 2 and len(case["progs"]) >= 2:
            distinct.add(json.dumps([[p["decl"], p["items"]] for p in case["progs"]] + [case["steps"]], sort_keys=True))
        if len(samples) < 4: samples.append(strip(case))
    return {"corr": {}, "oracle": oracle, "distribution": dist, "samples": samples, "nontrivial": len(distinct)}


def replay(case: dict, driver: str = DEFAULT_DRIVER) -> dict:
    checks, _ = exec_history(case, _load())
    fails = [f"{name}: {detail}" for name, ok, detail, idx in checks if not ok]
    return {"oracle_ok": not fails, "detail": "; ".join(fails[:4]) or "ok",
            "impl": {"checks": len(checks), "failed": len(fails)}}


def main():
    ap = argparse.ArgumentParser()
    ap.add_argument("--seed", type=int, default=0)
    ap.add_argument("--n", type=int, default=300)
    ap.add_argument("--thorough", action="store_true")
    a = ap.parse_args()
    res = run(a.seed, a.n, thorough=a.thorough)
    bad = 0
    for name, d in res["oracle"].items():
        bad += d["total"]
        print(f"oracle {name:26} cases {d['cases']:6}  failures {d['total']}")
        for x in d["failures"][:2]:
            print("   ", x["detail"][:1500])
            for p in x["case"]["progs"]: print("    program:\n      " + p["src"].replace("\n", "\n      "))
    print("distribution", res["distribution"], "nontrivial", res["nontrivial"])
    sys.exit(0 if bad == 0 else 1)


if __name__ == "__main__":
    main()
