#!/venv/bin/python
"""Property C16 - fifth-round stream: COMBINATIONS and POSITIONS the generators of `c16_diff.py` / `c16_edge.py` never produce.

Oracles only (`"corr": {}`).  As in `c16_edge.py` no call into the library is made in the process of `run`: a few FRESH
interpreters (`--worker`) run the calls, every call at least twice - once in the order of its stream and once more in another
interpreter inside a shuffled history of calls of ALL streams (hundreds of different programs, the earlier circuits dropped) -
and all outcomes of a call must agree.

Run:   PYTHONPATH=/verif /venv/bin/python /verif/harness/agents/c16_combo.py [--n N] [--seed S] [--thorough] [--open-findings]

Entry points: `parse_jaqal_string` (flag combinations, override_dict, with / without gate set), `parse_jaqal_string_header`,
`parse_to_sexpression`, `parse_jaqal_file`, `parse_jaqal_file_header`, `run_jaqal_string`, `run_jaqal_file`, `run_jaqal_circuit`
(on the plain parse, with overrides, and on the result of EVERY flag combination = the passes in other orders),
`parse_jaqal_output_list`.  A file is read by the library with universal newlines: every reference below is computed on
the text the parser sees (`\\r\\n` and a lone `\\r` of a FILE are newlines; in a string only `\\n` is).

oracle
  only_jaqalerror_or_importerror : nothing but JaqalError (ImportError only from a call that loads a named pulse module) escapes
  terminates                     : every call answers within `harness.timeouts.limit()` seconds
  parse_error_has_position       : a JaqalParseError carries the (line, column) - line = 1 + number of "\\n" before, column =
                                   distance from the last "\\n", NOTHING else is a line break - of a token start / of the first
                                   character that starts no token (the script's own tokenizer), or ("EOF", 0)
  offending_token_position       : texts wrong BY CONSTRUCTION at one known place (everything before it is the prefix of a valid
                                   program, reference parse included in the run): an illegal character, a quote, a number out of
                                   range, an integer literal of 4301 digits, a closing bracket that does not match, an
                                   unterminated `/*`, a separator inside an unfinished statement -> JaqalParseError at exactly
                                   that (line, column); for the errors the grammar rules raise themselves (header statement after
                                   the body, register of size 0) at a token of the offending statement
  ends_too_early_is_parse_error  : a text that stops inside a statement / block / macro / bracket: JaqalParseError reported at
                                   the end of input (("EOF", 0) or nothing before the last token)
  position_ignores_comment_contents : the text and its twin in which every odd character INSIDE COMMENTS is replaced by `x` (same
                                   length, same "\\n", same tokens at the same places): a JaqalParseError of one is a
                                   JaqalParseError of the other at the same (line, column)
  no_sticky_state                : the canonical outcome of a call (error class + position / digest of the dumped circuit / run
                                   summary) is the same at every place it occurs (stream order in one interpreter, shuffled
                                   histories in others); a deviating history is re-run from fresh interpreters and shortened

streams
  odd    : (theme: three ordinary features) a COMMENT (block, block over several lines, line comment, two comments, empty)
           holding a CHARACTER some string methods take for a line break or for white space although Jaqal does not (lone \\r,
           \\x0b, \\x0c, \\x1c-\\x1e, \\x85, U+2028, U+2029; \\x00, \\x1f, \\x7f, NBSP, U+3000, BOM, ZWSP, tab, non-ASCII, astral,
           combining) and an ERROR (nine kinds) on the SAME line (directly behind, behind further tokens, in front of the
           comment), or on a later line; inserted at token boundaries of random valid programs (`c16_diff.make_runnable`,
           `c01_diff.make_program`, also with CRLF line ends for the file entry points) and into fixed templates for the errors
           the grammar rules raise; through every text entry point.
  runs   : (theme: termination) 30 - 5000 (thorough: - 100000) repetitions of one character / short pattern where a lexer
           pattern could backtrack or a counter overflow: inside an UNTERMINATED block comment (`*`, `**note** `, `* `, `*\\n`,
           ` *\\n`, `/`, `/*`, `*x`, stars then text, ...; at the start of the text, after statements, inside a statement, inside
           a block), inside a terminated one followed by an error on the same line, in a line comment without final newline,
           unterminated / huge binary literals, digits without / with a dot, exponents, signs, dots, dotted identifiers,
           separators and blank lines before an error (line / column far out), brackets.  Run in ascending length, so the
           first hang is a short input; after two hangs an interpreter skips the rest of this stream.
  ends   : (theme: LAST element) every kind of unfinished statement followed by nothing / white space / a comment without
           newline / a newline / `;`; valid programs whose LAST statement is of every kind (gate, loop, `loop n < >`, block,
           empty block, macro definition, macro call, subcircuit, header only) with every tail (no newline, `;`, comment, odd
           character in the comment, blank lines).
  combo  : (themes: name shadowing, shape one level off, state left behind) macros whose parameter has the name of a let /
           register / alias that the body also uses as index, loop count, gate argument, qubit, subcircuit count, with an
           override_dict entry for that name, through every flag combination, run directly and run AFTER every flag combination;
           `loop n < a | b >` versus `loop n { < a | b > }`, subcircuits that occur only nested, a macro call as the only
           statement, empty `< >` / `{ }` / `subcircuit { }` / `loop 0 { }` / empty macros BEFORE the program and as its last
           statement.

Not covered, because the quantifier of C16 is over TEXTS and HISTORIES: passes called directly on circuit objects.

FINDING of this stream on the pinned library, REPAIRED in /repo by 2ecedb7 (now inside `run`; C16_COMBO_BININT=0 removes it; `--open-findings` / `probe_open_findings()` shows it; set
C16_COMBO_BININT=1 to put it into the `runs` stream):
  huge_binary_literal : a binary literal of 14285 or more digits where the grammar does not allow one, e.g.
           "register r[2]\\nP r[0] '" + "1" * 14285 + "'\\n": `JaqalParser.error` formats the token's value (an int of more than
           4300 decimal digits) into the message and ValueError ("Exceeds the limit (4300 digits) for integer string
           conversion") escapes from parse_jaqal_string instead of a JaqalParseError at 2:8.

Recommended: quick `run(seed, 120)`, thorough `run(seed, 500, thorough=True)`.
"""
import argparse
import json
import locale
import os
import random
import subprocess
import sys
import time
from collections import Counter

DEFAULT_DRIVER = "/verif/lean/.lake/build/bin/jaqal-model"
MAX_PRONE_HANGS = 2       # per interpreter: then the rest of the `runs` stream is skipped
MAX_HANGS = 5             # per interpreter: then everything is skipped
INCLUDE_BININT = os.environ.get("C16_COMBO_BININT", "1") == "1"  # repaired in /repo (2ecedb7): part of the judged stream

_loaded = False


def _root():
    root = os.path.dirname(os.path.dirname(os.path.dirname(os.path.abspath(__file__))))
    return root if os.path.isdir(os.path.join(root, "harness")) else "/verif"


def _imports():
    """imports the library and the helpers of the existing scripts; calls no entry point"""
    global _loaded
    if _loaded:
        return
    global E, D, C01, T
    os.environ["JAQALPAQ_RUN_EMULATOR"] = "1"
    try:
        import harness  # noqa
    except ImportError:
        sys.path.insert(0, _root())
    from harness.agents import c16_edge as E
    E._imports()
    D, C01, T = E.D, E.C01, E.T
    _loaded = True


# ------------------------------------------------------------------------------------------------ the script's own reading of a text

FILE_KINDS = ("parse_file", "run_file", "header_file")


def seen_text(call):
    """the text the parser sees: the library reads a file with universal newlines"""
    t = call["text"]
    if call["kind"] in FILE_KINDS:
        t = t.replace("\r\n", "\n").replace("\r", "\n")
    return t


def scan(text):
    """-> ([(offset, lexeme, group)], offset of the first character that starts no token | None); comments and blanks included"""
    out, pos = [], 0
    while pos < len(text):
        m = D.OWN_RE.match(text, pos)
        if not m or m.end() == pos:
            return out, pos
        out.append((pos, m.group(), m.lastgroup))
        pos = m.end()
    return out, None


CLOSERS = {"{": "}", "<": ">", "[": "]"}


def boundaries(text):
    """places where something can be put between two tokens of a lexable, bracket-balanced text:
    -> [(offset, bracket stack there)] or None"""
    lex, bad = scan(text)
    if bad is not None:
        return None
    out, st, prev = [], [], None
    for off, lx, g in lex:
        if g in ("ws", "cm", "bc"):
            prev = g
            continue
        if not (g == "nl" and prev == "cm"):        # directly behind a line comment the insertion would be part of it
            out.append((off, tuple(st)))
        if lx in CLOSERS:
            st.append(lx)
        elif lx in ("}", ">", "]"):
            if not st or CLOSERS[st[-1]] != lx:
                return None
            st.pop()
        prev = g
    if st:
        return None
    if prev != "cm":
        out.append((len(text), ()))
    return out


# ------------------------------------------------------------------------------------------------ stream `odd`

ODD_BREAKS = ["\r", "\x0b", "\x0c", "\x1c", "\x1d", "\x1e", "\x85", "\u2028", "\u2029"]            # str.splitlines() splits here
ODD_OTHER = ["\x00", "\x1f", "\x7f", "\xa0", "\u3000", "\ufeff", "\u200b", "\t", "\xe9", "\U0001F600", "e\u0301", "\x0c\x0b", "\r\r",
             "\u2028\u2029", "\x1c\x1d\x1e"]
ODD_NAMES = {"\r": "CR", "\x0b": "VT", "\x0c": "FF", "\x1c": "FS", "\x1d": "GS", "\x1e": "RS", "\x85": "NEL", "\u2028": "LS", "\u2029": "PS",
             "\x00": "NUL", "\x1f": "US", "\x7f": "DEL", "\xa0": "NBSP", "\u3000": "IDSP", "\ufeff": "BOM", "\u200b": "ZWSP", "\t": "TAB",
             "\xe9": "latin1", "\U0001F600": "astral", "e\u0301": "combining", "\x0c\x0b": "FF+VT", "\r\r": "CR+CR", "\u2028\u2029": "LS+PS",
             "\x1c\x1d\x1e": "FS+GS+RS"}

# comment templates; `{c}` = the odd character(s).  (kind, text); kind "line" must be followed by a newline
COMMENTS = [
    ("block", "/*{c}*/"), ("block", "/* page {c} break */"), ("block", "/*{c}{c}*/"), ("block", "/* a{c}*/"), ("block", "/*{c} b */"),
    ("block", "/**{c}**/"), ("block", "/* a{c}b */ /* c{c}d */"), ("block", "/*{c}*//*{c}*/"), ("block", "/* // {c} */"),
    ("block_nl", "/* a\n b {c} c */"), ("block_nl", "/* a {c}\n b */"), ("block_nl", "/*{c}\n{c}\n{c}*/"), ("block_nl", "/*\n{c}*/"),
    ("block_nl", "/* a {c}\r\n b {c} */"),
    ("line", "// a {c} b\n"), ("line", "//{c}\n"), ("line", "// /* {c}\n"), ("line", "// a {c}\n// b {c}\n"),
]

# errors: (name, text put in, offset of the offending character inside it, needs a bracket stack?)
BIG_INT = "9" * 4301


def error_choices(stack):
    out = [("illegal_char", "$", 0), ("illegal_char", "\\", 0), ("illegal_char", "?", 0), ("illegal_char", "\xe9", 0), ("illegal_char", "\r", 0),
           ("illegal_char", "\x0c", 0), ("illegal_char", "\u2028", 0), ("illegal_char", "\x85", 0),
           ("quote", " ' ", 1), ("quote", " '2' ", 1), ("quote", " '' ", 1), ("number_out_of_range", " 1.0e999 ", 1), ("number_out_of_range", " -9.9E+400 ", 1),
           ("integer_too_long", " " + BIG_INT + " ", 1), ("unterminated_comment", "/*", 0), ("unterminated_comment", "/* *", 0),
           ("slash", "/ ", 0), ("slash", "/ /", 0)]
    for c in ("}", ">", "]"):
        if not stack or CLOSERS[stack[-1]] != c:
            out.append(("mismatched_" + c, c, 0))
    return out


def odd_insert(base, bnds, rng, thorough):
    """-> (text, twin text, offset of the offending character, features, odd); the twin has `x` for every odd character the
    script put into a COMMENT (same length, same newlines, same tokens)"""
    odd = rng.choice(ODD_BREAKS if rng.random() < 0.7 else ODD_OTHER)
    ckind, ctmpl = rng.choice(COMMENTS)
    i2 = rng.randrange(len(bnds))
    p2, stack = bnds[i2]
    where = rng.choice(["same", "same", "gap", "gap", "after", "later"])
    # a line comment brings its own newline: it may only stand where the base has a newline (or at the very end)
    nl_ok = [p for p, _s in bnds[:i2 + 1] if p == len(base) or base[p] == "\n"]
    if ckind == "line" and where != "after":
        if not nl_ok:
            where = "after"
        elif where in ("same", "gap") and nl_ok[-1] < base.rfind("\n", 0, p2) + 1:
            where = "later"
    ename, etext, eoff = rng.choice(error_choices(stack))
    rest = base[p2:]
    if ename == "unterminated_comment":
        rest = rest.replace("*/", "* /")
    texts = []
    for fill in (odd, "x" * len(odd)):
        comment = ctmpl.replace("{c}", fill)
        if where in ("same", "gap", "later"):
            # the comment at a boundary p1 <= p2; "same" / "gap": no newline of the base between them
            if ckind == "line":
                p1 = nl_ok[-1] if where in ("same", "gap") else nl_ok[len(nl_ok) // 2]
            elif where == "same":
                p1 = p2
            elif where == "gap":
                line_start = base.rfind("\n", 0, p2) + 1
                cand = [p for p, _s in bnds[:i2 + 1] if p >= line_start]
                p1 = cand[len(cand) // 2]
            else:
                p1 = bnds[i2 // 2][0]
            text = base[:p1] + comment + base[p1:p2] + etext + rest
            epos = p1 + len(comment) + (p2 - p1) + eoff
        else:
            # the error first, the comment behind it on the same line (never lexed when the error is the lexer's)
            if ename == "unterminated_comment":
                comment = " " + comment.replace("*/", "* /")
            text = base[:p2] + etext + comment + rest
            epos = p2 + eoff
        texts.append(text)
    feat = ["odd:char:" + ODD_NAMES[odd], "odd:comment:" + ckind, "odd:where:" + where, "odd:error:" + ename]
    return texts[0], texts[1], epos, feat, odd


def crlf(s):
    return s.replace("\r\n", "\n").replace("\n", "\r\n")


def universal(s):
    return s.replace("\r\n", "\n").replace("\r", "\n")


FIXED_ODD = [
    # (name, text with {C} = comment, offending statement's first token marker `@`): errors the grammar rules raise themselves
    ("header_after_body:let", "register r[2]\nprepare_all\nmeasure_all\n{C}@let x 1\n"),
    ("header_after_body:let_behind_tokens", "register r[2]\nprepare_all; {C} measure_all; {C}@let x 1\n"),
    ("header_after_body:map", "register r[2]\nX r[0]\n{C} @map a r\n"),
    ("header_after_body:register", "register r[2]\nX r[0] {C};@register s[2]\n"),
    ("header_after_body:usepulses", "register r[2]\nX r[0]\n{C}@from a.b usepulses *\n"),
    ("register_size_0", "{C}@register r[0]\n"),
    ("register_size_0:behind_let", "let n 1 {C};{C}@register r[0]\nX r[0]\n"),
    ("register_size_negative", "let n 1\n{C}@register r[-3]\n"),
]


SHORT_ODD = [
    # short texts, `@` in front of the offending character (exact position): reported first when the stream fails
    "register r[2]\n{C} foo r[0] @[\n", "register r[2]\n{C} X r[0] @$\n", "{C}@$", "{C}@/*", "register r[2]\nX {C} r[0] @]\n", "register r[2] {C}; X r[@1.0e999]\n",
    "register r[2]\nX r[0] {C} @'01\n", "let n 1 {C} @}\n", "register r[2]\n{C}{C} X r[@" + BIG_INT + "]\n", "register r[2]\nloop 2 { X r[0] {C} @> }\n",
    "register r[2]\n{C}\n{C} X r[0] @?\n", "register r[2]\nX r[0] @$ {C}\n", "let {C} x@\n", "register r[2]\nloop 2 {C}@\n{ X r[0] }\n", "register r[2]\nX r[0] {C}",
]


def odd_calls(seed, n, thorough, file_ok):
    out = []
    k = 0
    for tmpl in SHORT_ODD:
        for odd in ODD_BREAKS + ODD_OTHER:
            rng = random.Random(f"{seed}:c16combo:oddshort:{tmpl}:{odd!r}")
            for ckind, ctmpl in rng.sample(COMMENTS, 6 if thorough else 2):
                if ckind == "line" and not (tmpl.startswith("{C}") or "\n{C}" in tmpl):
                    continue            # a line comment ends the line: only where the statement is over
                text = tmpl.replace("{C}", ctmpl.replace("{c}", odd))
                twin_text = tmpl.replace("{C}", ctmpl.replace("{c}", "x" * len(odd))).replace("@", "")
                at = text.find("@")
                text = text.replace("@", "")
                kinds = [("parse", {"gs": True, "flags": {}}), rng.choice([("sexpr", {}), ("run_string", {"dir": "A"}), ("header", {}), ("parse_file", {"dir": "A"}),
                                                                           ("parse", {"gs": False, "flags": {"expand_macro": True, "expand_let_map": True}})])]
                for kind, kw in kinds:
                    if kind in FILE_KINDS and not ((file_ok or text.isascii()) and "\r" not in text):
                        continue
                    if kind == "header" and not tmpl.startswith(("{C}", "let")):
                        continue
                    k += 1
                    call = dict({"stream": "odd", "kind": kind, "text": text, "twin": f"oddshort:{k}", "role": "damaged", "how": "short", "odd": odd}, **kw)
                    if at >= 0:
                        call["expect"] = ["at"] + list(D.line_col(text, at))
                    out.append((call, ["odd:char:" + ODD_NAMES[odd], "odd:comment:" + ckind, "odd:error:short", "odd:entry:" + kind]))
                    tw = dict(call, text=twin_text, role="twin")
                    tw.pop("expect", None)
                    out.append((tw, ["odd:twin"]))
    nprog = n * (3 if thorough else 1)
    for i in range(nprog):
        rng = random.Random(f"{seed}:c16combo:odd:{i}")
        if i % 3 == 2:
            _p, _gs, base, _r = C01.make_program(seed, 7000 + i)
        else:
            base = D.make_runnable(seed, 7000 + i)[0]
        if len(base) > 1800:
            continue
        as_crlf = i % 4 == 1
        bnds = boundaries(base)
        if not bnds:
            continue
        grp = f"odd:{i}"
        out.append(({"stream": "odd", "kind": "parse", "gs": True, "flags": {}, "text": base, "role": "reference", "group": grp}, ["odd:reference"]))
        for j in range(6 if thorough else 4):
            text, twin_text, epos, feat, odd = odd_insert(base, bnds, rng, thorough)
            how = [f for f in feat if f.startswith("odd:error:")][0][10:]
            variants = [("parse", {"gs": True, "flags": {}})]
            extra = [("parse", {"gs": rng.random() < 0.5, "flags": rng.choice(D.FLAG_COMBOS)}), ("sexpr", {}), ("run_string", {"dir": "A"}),
                     ("output_list", {"gs": True, "output": [0]})]
            # (in a FILE \r is a newline: an error that IS a \r is none there)
            # and a \r inside a LINE comment would end the comment there)
            if (file_ok or text.isascii()) and text[epos] != "\r" and not ("\r" in odd and "odd:comment:line" in feat):
                extra += [("parse_file", {"dir": "A"}), ("run_file", {"dir": "A"})]
            variants += extra if thorough else rng.sample(extra, 2)
            for vi, (kind, kw) in enumerate(variants):
                t, tt, ep, feat2 = text, twin_text, epos, feat
                if kind in FILE_KINDS:
                    if as_crlf:
                        # a file with CRLF line ends (the odd character and the error stay what they are)
                        t, tt, ep = crlf(text[:epos]) + crlf(text[epos:]), crlf(twin_text[:epos]) + crlf(twin_text[epos:]), len(crlf(text[:epos]))
                        feat2 = feat + ["odd:file_crlf"]
                    # the library reads a file with universal newlines: the reference position is that of the text it sees
                    seen, ep = universal(t), len(universal(t[:ep]))
                else:
                    seen = t
                call = dict({"stream": "odd", "kind": kind, "text": t, "group": grp, "twin": f"{grp}:{j}:{vi}", "role": "damaged", "how": how, "odd": odd,
                             "expect": ["at"] + list(D.line_col(seen, ep))}, **kw)
                out.append((call, feat2 + ["odd:entry:" + kind]))
                tw = dict(call, text=tt, role="twin")
                tw.pop("expect")
                out.append((tw, ["odd:twin"]))
    # ---- the errors the grammar rules raise themselves: every odd character, comments of every kind
    for name, tmpl in FIXED_ODD:
        for odd in ODD_BREAKS + (ODD_OTHER if thorough else ODD_OTHER[:3]):
            rng = random.Random(f"{seed}:c16combo:oddfixed:{name}:{odd!r}")
            for ckind, ctmpl in rng.sample(COMMENTS, 8 if thorough else 3):
                text = tmpl.replace("{C}", ctmpl.replace("{c}", odd))
                twin_text = tmpl.replace("{C}", ctmpl.replace("{c}", "x" * len(odd))).replace("@", "")
                at = text.index("@")
                text = text.replace("@", "")
                # the tokens of the offending statement: from `at` to the end of its line
                end = text.find("\n", at)
                stmt = [off for off, _lx, g in scan(text)[0] if at <= off < end and g not in ("ws", "cm", "bc")]
                kinds = [("parse", {"gs": True, "flags": {}})]
                if name.startswith("register"):
                    kinds.append(("header", {}))
                    if file_ok or text.isascii():
                        kinds.append(("header_file", {"dir": "A"}))
                kinds.append(rng.choice([("sexpr", {}), ("run_string", {"dir": "A"}), ("parse", {"gs": False, "flags": {"expand_macro": True, "expand_let_map": True}})]))
                for kind, kw in kinds:
                    k += 1
                    call = dict({"stream": "odd", "kind": kind, "text": text, "twin": f"oddfixed:{k}", "role": "damaged", "how": name, "odd": odd}, **kw)
                    if seen_text(call) == text:
                        call["expect"] = ["in", [list(D.line_col(text, o)) for o in stmt]]
                    out.append((call, ["odd:char:" + ODD_NAMES[odd], "odd:comment:" + ckind, "odd:error:" + name.split(":")[0], "odd:entry:" + kind]))
                    tw = dict(call, text=twin_text, role="twin")
                    tw.pop("expect", None)
                    out.append((tw, ["odd:twin"]))
    return out


# ------------------------------------------------------------------------------------------------ stream `runs`

PREFIXES = [
    ("at_start", ""),
    ("after_statements", "register r[2]\nprepare_all\nX r[0]\n"),
    ("inside_statement", "register r[2]\nprepare_all\nP r[0] "),
    ("inside_block", "register r[2]\nprepare_all\nloop 2 { X r[0]; < X r[1] | "),
    ("in_header", "let n 2\nregister r[n]; map a "),
]

UNTERMINATED = ["*", "**note** ", "* ", "*\n", " *\n", "/", "/* ", "*x", "**", "* /", "x", "\n", "*\t", "***\n", "* * ", "*\r", "/** "]


def run_lengths(thorough):
    return [30, 40, 64, 200, 1000, 5000, 8000] + ([20000, 100000] if thorough else [])  # 2 * 8000 binary digits > 4300 decimal digits


def runs_calls(seed, n, thorough):
    """-> [(call, features)] in ascending length (the first hang is then a short input)"""
    rng = random.Random(f"{seed}:c16combo:runs")
    items = []          # (length, call, feat)

    def add(k, fam, text, expect=None, kinds=None, gs=True):
        ks = kinds or [("parse", {"gs": gs, "flags": {}})]
        for kind, kw in ks:
            call = dict({"stream": "runs", "kind": kind, "text": text, "prone": True, "how": fam, "run_length": k, "role": "damaged"}, **kw)
            if expect is not None:
                call["expect"] = list(expect)
            items.append((k, call, ["runs:" + fam.split(":")[0], "runs:length:" + str(k), "runs:entry:" + kind]))

    other_entries = [("sexpr", {}), ("header", {}), ("run_string", {"dir": "A"}), ("parse_file", {"dir": "A"}), ("header_file", {"dir": "A"}),
                     ("output_list", {"gs": True, "output": [0]}), ("parse", {"gs": False, "flags": {"expand_macro": True, "expand_let": True}})]
    for k in run_lengths(thorough):
        for pat in UNTERMINATED:
            if "*/" in pat * 2:
                continue
            reps = max(1, k // len(pat)) if len(pat) > 2 and k > 1000 else k
            pname, prefix = PREFIXES[rng.randrange(len(PREFIXES))] if not thorough else (None, None)
            for pname, prefix in (PREFIXES if thorough else [(pname, prefix), PREFIXES[0]]):
                for tail in ("", "\nX r[1]\n", " x") if thorough else (rng.choice(["", "", "\nX r[1]\n", " x"]),):
                    fill = pat * reps + tail
                    if "*/" in fill:
                        continue
                    text = prefix + "/*" + fill
                    exp = ("at",) + D.line_col(text, len(prefix))
                    kinds = [("parse", {"gs": True, "flags": {}})]
                    if "\r" not in text:
                        kinds.append(rng.choice(other_entries))
                    else:
                        kinds.append(rng.choice([e for e in other_entries if e[0] not in FILE_KINDS]))
                    # the header entry points stop reading at the first body statement: only when the comment is in the header
                    kinds = [kd for kd in kinds if kd[0] not in ("header", "header_file") or pname in ("at_start", "in_header")]
                    add(k, "unterminated_comment:" + repr(pat), text, exp, kinds)
        # a terminated comment of that size, an error behind it on the same line
        for pat in ("*", "**note** ", "/", "/*", "* ", "x*"):
            reps = max(1, k // len(pat))
            pname, prefix = rng.choice(PREFIXES[1:4])
            body = pat * reps
            if "*/" in body:
                continue
            for closer in ("*/", " */", "**/"):
                text = prefix + "/*" + body + closer + " $ X r[1]\n"
                add(k, "terminated_comment_then_error:" + repr(pat), text, ("at",) + D.line_col(text, len(prefix) + 2 + len(body) + len(closer) + 1))
                if not thorough:
                    break
            text = prefix.replace("P r[0] ", "P r[0] 1 ") .replace("| ", "| X r[0] > }") + "/*" + body + "*/"
            add(k, "terminated_comment_last:" + repr(pat), text)
        # line comments (the last one without a newline)
        for pat in ("/", "*", "/*", "*/", "// ", "\r", "\x0c"):
            text = "register r[2]\n//" + pat * k + "\nX r[0] //" + pat * k
            add(k, "line_comment:" + repr(pat), text)
            text2 = "register r[2]\n//" + pat * k + "\nX r[0] $ //" + pat * k
            add(k, "line_comment_then_error:" + repr(pat), text2, ("at", 3, 8))
        # literals
        g = "register r[2]\nprepare_all\n"
        add(k, "binint_unterminated", g + "P r[0] '" + "01" * k + "\n", ("at", 3, 8))
        add(k, "binint_unterminated_at_end", g + "P r[0] '" + "1" * k, ("at", 3, 8))
        add(k, "binint_bad_digit", g + "P r[0] '" + "10" * k + "2'\n", ("at", 3, 8))
        if 2 * k < 14285 or INCLUDE_BININT:
            add(k, "binint_in_gate", g + "P r[0] '" + "01" * k + "'\n")
            add(k, "binint_in_branch", g + "measure_all\nbranch { '" + "01" * k + "' : { X r[0] } }\n")
        add(k, "digits", g + "P r[0] " + "7" * k + "\nmeasure_all\n", ("at", 3, 8) if k > 4300 else None)
        add(k, "digits_dot_at_end", g + "PF " + "7" * k + ". r[0]\n", ("at", 3, 4) if k > 4300 else None)
        add(k, "zeros_then_digit", g + "P r[0] " + "0" * k + "3\nmeasure_all\n", ("at", 3, 8) if k >= 4300 else None)
        add(k, "float_digits", g + "PF " + "7" * k + ".5 r[0]\n", ("at", 3, 4) if k > 308 else None)
        add(k, "float_fraction", g + "PF 0." + "7" * k + " r[0]\nmeasure_all\n")
        add(k, "float_exponent_zeros", g + "PF 1.5e" + "0" * k + "2 r[0]\nmeasure_all\n")
        add(k, "float_exponent_digits", g + "PF 1.5e" + "9" * k + " r[0]\n", ("at", 3, 4))
        add(k, "float_negative_exponent", g + "PF 1.5e-" + "9" * k + " r[0]\nmeasure_all\n")
        add(k, "exponent_without_digits", g + "PF 1.5e" + "+" * k + " r[0]\n", ("at", 3, 8))      # 1.5 then the identifier `e`, then `+`
        add(k, "signs", g + "P r[0] " + "+" * k + "1\n", ("at", 3, 8))
        add(k, "signs_minus", g + "P r[0] " + "-" * k + "\n", ("at", 3, 8))
        add(k, "signs_mixed", g + "P r[0] " + "+-" * k + "1\n", ("at", 3, 8))
        add(k, "dots", g + "P r[0] " + "." * k + "\n")
        add(k, "dotted_identifier", "let " + "a." * k + "b 1\nregister r[2]\nprepare_all\nP r[0] " + "a." * k + "b\nmeasure_all\n")
        add(k, "dotted_identifier_dangling", g + "P r[0] " + "a." * k + "\n")
        add(k, "dotted_identifier_double_dot", g + "P r[0] " + "a." * k + ".b\n")
        add(k, "underscores", g + "P r[0] " + "_" * k + "\n")
        add(k, "quotes", g + "P r[0] " + "'" * k + "\n", ("at", 3, 8))
        # far out: the line / the column of an error behind many separators
        add(k, "blank_lines_then_error", g + "\n" * k + "X r[0] $\n", ("at", 3 + k, 8))
        add(k, "blank_lines_in_block_then_error", g + "{" + "\n" * k + "X r[0] ] }\n", ("at", 3 + k, 8))
        add(k, "commented_lines_then_error", g + "// c\n" * k + "X r[0] $\n", ("at", 3 + k, 8))
        add(k, "lines_in_comment_then_error", g + "/*" + "\n" * k + "*/ X r[0] $\n", ("at", 3 + k, 11))
        add(k, "spaces_then_error", g + " " * k + "$\n", ("at", 3, k + 1))
        add(k, "tabs_then_error", g + "\t" * k + "X r[0] ]\n", ("at", 3, k + 8))
        add(k, "semicolons_then_error", g + ";" * k + "$\n", ("at", 3, k + 1))
        add(k, "semicolons_at_end", g + "X r[0]" + ";" * k)
        add(k, "bars_in_block", g + "< X r[0] " + "|" * k + " X r[1] >\nmeasure_all\n")
        add(k, "newlines_at_end", g + "measure_all" + "\n" * k)
        add(k, "spaces_at_end", g + "measure_all" + " " * k)
        add(k, "statements", g + "X r[0];" * k + "\nmeasure_all\n")
        add(k, "statements_then_error", g + "X r[0];" * k + "$\n", ("at", 3, 7 * k + 1))
        if k <= 200:
            add(k, "brackets_open", g + "{<" * k, ("eof", 3, 2 * k))
            add(k, "brackets_angle_open", g + "<{" * k, ("eof", 3, 2 * k))
            add(k, "brackets_loops_open", g + "loop 1 {" * k, ("eof", 3, 8 * k))
            add(k, "brackets_same_kind", g + "{" * k + "\n", ("at", 3, 2))                 # a sequential block directly inside another is not Jaqal
            add(k, "brackets_square", g + "X r" + "[" * k + "\n", ("at", 3, 5))
            add(k, "brackets_closed_wrong", g + "{<" * k + "X r[0]" + ">}" * (k - 1) + ">>\n", ("at", 3, 4 * k + 6))
    items.sort(key=lambda it: it[0])
    return [(c, f) for _k, c, f in items]


# ------------------------------------------------------------------------------------------------ stream `ends`

H = "let n 2\nregister r[2]\n"
B = "register r[2]\nprepare_all\n"
# (text that stops inside a statement, may a NEWLINE follow inside it? (an open `{` / `<` allows newlines))
UNFINISHED = [
    (H + "let", False), (H + "let x", False), (H + "register", False), (H + "register s", False), (H + "register s[", False), (H + "register s[2", False),
    (H + "map", False), (H + "map a", False), (H + "map a r[", False), (H + "map a r[0", False), (H + "map a r[0:", False), (H + "map a r[0:1:", False),
    (H + "from", False), (H + "from a.b", False), (H + "from .a", False), (H + "from a usepulses", False),
    (B + "macro", False), (B + "macro m", False), (B + "macro m a b", False), (B + "macro m {", True), (B + "macro m a { X a", True), (B + "macro m a { X a;", True),
    (B + "loop", False), (B + "loop 2", False), (B + "loop n", False), (B + "loop 2 {", True), (B + "loop 2 { X r[0]", True), (B + "loop 2 { X r[0];", True),
    (B + "loop 2 <", True), (B + "loop 2 < X r[0] |", True), (B + "<", True), (B + "< X r[0]", True), (B + "< X r[0] |", True), (B + "< { X r[0]", True),
    (B + "< { X r[0] }", True), (B + "{", True), (B + "{ X r[0]", True), (B + "{ <", True), (B + "{ < X r[0] >", True),
    (B + "X r[", False), (B + "X r[0", False), (B + "CX r[0] r[", False), (B + "subcircuit", False), (B + "subcircuit 2", False), (B + "subcircuit {", True),
    (B + "subcircuit 2 { X r[0]", True), (B + "loop 2 { subcircuit {", True), (B + "loop 2 { subcircuit { X r[0] }", True),
    (B + "measure_all\nbranch", False), (B + "measure_all\nbranch {", True), (B + "measure_all\nbranch { '0'", False), (B + "measure_all\nbranch { '0' :", False),
    (B + "measure_all\nbranch { '0' : {", True), (B + "measure_all\nbranch { '0' : { X r[0] }", True),
    ("register", False), ("let", False), ("{", True), ("<", True), ("loop", False), ("macro m a", False), ("from", False),
]
EOF_TAILS = ["", " ", "\t", "  \t ", " // c", " //", " /* c */", "/**/", " /* a\x0cb */", " // a\u2028b", " /* c */ // d"]
SEP_TAILS = ["\n", ";", " \n", "\n\n", ";\n", "\nX r[1]\n", "; X r[1]\n", " // c\nX r[1]\n", " /* c */;", " /* a\rb */\n"]

MAINS = ["prepare_all\nX r[0]\nmeasure_all", "subcircuit { X r[0] }", "prepare_all; < X r[0] | X r[1] >; measure_all", "subcircuit 2 { CX r[0] r[1] }"]
LASTS = [("gate", ""), ("loop", "\nloop 2 { prepare_all; X r[0]; measure_all }"), ("loop_par", "\nprepare_all\nloop 2 < X r[0] | X r[1] >\nmeasure_all"),
         ("loop_seq_par", "\nprepare_all\nloop 2 { < X r[0] | X r[1] > }\nmeasure_all"), ("block", "\n{ prepare_all; measure_all }"),
         ("empty_seq", "\n{ }"), ("empty_par", "\n< >"), ("empty_loop", "\nloop 3 { }"), ("loop_0", "\nloop 0 { prepare_all; measure_all }"),
         ("macro_def", "\nmacro z a { X a }"), ("empty_macro_def", "\nmacro z { }"), ("macro_call", "\nmacro z { prepare_all; measure_all }\nz"),
         ("empty_macro_call", "\nmacro z { }\nz"), ("subcircuit", "\nsubcircuit { X r[1] }"), ("empty_subcircuit", "\nsubcircuit { }"),
         ("subcircuit_0", "\nsubcircuit 0 { X r[1] }"), ("nested_subcircuit", "\nloop 2 { < { subcircuit { X r[1] } } > }"),
         ("dangling_gate", "\nX r[1]"), ("dangling_prepare", "\nprepare_all\nX r[1]"), ("dangling_measure", "\nmeasure_all")]
VALID_TAILS = ["", "\n", ";", " ", "\t", "\n\n\n", ";;", "\n;\n", " // c", " //", " /* c */", "/**/", "\n/* c */", " /* a\x0cb */", " // a\x85b",
               " /* a\rb */", "\n// c\n// d", " ;\t;\n \n"]
RUN_FLAGS = [{}, {"expand_let": True}, {"expand_let_map": True}, {"expand_macro": True}, {"expand_macro": True, "expand_let": True},
             {"expand_macro": True, "expand_let_map": True}]


def ends_calls(seed, n, thorough, file_ok):
    out = []
    rng = random.Random(f"{seed}:c16combo:ends")
    entries = [("parse", {"gs": True, "flags": {}}), ("parse", {"gs": False, "flags": {"expand_macro": True}}), ("sexpr", {}), ("run_string", {"dir": "A"}),
               ("parse_file", {"dir": "A"}), ("run_file", {"dir": "A"}), ("output_list", {"gs": True, "output": []})]
    for text, nl_ok in UNFINISHED:
        lex, bad = scan(text)
        last = [t for t in lex if t[2] not in ("ws", "cm", "bc")][-1]
        lastpos = D.line_col(text, last[0])
        st = []
        for _o, lx, _g in lex:
            if lx in ("{", "<"):
                st.append(lx)
            elif lx in ("}", ">") and st:
                st.pop()
        innermost = st[-1] if st else None
        in_header = text.startswith(H) or "\n" not in text
        for tail in EOF_TAILS:
            t = text + tail
            kinds = [entries[0]] + ([e for e in entries[1:]] if thorough else rng.sample(entries[1:], 1))
            if in_header:
                kinds += [("header", {})] + ([("header_file", {"dir": "A"})] if thorough or rng.random() < 0.3 else [])
            for kind, kw in kinds:
                if kind in FILE_KINDS and not (file_ok or t.isascii()):
                    continue
                call = dict({"stream": "ends", "kind": kind, "text": t, "role": "damaged", "how": "unfinished+" + repr(tail), "expect": ["eof"] + list(lastpos)}, **kw)
                out.append((call, ["ends:unfinished:eof", "ends:entry:" + kind]))
        for tail in SEP_TAILS:
            t = text + tail
            # the separator: the first newline / semicolon behind the unfinished statement (a comment may stand between them)
            lex2, _b = scan(t)
            sep_off = [o for o, lx, g in lex2 if o >= len(text) and (g == "nl" or lx == ";")][0]
            opened = nl_ok and not (innermost == "<" and t[sep_off] == ";")       # (`;` does not separate the branches of `< >`)
            call_exp = None
            if not opened:
                call_exp = ["at"] + list(D.line_col(t, sep_off))
            elif "X r[1]" not in tail:
                # an open block: separators are fine, the text then ends too early
                lex2, _b = scan(t)
                lt = [x for x in lex2 if x[2] not in ("ws", "cm", "bc")][-1]
                call_exp = ["eof"] + list(D.line_col(t, lt[0]))
            kinds = [entries[0]] + ([e for e in entries[1:]] if thorough else rng.sample(entries[1:], 1))
            if in_header:
                kinds += [("header", {})]
            for kind, kw in kinds:
                if kind in FILE_KINDS and ("\r" in t or not (file_ok or t.isascii())):
                    continue
                call = dict({"stream": "ends", "kind": kind, "text": t, "role": "damaged", "how": "unfinished+" + repr(tail)}, **kw)
                if call_exp is not None and not (kind == "header" and not text.startswith(H) and "\n" in text):
                    call["expect"] = call_exp
                out.append((call, ["ends:unfinished:separator", "ends:entry:" + kind]))
    # ---- valid programs: every kind of last statement x every tail
    combos = [(m, l, t) for m in MAINS for l in LASTS for t in VALID_TAILS]
    if not thorough:
        combos = rng.sample(combos, min(len(combos), 3 * n))
    for main, (lname, last), tail in combos:
        body = "register r[2]\n" + main + last + tail
        kinds = [("parse", {"gs": True, "flags": {}}), ("run", {"gs": True}), ("run_string", {"dir": "A", "text": "from .e16p usepulses *\n" + body})]
        more = [("parse", {"gs": True, "flags": fl}) for fl in RUN_FLAGS[1:]] + [("parse_run", {"gs": True, "flags": fl}) for fl in RUN_FLAGS[1:]]
        more += [("output_list", {"gs": True, "output": [0]}), ("sexpr", {}), ("header", {})]
        if "\r" not in body and (file_ok or body.isascii()):
            more += [("run_file", {"dir": "A", "text": "from .e16f usepulses *\n" + body}), ("parse_file", {"dir": "A"})]
        kinds += rng.sample(more, 8 if thorough else 2)
        for kind, kw in kinds:
            call = dict({"stream": "ends", "kind": kind, "text": body, "role": "valid", "how": "last:" + lname + "+" + repr(tail)}, **kw)
            out.append((call, ["ends:last:" + lname, "ends:entry:" + kind]))
    return out


# ------------------------------------------------------------------------------------------------ stream `combo`

USES = {"index": "X r[N]", "loop": "loop N { X r[0] }", "farg": "PF N r[0]", "iarg": "P r[0] N", "qubit": "X N", "sub": "subcircuit N { X r[0] }",
        "idx_alias": "X a[N]", "par": "< X r[0] | P r[1] N >", "parloop": "loop N < X r[0] | X r[1] >", "seqpar": "loop N { < X r[0] | X r[1] > }",
        "two": "X r[N]; loop N { P r[0] N }", "call": "k N", "nested": "loop N { loop N { X r[N] } }"}
HEADS = {"let": "let N 1\nregister r[2]\nmap a r\n", "letf": "let N 1.0\nregister r[2]\nmap a r\n", "let0": "let N 0\nregister r[2]\nmap a r[N:2]\n",
         "let_size": "let N 2\nregister r[N]\nmap a r[0:N]\n", "reg": "register N[2]\nmap r N\nmap a N[0:2]\n", "alias": "register r[2]\nmap N r[1]\nmap a r\n",
         "alias_reg": "register r[2]\nmap N r\nmap a N[0:2]\n", "alias_slice": "let s 1\nregister r[3]\nmap N r[s:3]\nmap a N\n", "none": "register r[2]\nmap a r\n"}
PARAMS = ["N", "", "a N", "N r", "r", "N a r", "k N"]
ARGS = ["0", "1", "r[0]", "r", "a", "N", "1.5", "a[1]", "-1", "2"]
WRAPS = ["prepare_all\n%s\nmeasure_all\n", "%s\n", "loop 2 { prepare_all; %s; measure_all }\n", "prepare_all\n%s", "subcircuit { %s }\n",
         "< >\n{ }\nprepare_all\n%s\nmeasure_all\n{ }\n", "prepare_all\nloop 2 < %s | P r[1] 1 >\nmeasure_all\n"]
OVS = [None, None, {"N": 0}, {"N": 1}, {"N": 2}, {"N": 1.5}, {"N": -1}, {"N": 2 ** 64}, {"r": 1}, {"a": 1}, {"N": 1, "s": 0}, {"nosuch": 1}]

PRE = ["", "< >\n", "{ }\n", "loop 0 { }\n", "loop 3 < >\n", "subcircuit { }\n", "subcircuit 0 { }\n", "macro e { }\ne\n", "macro e a { < > }\ne r[0]\n",
       "< { } | { } >\n", "{ < > }\n", "loop 2 { < { } > }\n", "macro e { subcircuit { } }\ne\n", "prepare_all\nmeasure_all\n"]
SHAPES = [
    "prepare_all\nloop 2 < X r[0] | X r[1] >\nmeasure_all\n", "prepare_all\nloop 2 { < X r[0] | X r[1] > }\nmeasure_all\n",
    "loop 2 < { prepare_all; X r[0]; measure_all } >\n", "loop 2 { subcircuit { X r[0] } }\n", "{ subcircuit { X r[0] } }\n", "{ < { subcircuit 2 { X r[0] } } > }\n",
    "macro m { subcircuit { X r[0] } }\nm\n", "macro m { subcircuit { X r[0] } }\nloop 3 { m }\n", "macro m q { subcircuit { X q } }\n{ m r[1] }\n",
    "< subcircuit { X r[0] } | X r[1] >\n", "< { subcircuit { X r[0] } } >\n", "subcircuit { subcircuit { X r[0] } }\n", "loop 2 { loop 2 { subcircuit 2 { X r[0] } } }\n",
    "subcircuit { loop 2 < X r[0] | X r[1] > }\n", "subcircuit { loop 2 { < X r[0] | X r[1] > } }\n", "macro m { prepare_all; X r[0]; measure_all }\nm\n",
    "macro m { prepare_all; X r[0]; measure_all }\nm", "macro m { }\nm\n", "macro m a { X a }\nsubcircuit { m r[0] }\n", "macro m { loop 2 < X r[0] | X r[1] > }\nsubcircuit { m }\n",
    "macro m { < X r[0] | X r[1] > }\nprepare_all\nloop 2 m\nmeasure_all\n", "macro m { < X r[0] | X r[1] > }\nprepare_all\nloop 2 { m }\nmeasure_all\n",
    "prepare_all\n< loop 2 { X r[0] } | X r[1] >\nmeasure_all\n", "prepare_all\n< { loop 2 { X r[0] } } | X r[1] >\nmeasure_all\n",
    "loop 2 { prepare_all; X r[0]; measure_all }\n", "loop 2 { loop 0 { prepare_all }; subcircuit { X r[0] } }\n", "subcircuit { }\n", "subcircuit { < > }\n",
    "loop 2 < subcircuit { X r[0] } >\n", "prepare_all\nloop 2 < >\nmeasure_all\n", "prepare_all\nloop 2 < X r[0] >\nloop 2 < { X r[0] } | { X r[1] } >\nmeasure_all\n",
]


def combo_calls(seed, n, thorough):
    out = []
    rng = random.Random(f"{seed}:c16combo:combo")

    def variants(text, ovd, feat, k_extra):
        ov = [[k, v] for k, v in ovd.items()] if ovd else None
        kinds = [("parse", {"gs": True, "flags": {}})]
        more = []
        for fl in RUN_FLAGS[1:]:
            kw = {"gs": True, "flags": fl}
            if ov and (fl.get("expand_let") or fl.get("expand_let_map")):
                kw["override"] = ov
            more.append(("parse", dict(kw)))
            more.append(("parse_run", dict(kw)))
        more.append(("parse_run", {"gs": True, "flags": {}}))
        more.append(("run", dict({"gs": True}, **({"override": ov} if ov else {}))))
        more.append(("output_list", {"gs": True, "output": rng.choice([[0], [], [1, 0]])}))
        more.append(("run_string", {"dir": "A", "text": "from .e16p usepulses *\n" + text}))
        more.append(("parse", {"gs": False, "flags": rng.choice(RUN_FLAGS)}))
        kinds += more if thorough else rng.sample(more, k_extra)
        # (a count of 2**64 is not executed: the time is proportional to the counts, as in c16_diff / c16_edge)
        big = bool(ov) and any(abs(v) > 12 for _k, v in ov)
        for kind, kw in kinds:
            if big and kind in ("run", "parse_run") and kw.get("override"):
                continue
            call = dict({"stream": "combo", "kind": kind, "text": text, "role": "valid"}, **kw)
            out.append((call, feat + ["combo:entry:" + kind] + (["combo:override"] if kw.get("override") else [])))

    count = n * (6 if thorough else 2)
    for _ in range(count):
        name = rng.choice(["n", "n", "q", "x", "m", "X", "k", "r0", "e5", "a.b"])
        hk = rng.choice(list(HEADS))
        uk = rng.choice(list(USES))
        params = rng.choice(PARAMS)
        np_ = len(params.split())
        args = " ".join(rng.choice(ARGS) for _ in range(np_ if rng.random() < 0.9 else rng.choice([0, 1, 2, 3])))
        helper = "macro k i { P r[0] i }\n" if uk == "call" or "k" in params.split() else ""
        wrap = rng.choice(WRAPS)
        ovd = rng.choice(OVS)
        text = HEADS[hk] + helper + f"macro m {params} {{ {USES[uk]} }}\n" + wrap % ("m " + args).strip()
        if rng.random() < 0.25:
            # the macro called twice / the shadowed name used outside as well
            text += rng.choice(["m " + args + "\n", "prepare_all\n" + USES[uk] + "\nmeasure_all\n", "loop N { prepare_all; measure_all }\n"])
        if name == "k" and helper:
            name = "n"
        text = text.replace("N", name)
        if ovd:
            ovd = {k.replace("N", name): v for k, v in ovd.items()}
        variants(text, ovd, ["combo:shadow:" + hk, "combo:use:" + uk, "combo:params:" + str(np_)], 3)
    shapes = [(p, s) for p in PRE for s in SHAPES]
    if not thorough:
        shapes = rng.sample(shapes, min(len(shapes), n))
    for pre, shape in shapes:
        post = rng.choice(["", "", "{ }\n", "< >", "loop 0 { }", "subcircuit { }\n", "macro z { }"])
        text = "register r[2]\n" + pre + shape + post
        variants(text, None, ["combo:shape", "combo:pre:" + (pre.split()[0] if pre else "none")], 3)
    return out


# ------------------------------------------------------------------------------------------------ executing one call (worker side)

def exec_call(call, dirs):
    kind = call["kind"]
    text = call["text"]
    if kind == "sexpr":
        from jaqalpaq.parser.parser import parse_to_sexpression
        v, e = D.watched(lambda: parse_to_sexpression(text))
        return {"ok": E.digest(repr(v))} if e is None else E.classify(e)
    if kind == "header_file":
        from jaqalpaq.parser.parser import parse_jaqal_file_header
        ip = dirs[call["dir"]]
        E._file_counter[0] += 1
        fn = os.path.join(ip, f"hdr_{os.getpid()}_{E._file_counter[0]}.jaqal")

        def f():
            with open(fn, "w", encoding="utf-8", newline="") as fd:
                fd.write(text)
            try:
                return parse_jaqal_file_header(fn)
            finally:
                try:
                    os.unlink(fn)
                except OSError:
                    pass
        v, e = D.watched(f)
        return E._ok_circuit(v) if e is None else E.classify(e)
    if kind == "parse_run":
        ovd = {k: v for k, v in call["override"]} if call.get("override") else None

        def f():
            kw = dict(call.get("flags", {}))
            if ovd is not None:
                kw["override_dict"] = ovd
            c = D.parse(text, call.get("gs", True), **kw)
            res = D.run_jaqal_circuit(c)
            return {"subcircuits": len(res.subcircuits), "visits": [r.subcircuit.index for r in res.readouts],
                    "probs": [[round(float(p), 9) for p in sc.simulated_probability_by_int] for sc in res.subcircuits]}
        v, e = D.watched(f)
        return {"ok": E.digest(v), "n": v.get("subcircuits")} if e is None else E.classify(e)
    return E.exec_call(call, dirs)


def worker_main(job_file, out_file):
    """job: {"dirs":..., "sys_path":[...], "calls":[...], "sequences":[[index,...],...]}: the sequences run one after the other in this
    interpreter (its history is their concatenation)"""
    with open(job_file) as f:
        job = json.load(f)
    _imports()
    sys.dont_write_bytecode = True
    for p in job.get("sys_path", []):
        sys.path.insert(0, p)
    import importlib
    importlib.invalidate_caches()
    os.chdir("/")
    outs = []
    hangs = prone_hangs = 0
    for i in job["sequence"]:
        call = job["calls"][i]
        if hangs >= MAX_HANGS or (call.get("prone") and prone_hangs >= MAX_PRONE_HANGS):
            outs.append({"cat": "skipped"})
            continue
        try:
            o = exec_call(call, job["dirs"])
        except BaseException as e:  # noqa
            o = {"err": type(e).__name__, "cat": "other", "msg": "harness: " + str(e)[:160]}
        outs.append(o)
        if o.get("cat") == "hang":
            hangs += 1
            prone_hangs += bool(call.get("prone"))
    with open(out_file + ".tmp", "w") as f:
        json.dump(outs, f)
    os.replace(out_file + ".tmp", out_file)


_job_counter = [0]


def run_workers(calls, sequences, trees, timeout=3000):
    """one fresh interpreter per sequence of call indices, all in parallel; -> the outcome lists"""
    root = _root()
    env = dict(os.environ, PYTHONPATH=root + os.pathsep + os.environ.get("PYTHONPATH", ""), JAQALPAQ_RUN_EMULATOR="1",
               OPENBLAS_NUM_THREADS="1", OMP_NUM_THREADS="1", MKL_NUM_THREADS="1")
    procs = []
    _job_counter[0] += 1
    for k, seq in enumerate(sequences):
        need = sorted(set(seq))
        remap = {i: m for m, i in enumerate(need)}
        job = {"dirs": trees.dirs(), "sys_path": [trees.S], "calls": [calls[i] for i in need], "sequence": [remap[i] for i in seq]}
        jf = os.path.join(trees.tmp, f"cjob_{_job_counter[0]}_{k}.json")
        of = os.path.join(trees.tmp, f"cout_{_job_counter[0]}_{k}.json")
        with open(jf, "w") as f:
            json.dump(job, f)
        ef = open(os.path.join(trees.tmp, f"cerr_{_job_counter[0]}_{k}.txt"), "w+")
        procs.append((subprocess.Popen([sys.executable, "-W", "ignore", os.path.abspath(__file__), "--worker", jf, of], env=env,
                                       stdin=subprocess.DEVNULL, stdout=subprocess.DEVNULL, stderr=ef), of, ef))
    deadline = time.time() + timeout
    out = []
    for proc, of, ef in procs:
        try:
            proc.wait(timeout=max(1, deadline - time.time()))
        except subprocess.TimeoutExpired:
            proc.kill()
            proc.wait()
        if not os.path.exists(of):
            ef.seek(0)
            err = ef.read()[-2000:]
            for p2, _o, _e in procs:
                if p2.poll() is None:
                    p2.kill()
            raise RuntimeError("c16_combo worker failed: " + err)
        with open(of) as f:
            out.append(json.load(f))
        ef.close()
    return out


# ------------------------------------------------------------------------------------------------ oracles on outcomes

ORACLES = ("only_jaqalerror_or_importerror", "terminates", "parse_error_has_position", "offending_token_position",
           "ends_too_early_is_parse_error", "position_ignores_comment_contents", "no_sticky_state")


def canon(out):
    return None if out is None else {k: v for k, v in out.items() if k != "msg"}


def _slim(call):
    c = {k: v for k, v in call.items() if k not in ("twin",)}
    if len(c.get("text", "")) > 4000:
        c["text_note"] = f"{len(c['text'])} characters"
    return c


_starts_cache = {}


def _token_starts(text):
    """`c16_diff.own_token_starts`, remembered for the texts used last (the same text goes through several entry points)"""
    r = _starts_cache.get(text)
    if r is None:
        if len(_starts_cache) > 40:
            _starts_cache.clear()
        r = _starts_cache[text] = D.own_token_starts(text)
    return r


class Acc:
    def __init__(self):
        self.oracle = {k: {"cases": 0, "failures": []} for k in ORACLES}
        self.dist = Counter()
        self.seen = set()

    def fail(self, name, case, detail):
        o = self.oracle[name]
        key = (name, E.digest(case))
        if key in self.seen:
            return
        self.seen.add(key)
        if len(o["failures"]) < 20:
            o["failures"].append({"case": case, "detail": detail})
        else:
            o["more_failures"] = o.get("more_failures", 0) + 1

    def per_call(self, call, out, count=True):
        o = self.oracle
        case = _slim(call)
        if count:
            o["only_jaqalerror_or_importerror"]["cases"] += 1
            o["terminates"]["cases"] += 1
        cat = out.get("cat", "ok")
        if cat == "hang":
            self.fail("terminates", case, f"no answer within the time limit ({out.get('err')})")
            return
        if cat == "other":
            self.fail("only_jaqalerror_or_importerror", case, f"{out.get('err')}: {out.get('msg')}")
        if cat == "import":
            loads = call["kind"] in ("run_string", "run_file") or (call["kind"] == "parse_file" and "usepulses" in call["text"])
            if not loads or "usepulses" not in call["text"]:
                self.fail("only_jaqalerror_or_importerror", case, f"ImportError from a call that names / loads no pulse module: {out.get('msg')}")
        if cat == "parse":
            if count:
                o["parse_error_has_position"]["cases"] += 1
            line, col = out["pos"]
            if line == "EOF":
                if col != 0:
                    self.fail("parse_error_has_position", case, f"EOF error with column {col!r}")
            elif not isinstance(line, int) or not isinstance(col, int):
                self.fail("parse_error_has_position", case, f"position ({line!r}, {col!r}) is not a pair of integers")
            elif [line, col] == (call.get("expect") or [None])[1:3] and call["expect"][0] == "at":
                pass            # the place the script put the offending character at
            elif (line, col) not in _token_starts(seen_text(call)):
                self.fail("parse_error_has_position", case, f"({line}, {col}) is not the start of a token of the text (lines end at \\n only)")

    def expectation(self, call, out, reference_ok=True):
        exp = call.get("expect")
        if not exp or not reference_ok:
            return
        cat = out.get("cat", "ok")
        if cat in ("hang", "skipped"):
            return
        case = _slim(call)
        how = call.get("how")
        if exp[0] == "at":
            self.oracle["offending_token_position"]["cases"] += 1
            want = [exp[1], exp[2]]
            if cat != "parse":
                self.fail("offending_token_position", case, f"{how} at {want}: expected JaqalParseError, got {json.dumps(out)[:200]}")
            elif out["pos"] != want:
                self.fail("offending_token_position", case, f"{how}: the offending token is at {want} (line = 1 + number of \\n before it, column = distance "
                                                            f"from the last \\n), reported {out['pos']}")
        elif exp[0] == "in":
            self.oracle["offending_token_position"]["cases"] += 1
            if cat != "parse":
                self.fail("offending_token_position", case, f"{how}: expected JaqalParseError, got {json.dumps(out)[:200]}")
            elif out["pos"] not in exp[1]:
                self.fail("offending_token_position", case, f"{how}: the tokens of the offending statement start at {exp[1]}, reported {out['pos']}")
        else:
            self.oracle["ends_too_early_is_parse_error"]["cases"] += 1
            if cat != "parse":
                self.fail("ends_too_early_is_parse_error", case, f"{how}: expected JaqalParseError, got {json.dumps(out)[:200]}")
            else:
                line, col = out["pos"]
                if line != "EOF" and not (isinstance(line, int) and isinstance(col, int) and (line, col) >= (exp[1], exp[2])):
                    self.fail("ends_too_early_is_parse_error", case,
                              f"{how}: every token of the text continues a valid program, but the error is reported at {out['pos']} "
                              f"(the last token starts at {[exp[1], exp[2]]})")

    def twin(self, call, out, twin_call, twin_out):
        if out.get("cat") in ("hang", "skipped") or twin_out.get("cat") in ("hang", "skipped"):
            return
        if call["kind"] in FILE_KINDS and "\r" in call.get("odd", ""):
            return          # a \r of a file is a newline: the twin has other lines
        self.oracle["position_ignores_comment_contents"]["cases"] += 1
        a, b = out.get("cat", "ok"), twin_out.get("cat", "ok")
        if (a == "parse" or b == "parse") and (a != b or out["pos"] != twin_out["pos"]):
            self.fail("position_ignores_comment_contents", {"kind": "twin", "call": _slim(call), "twin_text": twin_call["text"]},
                      f"with the odd character {call.get('odd')!r} in the comment: {json.dumps(canon(out))[:160]}; with x in its place (same tokens at the "
                      f"same places): {json.dumps(canon(twin_out))[:160]}")


# ------------------------------------------------------------------------------------------------ run

def _file_ok():
    try:
        return (locale.getpreferredencoding(False) or "").lower().replace("-", "") == "utf8"
    except Exception:  # noqa
        return False


def build(seed, n, thorough):
    file_ok = _file_ok()
    calls, feats = [], []
    plan = {}
    for name, gen in (("odd", lambda: odd_calls(seed, max(3, n // 3), thorough, file_ok)), ("ends", lambda: ends_calls(seed, n, thorough, file_ok)),
                      ("combo", lambda: combo_calls(seed, n, thorough)), ("runs", lambda: runs_calls(seed, n, thorough))):
        idx = []
        for c, f in gen():
            calls.append(c)
            feats.append(f)
            idx.append(len(calls) - 1)
        plan[name] = idx
    nw = 10 if thorough else 5
    # primary: the streams in their own order, dealt out in contiguous blocks; `runs` (ascending length) is dealt round-robin so
    # that every interpreter meets the short inputs first
    light = plan["odd"] + plan["ends"] + plan["combo"]
    per = (len(light) + nw - 1) // nw
    seqs = [light[k * per:(k + 1) * per] for k in range(nw)]
    for k in range(nw):
        seqs[k] = seqs[k] + plan["runs"][k::nw]
    # secondary: a shuffled history over ALL streams, every call once more, in another interpreter than its primary one
    rr = random.Random(f"{seed}:c16combo:order")
    owner = {}
    for k, s in enumerate(seqs):
        for i in s:
            owner[i] = k
    everything = list(range(len(calls)))
    rr.shuffle(everything)
    extra = [[] for _ in range(nw)]
    for i in everything:
        if calls[i].get("run_length", 0) > 5000:
            continue           # (the biggest texts once only)
        k = rr.randrange(nw - 1)
        k = k if k < owner[i] else k + 1
        extra[k].append(i)
    for k in range(nw):
        # runs in ascending length here too (the interpreter stops that stream after two hangs)
        prone = sorted([i for i in extra[k] if calls[i].get("prone")], key=lambda i: calls[i]["run_length"])
        it = iter(prone)
        extra[k] = [next(it) if calls[i].get("prone") else i for i in extra[k]]
        # a few calls a third time, directly behind themselves and at the very end
        rep = rr.sample(extra[k], min(len(extra[k]), 30))
        seqs[k] = seqs[k] + extra[k] + [i for i in rep for _ in (0, 1)]
    return calls, feats, seqs, plan


def explain(calls, i, hist, trees, want):
    """call i gave another outcome at the end of `hist` than `want`: -> (outcome alone, deviating outcome, short history) | None"""
    tails = [[i]] + [hist[-k:] for k in (2, 3, 6, 12, 40, 150) if len(hist) >= k] + [hist]
    res = run_workers(calls, tails, trees)
    alone = canon(res[0][0])
    for h, outs in zip(tails[1:], res[1:]):
        if canon(outs[-1]) != alone:
            return alone, canon(outs[-1]), h
    return None


def run(seed: int, n: int, driver: str = DEFAULT_DRIVER, thorough: bool = False) -> dict:
    _imports()
    acc = Acc()
    trees = E.Trees()
    samples = []
    try:
        t0 = time.time()
        calls, feats, seqs, plan = build(seed, n, thorough)
        t1 = time.time()
        answers = run_workers(calls, seqs, trees)
        t2 = time.time()
        hists = [(f"interpreter_{k}", s, a) for k, (s, a) in enumerate(zip(seqs, answers))]
        skipped = sum(o.get("cat") == "skipped" for _l, _i, outs in hists for o in outs)
        if skipped:
            acc.dist["skipped_after_hangs"] = skipped
        # reference outcome of a call: its first answered occurrence
        ref, ref_hist = {}, {}
        for label, idxs, outs in hists:
            for pos, (i, o) in enumerate(zip(idxs, outs)):
                if o.get("cat") != "skipped" and i not in ref:
                    ref[i] = o
                    ref_hist[i] = (label, pos)
        # ---- the oracles on single outcomes: every DISTINCT outcome of every call, in the order of the calls (neighbours share texts)
        distinct = {}
        for label, idxs, outs in hists:
            for i, o in zip(idxs, outs):
                if o.get("cat") != "skipped":
                    d = distinct.setdefault(i, [])
                    if all(canon(o) != canon(x) for x in d):
                        d.append(o)
        for i in sorted(distinct):
            for j, o in enumerate(distinct[i]):
                acc.per_call(calls[i], o, count=j == 0)
            o = ref[i]
            for f in feats[i]:
                acc.dist[f] += 1
            acc.dist["outcome:" + o.get("cat", "ok")] += 1
            if o.get("cat", "ok") != "ok":
                acc.dist["error_class:" + str(o.get("err"))] += 1
        # ---- by construction
        ref_ok = {}
        for i, c in enumerate(calls):
            if c.get("role") == "reference" and i in ref:
                ref_ok[c["group"]] = ref[i].get("cat", "ok") == "ok"
        acc.dist["odd:reference_accepted"] = sum(ref_ok.values())
        twins = {}
        for i, c in enumerate(calls):
            if c.get("twin"):
                twins.setdefault(c["twin"], {})[c["role"]] = i
        for i, c in enumerate(calls):
            if i not in ref or c.get("role") != "damaged":
                continue
            ok = ref_ok.get(c["group"], False) if c.get("group") else True
            # every answered occurrence must meet the expectation (a deviation in a later occurrence is also reported as sticky)
            acc.expectation(c, ref[i], ok)
        for key, pair in twins.items():
            a, b = pair.get("damaged"), pair.get("twin")
            if a is not None and b is not None and a in ref and b in ref:
                acc.twin(calls[a], ref[a], calls[b], ref[b])
        # ---- histories
        todo = []
        for label, idxs, outs in hists:
            for pos, (i, o) in enumerate(zip(idxs, outs)):
                if o.get("cat") == "skipped":
                    continue
                acc.oracle["no_sticky_state"]["cases"] += 1
                if canon(o) != canon(ref[i]):
                    todo.append((i, label, canon(ref[i]), canon(o), idxs[:pos + 1]))
        explained, reported = 0, set()
        for i, label, want, got, hist in todo:
            key = (i, json.dumps(got, sort_keys=True))
            if key in reported:
                acc.oracle["no_sticky_state"]["more_failures"] = acc.oracle["no_sticky_state"].get("more_failures", 0) + 1
                continue
            reported.add(key)
            alone = want
            if got.get("cat") == "hang" or want.get("cat") == "hang":
                continue        # reported by `terminates`
            if explained < 3:
                explained += 1
                try:
                    ex = explain(calls, i, hist, trees, want)
                    if ex is not None:
                        alone, got, hist = ex
                        reported.add((i, json.dumps(got, sort_keys=True)))
                except BaseException as e:  # noqa
                    acc.dist["explain_failed:" + type(e).__name__] += 1
            if len(hist) > 40:
                hist = hist[-40:]
            case = {"kind": "history", "stream": label, "calls": [_slim(calls[k]) for k in hist]}
            acc.fail("no_sticky_state", case, f"the last call gives {json.dumps(alone)[:160]} alone in a fresh interpreter (or at its first occurrence), "
                                              f"but {json.dumps(got)[:160]} at the end of this history of {len(hist)} calls")
        for name in ("odd", "runs", "ends", "combo"):
            for i in plan[name][1:3]:
                samples.append({"case": _slim(calls[i]) if len(calls[i]["text"]) < 600 else dict(_slim(calls[i]), text=calls[i]["text"][:600] + "..."),
                                "outcome": ref.get(i)})
        nontrivial = len({E.digest([c.get("kind"), c.get("text"), c.get("flags"), c.get("override"), c.get("dir"), c.get("output"), c.get("gs")]) for c in calls})
        acc.dist["calls"] = len(calls)
        acc.dist["calls_executed"] = sum(1 for _l, _i, outs in hists for o in outs if o.get("cat") != "skipped")
        acc.dist["interpreters"] = len(seqs)
        acc.dist["longest_history"] = max(len(s) for s in seqs)
        acc.dist["binint_finding_included"] = int(INCLUDE_BININT)
        acc.dist["seconds:build"], acc.dist["seconds:interpreters"], acc.dist["seconds:oracles"] = round(t1 - t0, 1), round(t2 - t1, 1), round(time.time() - t2, 1)
    finally:
        trees.close()
    return {"corr": {}, "oracle": acc.oracle, "distribution": dict(sorted(acc.dist.items())), "samples": samples, "nontrivial": nontrivial}


def replay(case: dict, driver: str = DEFAULT_DRIVER) -> dict:
    """one call (every per-call oracle, its outcome alone and after other calls), a call and its twin, or one history"""
    _imports()
    trees = E.Trees()
    try:
        acc = Acc()
        if case.get("kind") == "history":
            calls = case["calls"]
            n = len(calls)
            res = run_workers(calls, [list(range(n))] + [[i] for i in sorted({n - 1, max(0, n - 2)})], trees)
            hist = res[0]
            for c, o in zip(calls, hist):
                if o.get("cat") != "skipped":
                    acc.per_call(c, o)
            alone = res[-1][0]
            fails = [dict(f, oracle=k) for k, o in acc.oracle.items() for f in o["failures"]]
            detail = "; ".join(f"{f['oracle']}: {f['detail']}" for f in fails)
            diff = canon(hist[-1]) != canon(alone)
            if diff:
                detail += f"; no_sticky_state: the last call gives {json.dumps(canon(alone))[:200]} alone, {json.dumps(canon(hist[-1]))[:200]} at the end of the history"
            return {"model": None, "impl": {"history": hist, "alone": alone}, "oracle_ok": not diff and not fails, "detail": detail[:3000]}
        if case.get("kind") == "twin":
            call = case["call"]
            tw = dict(call, text=case["twin_text"])
            tw.pop("expect", None)
            res = run_workers([call, tw], [[0], [1]], trees)
            acc.per_call(call, res[0][0])
            acc.expectation(call, res[0][0])
            acc.twin(call, res[0][0], tw, res[1][0])
            fails = [dict(f, oracle=k) for k, o in acc.oracle.items() for f in o["failures"]]
            return {"model": None, "impl": {"call": res[0][0], "twin": res[1][0]}, "oracle_ok": not fails,
                    "detail": "; ".join(f"{f['oracle']}: {f['detail']}" for f in fails)[:3000]}
        others = [{"kind": "parse", "gs": True, "flags": {}, "text": "register q[2]\nloop 2 {"},
                  {"kind": "parse", "gs": True, "flags": {}, "text": "register q[2]\n/* a\x0cb */ X q[0] $\n"},
                  {"kind": "run", "gs": True, "text": E.BODY_X}]
        calls = [case] + others
        res = run_workers(calls, [[0], [1, 2, 3, 0, 0]], trees)
        alone, after = res[0][0], res[1][3:]
        acc.per_call(case, alone)
        acc.expectation(case, alone)
        fails = [dict(f, oracle=k) for k, o in acc.oracle.items() for f in o["failures"]]
        detail = "; ".join(f"{f['oracle']}: {f['detail']}" for f in fails)
        sticky = False
        for o in after:
            if o.get("cat") != "skipped" and alone.get("cat") != "hang" and canon(o) != canon(alone):
                detail += f"; no_sticky_state: alone {json.dumps(canon(alone))[:200]}, after other calls {json.dumps(canon(o))[:200]}"
                sticky = True
                break
        return {"model": None, "impl": alone, "oracle_ok": not fails and not sticky, "detail": detail[:3000]}
    finally:
        trees.close()


def probe_open_findings() -> dict:
    """the open finding `huge_binary_literal` on the current tree"""
    _imports()
    trees = E.Trees()
    try:
        calls = []
        for k in (14284, 14285, 20000):
            calls.append({"kind": "parse", "gs": True, "flags": {}, "text": "register r[2]\nP r[0] '" + "1" * k + "'\n", "bits": k})
            calls.append({"kind": "sexpr", "text": "let x '" + "1" * k + "'\n", "bits": k})
        res = run_workers(calls, [[i] for i in range(len(calls))], trees)
        out = {}
        for c, r in zip(calls, res):
            o = r[0]
            out[f"{c['kind']}:{c['bits']}_bits"] = {"outcome": canon(o), "msg": (o.get("msg") or "")[:100], "violates": o.get("cat") in ("other", "hang")}
        return out
    finally:
        trees.close()


def main():
    if "--worker" in sys.argv:
        k = sys.argv.index("--worker")
        worker_main(sys.argv[k + 1], sys.argv[k + 2])
        return
    ap = argparse.ArgumentParser()
    ap.add_argument("--driver", default=DEFAULT_DRIVER)
    ap.add_argument("--n", type=int, default=120)
    ap.add_argument("--seed", type=int, default=0)
    ap.add_argument("--thorough", action="store_true")
    ap.add_argument("--json", action="store_true")
    ap.add_argument("--open-findings", action="store_true")
    a = ap.parse_args()
    if a.open_findings:
        print(json.dumps(probe_open_findings(), indent=1))
        return
    t0 = time.time()
    res = run(a.seed, a.n, a.driver or None, a.thorough)
    if a.json:
        print(json.dumps(res))
        return
    for k, r in res["oracle"].items():
        print(f"oracle {k}: {r['cases']} cases, {len(r['failures']) + r.get('more_failures', 0)} failures")
        for d in r["failures"][:6]:
            print("   ", json.dumps(d)[:1200])
    print("nontrivial:", res["nontrivial"], " time: %.1f s" % (time.time() - t0))
    for k, v in res["distribution"].items():
        print(f"  {k}: {v}")


if __name__ == "__main__":
    main()
