#!/venv/bin/python
"""C09 under COMBINATIONS, POSITIONS, one-level-off SHAPES and HISTORY (fifth round).

pass1_diff / extra_c09 / c09_scale generate every feature of the language, but never the combinations below; here
every case forces one value of each of five knobs (cycled with co-prime strides, so that all pairs and many triples
meet within a run) and fills the rest at random:

    shadow   a macro parameter carries the name of a GLOBAL that the macro still uses indirectly:
             let_q   (a qubit parameter named like a let that is an alias bound / the register size / an alias index)
             let_i   (an integer parameter named like a let; used as loop count, `subcircuit N` count and qubit index
                      inside the macro; the call passes another value; override_dict has an entry for that name)
             reg_q   (a qubit parameter named like the register, the macro uses aliases of the register)
             reg_r   (a REGISTER parameter named like the register, bound to a slice alias: q[0] inside != q[0] outside)
             alias   (a parameter named like an alias register / a single-qubit alias that other aliases are made of)
             bounding (parameters / lets / aliases named prepare_all, measure_all)      gate (named like a macro)
    empty    an empty or degenerate construct: `< >`, `{ }`, `loop n { }`, `loop n < >`, `subcircuit { }`, a call of a
             macro with an empty body / with the body `< >`, `< { } | g >`, `< g >`, `loop 0 { .. }`, `{ < > }`
    where    where it is put: first / last statement of the program (dangling tail), first / last statement of a
             subcircuit body, inside an explicit prepare_all/measure_all section, in a macro defined BEFORE the macros with
             subcircuits (called or never called), first statement of a macro body, in a loop body before the
             subcircuit, between two subcircuits
    pos      where the subcircuit blocks are: mixed | ONLY inside loops | ONLY inside macros | one macro call as the only
             statement | only inside top-level `{ }` | the last / the first statement, the rest explicit sections | a loop
             whose body IS the subcircuit block (object level) | loop{loop{ {subcircuit} }} | macro in loop in macro in
             loop | a macro with a subcircuit that is never called | macro: parallel block, then a subcircuit
    route    the passes applied BEFORE the observation, to both spellings: none | fill_in_let | fill_in_let(override_dict)
             | expand_macros | expand_macros(preserve_definitions) | macros after lets | lets after macros |
             expand_subcircuits itself (a second expansion) - so expand_subcircuits meets circuits in every pass order
Section bodies contain `loop n < a | b >` next to `loop n { < a | b > }`, parallel blocks with sequential children,
plain macro calls, loops with count 0 / let / parameter counts.

Every visit expands the circuit once more with ANOTHER choice of bounding gates in a third of the cases (and always on a
re-visit of the same objects), and half of the families make a REFUSED call between two visits (a macro named as bounding
gate, a gate outside a section, too few outputs, a subcircuit block smuggled into a parallel block) whose left-overs must
not change what follows.

HISTORY: a quarter of the cases are FAMILIES: the program and 1-3 mutants of it (two macro bodies swapped under the same
names, one subcircuit block turned into an explicit section or back, an `< >` inserted, a statement dropped / doubled,
a let value changed) are visited in an order like A B A C, either on rebuilt circuits (earlier ones dropped and
collected: id() values are re-used) or on the SAME objects again; every visit is judged against the independent
reference of THAT program.  One emulator object is shared by all cases of a run (run variant `shared`).

The expectation comes from an independent reference computed from the JSON tree (scoping with shadowing, override
values, slices, macro substitution, sections in flat order, the unrolled visit sequence, the one possible outcome of
every section - the gates are classical permutations and diagonal gates).

oracle (corr is empty):
  combo_terminates           every library call returns within the alarm
  combo_accepted             the program with subcircuit blocks at legal positions is built when its explicit spelling is
  combo_expand_shape         dump(expand_subcircuits(X)) == dump(X) with every subcircuit block replaced by the sequential
                             block [prepare, *body, measure] and nothing else changed, for X = the circuit after the route
  combo_no_subcircuit_left   no subcircuit block reachable from the result
  combo_bounding_gates       the inserted statements carry the expected names / definitions (native or the caller's)
  combo_run_like_explicit    run_jaqal_circuit: same outcome class, subcircuits, probabilities, visit sequence and
                             sampled outcomes (same numpy seed) for both spellings; the recording backend is handed the
                             same flat program without subcircuit blocks; and where the explicit spelling meets the
                             reference the subcircuit spelling meets it too - at EVERY visit of a family
  combo_output_like_explicit the same for parse_jaqal_output_list with one output per reference visit
What is NOT demanded (never more than the property): that the other passes treat the two spellings alike - the
cross-spelling oracles are applied after a route only if the route's two results are still the two spellings of one
program (else `route_not_spelling_neutral` in the distribution); a call the library refuses for the explicit spelling
only demands the same refusal class for the subcircuit spelling.

Recommended n: 600 (quick, ~9 s), 8000 (thorough, ~2 min).        CLI: c09_combo.py [--seed S] [--n N] [--thorough]
"""
import os, sys, json, random, signal, argparse, gc

DEFAULT_DRIVER = "/verif/lean/.lake/build/bin/jaqal-model"
ORACLES = ("combo_terminates", "combo_accepted", "combo_expand_shape", "combo_no_subcircuit_left", "combo_bounding_gates",
           "combo_run_like_explicit", "combo_output_like_explicit")
SHADOWS = ("none", "let_q", "let_i", "reg_q", "reg_r", "alias", "bounding", "gate", "let_i", "let_q")
EMPTIES = ("par0", "seq0", "loop_seq0", "loop_par0", "sub0", "nopcall", "parnop", "par_seq0", "par1", "loop0", "seq_par0", "none")
WHERES = ("top_first", "top_last", "sub_first", "sub_last", "exp_inside", "macro_before", "macro_before_uncalled",
          "macro_body_first", "loop_first", "between", "macro_sub_last")
POSES = ("mixed", "only_loop", "only_macro", "macro_only_stmt", "only_seq", "last", "first", "loop_direct", "deep",
         "macro_loop_macro", "unused_macro", "macro_par_then_sub", "mixed")
ROUTES = ("none", "let", "let_ov", "macros", "macros_keep", "let_ov_macros", "macros_let_ov", "none", "subs", "let_ov")
EXPAND_VARIANTS = ("default", "none_none", "str_native", "obj_native", "obj_other", "str_other", "prepare_only")
RUN_VARIANTS = ("default", "backend", "shared", "recording", "shared")
OUT_KINDS = ("int", "str", "int", "np")
MUTS = ("swap_macros", "toggle_sub", "toggle_exp", "insert_empty", "drop_stmt", "dup_stmt", "let_value", "same")
MAX_VISITS = 400
_real = {}


class Hang(Exception):
    pass


def _alarm(signum, frame):
    raise Hang()


def _load():
    """import jaqalpaq lazily (no work at import time)"""
    if _real:
        return _real
    os.environ["JAQALPAQ_RUN_EMULATOR"] = "1"
    root = os.path.dirname(os.path.dirname(os.path.dirname(os.path.abspath(__file__))))
    if not os.path.isfile(os.path.join(root, "harness", "gates.py")):
        root = "/verif"
    if root not in sys.path:
        sys.path.insert(0, root)
    import warnings
    warnings.filterwarnings("ignore")
    import numpy
    from harness import timeouts as T
    from harness.gates import GATES_IDLE as GI
    from jaqalpaq.parser import parse_jaqal_string
    from jaqalpaq.run import run_jaqal_circuit
    from jaqalpaq.emulator.unitary import UnitarySerializedEmulator
    from jaqalpaq.core.algorithm import expand_subcircuits, fill_in_let, expand_macros
    from jaqalpaq.core.result import parse_jaqal_output_list
    from jaqalpaq.core import circuitbuilder as CB
    from jaqalpaq.core import GateDefinition, Macro, Parameter, Constant, Register, NamedQubit
    from jaqalpaq.core.gate import GateStatement
    from jaqalpaq.core.block import BlockStatement, LoopStatement
    from jaqalpaq.error import JaqalError

    class RecordingEmulator(UnitarySerializedEmulator):
        """the default emulator, remembering what run_jaqal_circuit hands it"""
        received = None

        def __call__(self, circ):
            self.received = circ
            return super().__call__(circ)

    _real.update(GI=GI, T=T, np=numpy, parse=parse_jaqal_string, run=run_jaqal_circuit, USE=UnitarySerializedEmulator,
                 Rec=RecordingEmulator, expand=expand_subcircuits, fill=fill_in_let, macros=expand_macros,
                 outlist=parse_jaqal_output_list, build=CB.build, GateDefinition=GateDefinition, Macro=Macro,
                 Parameter=Parameter, Constant=Constant, Register=Register, NamedQubit=NamedQubit, GateStatement=GateStatement,
                 BlockStatement=BlockStatement, LoopStatement=LoopStatement, JaqalError=JaqalError,
                 shared=UnitarySerializedEmulator())
    return _real


# ------------------------------------------------------------------------------------------------------------------
# abstract programs
#   prog = {"reg": name, "nq": int | let, "lets": [[name, int]], "maps": [[name, src, sel]], "macros": [[name, [params], [stmt]]],
#           "body": [stmt], "ov": {let: int}}
#   sel  = None (whole) | idx (one qubit) | ["s", lo, hi, step] (slice; each None | int | let)
#   stmt = ["g", gate, [arg]] | ["c", macro, [arg]] | ["loop", count, [stmt]] | ["loopp", count, [stmt]] (loop n < .. >)
#        | ["loops", count, subcount, [stmt]] (a loop whose body IS the subcircuit block) | ["par", [stmt]] | ["seq", [stmt]]
#        | ["sub", None | count, [stmt]] | ["P"] | ["M"]
#   arg  = ["r", register_or_alias_or_parameter, idx] | ["n", name] | ["i", int]       count / idx = int | let | parameter
# ------------------------------------------------------------------------------------------------------------------
def children(s):
    k = s[0]
    if k in ("loop", "loopp", "sub"):
        return s[2]
    if k == "loops":
        return s[3]
    if k in ("par", "seq"):
        return s[1]
    return None


def flat(stmts):
    for s in stmts:
        yield s
        c = children(s)
        if c is not None:
            yield from flat(c)


def walk_all(p):
    for m in p["macros"]:
        yield from flat(m[2])
    yield from flat(p["body"])


def stmt_lists(p):
    """every statement list of the program with its context ('out' = between sections, 'in' = inside a section)"""
    out = []

    def rec(stmts, ctx, where):
        out.append((stmts, ctx, where))
        for s in stmts:
            k = s[0]
            if k == "sub":
                rec(s[2], "in", where + "/sub")
            elif k == "loops":
                rec(s[3], "in", where + "/sub")
            elif k in ("loop", "loopp"):
                rec(s[2], ctx, where + "/" + k)
            elif k in ("par", "seq"):
                rec(s[1], ctx if k == "seq" else "par", where + "/" + k)
    for m in p["macros"]:
        rec(m[2], "macro", "macro")
    rec(p["body"], "out", "body")
    return out


# ------------------------------------------------------------------------------------------------------------------
# rendering
# ------------------------------------------------------------------------------------------------------------------
def t_arg(a):
    return f"{a[1]}[{a[2]}]" if a[0] == "r" else str(a[1])


def t_stmt(s, style):
    """-> list of statement strings (an explicit section is several statements)"""
    k = s[0]
    if k in ("g", "c"):
        return [" ".join([s[1]] + [t_arg(a) for a in s[2]])]
    if k == "P":
        return ["prepare_all"]
    if k == "M":
        return ["measure_all"]
    if k == "loop":
        return [f"loop {s[1]} " + t_block(s[2], style, "{", "}", " ; ")]
    if k == "loopp":
        return [f"loop {s[1]} " + t_block(s[2], style, "<", ">", " | ")]
    if k == "seq":
        return [t_block(s[1], style, "{", "}", " ; ")]
    if k == "par":
        return [t_block(s[1], style, "<", ">", " | ")]
    if k == "loops":       # (object level only; written here for the reader)
        inner = t_stmt(["sub", s[2], s[3]], style)
        return [f"loop {s[1]} " + (inner[0] if style == "sub" else "{ " + " ; ".join(inner) + " }")]
    if k == "sub":
        if style == "sub":
            return [f"subcircuit {'' if s[1] is None else str(s[1]) + ' '}" + t_block(s[2], style, "{", "}", " ; ")]
        return ["prepare_all"] + [x for c in s[2] for x in t_stmt(c, style)] + ["measure_all"]
    raise ValueError(k)


def t_block(stmts, style, o, c, sep):
    parts = [x for s in stmts for x in t_stmt(s, style)]
    return o + " " + sep.join(parts) + (" " if parts else "") + c


def to_text(p, style):
    out = []
    for n, v in p["lets"]:
        out.append(f"let {n} {v}")
    out.append(f"register {p['reg']}[{p['nq']}]")
    for n, src, sel in p["maps"]:
        if sel is None:
            out.append(f"map {n} {src}")
        elif isinstance(sel, list):
            lo, hi, st = ("" if x is None else str(x) for x in sel[1:4])
            out.append(f"map {n} {src}[{lo}:{hi}" + (f":{st}" if st else "") + "]")
        else:
            out.append(f"map {n} {src}[{sel}]")
    for n, params, body in p["macros"]:
        out.append("macro " + " ".join([n] + params) + " " + t_block(body, style, "{", "}", "\n  "))
    for s in p["body"]:
        out += t_stmt(s, style)
    return "\n".join(out) + "\n"


def needs_sexpr(p):
    """what the text grammar cannot say: a sequential block anywhere but at top level / in a parallel block, a loop or a
    parallel block directly in a parallel block, a loop directly over a subcircuit block"""
    def rec(stmts, ctx):
        for s in stmts:
            k = s[0]
            if k == "loops":
                return True
            if ctx == "par" and k not in ("g", "c", "seq"):
                return True
            if k == "seq" and ctx not in ("top", "par"):
                return True
            c = children(s)
            if c is not None and rec(c, "par" if k in ("par", "loopp") else "blk"):
                return True
        return False
    return rec(p["body"], "top") or any(rec(m[2], "blk") for m in p["macros"])


def s_arg(a):
    return ("array_item", a[1], a[2]) if a[0] == "r" else a[1]


def s_stmts(stmts, style):
    out = []
    for s in stmts:
        k = s[0]
        if k in ("g", "c"):
            out.append(("gate", s[1]) + tuple(s_arg(a) for a in s[2]))
        elif k == "P":
            out.append(("gate", "prepare_all"))
        elif k == "M":
            out.append(("gate", "measure_all"))
        elif k == "loop":
            out.append(("loop", s[1], ("sequential_block",) + tuple(s_stmts(s[2], style))))
        elif k == "loopp":
            out.append(("loop", s[1], ("parallel_block",) + tuple(s_stmts(s[2], style))))
        elif k == "seq":
            out.append(("sequential_block",) + tuple(s_stmts(s[1], style)))
        elif k == "par":
            out.append(("parallel_block",) + tuple(s_stmts(s[1], style)))
        elif k in ("sub", "loops"):
            cnt, body = (s[1], s[2]) if k == "sub" else (s[2], s[3])
            inner = tuple(s_stmts(body, style))
            if style == "sub":
                blk = [("subcircuit_block", "" if cnt is None else cnt) + inner]
            elif style == "block" or k == "loops":
                blk = [("sequential_block", ("gate", "prepare_all")) + inner + (("gate", "measure_all"),)]
            else:
                blk = [("gate", "prepare_all"), *inner, ("gate", "measure_all")]
            if k == "loops":
                out.append(("loop", s[1], blk[0]))
            else:
                out += blk
    return out


def to_sexpr(p, style):
    out = ["circuit"]
    for n, v in p["lets"]:
        out.append(("let", n, v))
    out.append(("register", p["reg"], p["nq"]))
    for n, src, sel in p["maps"]:
        if sel is None:
            out.append(("map", n, src))
        elif isinstance(sel, list):
            out.append(("map", n, src, sel[1], sel[2], sel[3]))
        else:
            out.append(("map", n, src, sel))
    for n, params, body in p["macros"]:
        out.append(("macro", n, *params, ("sequential_block",) + tuple(s_stmts(body, style))))
    out += s_stmts(p["body"], style)
    return tuple(out)


# ------------------------------------------------------------------------------------------------------------------
# the independent reference
# ------------------------------------------------------------------------------------------------------------------
class RefError(Exception):
    pass


class Ref:
    """scoping (a parameter shadows every global), override values, slices; sections in flat order, unrolled visits, and the
    one possible outcome of every section (None when it uses SX / HH)"""

    def __init__(self, p, ov=None):
        try:
            self.lets = {n: v for n, v in p["lets"]}
            for n, v in (ov or {}).items():
                if n in self.lets:
                    self.lets[n] = v
            self.nq = self.val(p["nq"], {})
            if not 1 <= self.nq <= 6:
                raise RefError("register size")
            self.regs = {p["reg"]: list(range(self.nq))}
            self.single = {}
            for n, src, sel in p["maps"]:
                base = self.regs[src]
                if sel is None:
                    self.regs[n] = base
                elif isinstance(sel, list):
                    lo, hi, st = (None if x is None else self.val(x, {}) for x in sel[1:4])
                    if (lo is not None and not 0 <= lo <= len(base)) or (hi is not None and not 0 <= hi <= len(base)) or (st is not None and st < 1):
                        raise RefError("slice bounds")
                    self.regs[n] = base[slice(lo, hi, st)]
                    if not self.regs[n]:
                        raise RefError("empty alias")
                else:
                    self.single[n] = self.item(base, self.val(sel, {}))
            self.macros = {n: (params, body) for n, params, body in p["macros"]}
            self.outcomes = []
            self.gates = 0
            self.tree = self.static(p["body"], {}, 0)
            # a macro that is never called is still checked for being well-formed on its own (with made-up arguments it cannot
            # be evaluated, so only its shape is looked at)
            self.visits = []
            self.dyn(self.tree)
        except (KeyError, IndexError, TypeError) as e:
            raise RefError(f"{type(e).__name__}: {e}")

    @staticmethod
    def item(lst, i):
        if not isinstance(i, int) or not 0 <= i < len(lst):
            raise RefError(f"index {i} out of range")
        return lst[i]

    def val(self, x, penv):
        if isinstance(x, int):
            return x
        if x in penv:
            k, v = penv[x]
            if k != "i":
                raise RefError(f"{x} is not a number")
            return v
        return self.lets[x]

    def arg(self, a, penv):
        if a[0] == "i":
            return ("i", a[1])
        if a[0] == "r":
            n = a[1]
            if n in penv:
                k, v = penv[n]
                if k != "reg":
                    raise RefError(f"{n} is not a register")
                return ("q", self.item(v, self.val(a[2], penv)))
            return ("q", self.item(self.regs[n], self.val(a[2], penv)))
        n = a[1]
        if n in penv:
            return penv[n]
        if n in self.single:
            return ("q", self.single[n])
        if n in self.regs:
            return ("reg", self.regs[n])
        return ("i", self.lets[n])

    def bind(self, name, args, penv):
        params, body = self.macros[name]
        if len(params) != len(args):
            raise RefError("argument count")
        return body, {pn: self.arg(a, penv) for pn, a in zip(params, args)}

    def static(self, stmts, penv, depth):
        if depth > 40:
            raise RefError("depth")
        nodes = []
        i = 0
        while i < len(stmts):
            s = stmts[i]
            k = s[0]
            if k == "P":
                j = i + 1
                while j < len(stmts) and stmts[j][0] != "M":
                    if stmts[j][0] == "P":
                        raise RefError("prepare in a section")
                    j += 1
                if j >= len(stmts):
                    raise RefError("section not closed at its level")
                nodes.append(("sec", self.section(stmts[i + 1:j], penv)))
                i = j
            elif k == "sub":
                self.val(s[1], penv) if s[1] is not None else None
                nodes.append(("sec", self.section(s[2], penv)))
            elif k == "loops":
                self.val(s[2], penv) if s[2] is not None else None
                n = self.val(s[1], penv)
                nodes.append(("loop", n, [("sec", self.section(s[3], penv))], True))
            elif k == "loop":
                inner = self.static(s[2], penv, depth + 1)
                n = self.val(s[1], penv)
                if n < 0:
                    raise RefError("negative count")
                nodes.append(("loop", n, inner, any(nd[0] == "sec" or nd[3] for nd in inner)))
            elif k == "loopp" or k == "par":
                if self.static(children(s), penv, depth + 1):
                    raise RefError("section in a parallel block")
                if k == "loopp":
                    self.val(s[1], penv)
            elif k == "seq":
                nodes += self.static(s[1], penv, depth + 1)
            elif k == "c":
                body, env = self.bind(s[1], s[2], penv)
                nodes += self.static(body, env, depth + 1)
            else:
                raise RefError(f"statement {s[:2]} outside a section")
            i += 1
        return nodes

    def section(self, stmts, penv):
        bits = [0] * self.nq
        self.quantum = False
        self.sim(stmts, penv, bits, None)
        self.outcomes.append(None if self.quantum else sum(b << k for k, b in enumerate(bits)))
        return len(self.outcomes) - 1

    def sim(self, stmts, penv, bits, touched):
        for s in stmts:
            k = s[0]
            if k == "g":
                self.gates += 1
                if self.gates > 100000:
                    raise RefError("too many gate applications")
                vals = [self.arg(a, penv) for a in s[2]]
                g = s[1]
                nqa = {"X": 1, "Z": 1, "S": 1, "SX": 1, "P": 1, "CX": 2, "SWAP": 2, "CZ": 2, "HH": 2}.get(g)
                if nqa is None:
                    raise RefError(f"unknown gate {g}")
                q = [v for kk, v in vals[:nqa]]
                if any(kk != "q" for kk, v in vals[:nqa]) or len(set(q)) != nqa or (g == "P" and (len(vals) != 2 or vals[1][0] != "i")):
                    raise RefError("gate arguments")
                if touched is not None:
                    touched.update(q)
                if g == "X":
                    bits[q[0]] ^= 1
                elif g == "CX":
                    bits[q[1]] ^= bits[q[0]]
                elif g == "SWAP":
                    bits[q[0]], bits[q[1]] = bits[q[1]], bits[q[0]]
                elif g in ("SX", "HH"):
                    self.quantum = True
            elif k in ("loop", "loopp"):
                n = self.val(s[1], penv)
                if n < 0:
                    raise RefError("negative count")
                if k == "loopp":
                    self.disjoint(s[2], penv)
                if n == 0:      # still has to be well-formed
                    self.sim(s[2], penv, list(bits), touched)
                for _ in range(n):
                    self.sim(s[2], penv, bits, touched)
            elif k == "par":
                self.disjoint(s[1], penv)
                self.sim(s[1], penv, bits, touched)
            elif k == "seq":
                self.sim(s[1], penv, bits, touched)
            elif k == "c":
                body, env = self.bind(s[1], s[2], penv)
                self.sim(body, env, bits, touched)
            else:
                raise RefError(f"{k} inside a section")

    def disjoint(self, stmts, penv):
        """the children of a parallel block act on different qubits"""
        seen = set()
        for c in stmts:
            t = set()
            q, g = self.quantum, self.gates
            self.sim([c], penv, [0] * self.nq, t)
            self.quantum = q
            if t & seen:
                raise RefError("parallel statements share a qubit")
            seen |= t

    def dyn(self, nodes):
        for nd in nodes:
            if nd[0] == "sec":
                self.visits.append(nd[1])
                if len(self.visits) > MAX_VISITS:
                    raise RefError("too many visits")
            elif nd[3]:
                for _ in range(nd[1]):
                    self.dyn(nd[2])


# ------------------------------------------------------------------------------------------------------------------
# dumps of real objects
# ------------------------------------------------------------------------------------------------------------------
def d_val(R, v):
    if isinstance(v, R["NamedQubit"]):
        src = v.alias_from
        return ["q", v.name, type(src).__name__, getattr(src, "name", None), d_val(R, v.alias_index)]
    if isinstance(v, R["Constant"]):
        return ["let", v.name, repr(v.value)]
    if isinstance(v, R["Parameter"]):
        return ["param", v.name, str(v.kind)]
    if isinstance(v, R["Register"]):
        return ["reg", v.name]
    if isinstance(v, (int, float)):
        return ["num", repr(v)]
    return ["other", type(v).__name__, repr(v)[:80]]


def d_stmt(R, s):
    if isinstance(s, R["GateStatement"]):
        gd = s.gate_def
        return ["g", s.name, "macro" if isinstance(gd, R["Macro"]) else "gate", [[k, d_val(R, v)] for k, v in s.parameters.items()]]
    if isinstance(s, R["LoopStatement"]):
        return ["loop", d_val(R, s.iterations), d_stmt(R, s.statements)]
    if isinstance(s, R["BlockStatement"]):
        return ["blk", type(s).__name__, bool(s.parallel), bool(s.subcircuit), d_val(R, s.iterations), [d_stmt(R, x) for x in s.statements]]
    return ["other", type(s).__name__]


def d_circuit(R, c):
    regs = []
    for n, r in c.registers.items():
        if isinstance(r, R["NamedQubit"]):
            regs.append([n, "single"] + d_val(R, r))
        elif r.fundamental:
            regs.append([n, r.name, "fundamental", d_val(R, r.size)])
        else:
            sl = r.alias_slice
            regs.append([n, r.name, "alias", r.alias_from.name, None if sl is None else [d_val(R, x) if x is not None else None for x in (sl.start, sl.stop, sl.step)]])
    return {"registers": regs,
            "constants": [[n, v.name, repr(v.value)] for n, v in c.constants.items()],
            "macros": [[n, m.name, [[x.name, str(x.kind)] for x in m.parameters], d_stmt(R, m.body)] for n, m in c.macros.items()],
            "usepulses": [[str(u.module), "all" if u.names is all else list(u.names)] for u in c.usepulses],
            "native": list(c.native_gates.keys()),
            "body": d_stmt(R, c.body)}


def t_dump(d, pname, mname):
    """the property's transformation, applied to a dump: a subcircuit block becomes the sequential block [prepare, *body, measure]"""
    if d[0] == "blk":
        inner = [t_dump(x, pname, mname) for x in d[5]]
        if d[3]:
            return ["blk", "BlockStatement", d[2], False, ["num", "1"], [["g", pname, "gate", []]] + inner + [["g", mname, "gate", []]]]
        return ["blk", d[1], d[2], False, d[4], inner]
    if d[0] == "loop":
        return ["loop", d[1], t_dump(d[2], pname, mname)]
    return d


def t_circuit(dc, pname, mname):
    out = dict(dc)
    out["macros"] = [[n, mn, ps, t_dump(b, pname, mname)] for n, mn, ps, b in dc["macros"]]
    out["body"] = t_dump(dc["body"], pname, mname)
    return out


def first_diff(a, b, path="$"):
    if type(a) != type(b):
        return f"{path}: {str(a)[:90]} != {str(b)[:90]}"
    if isinstance(a, dict):
        for k in a:
            if k not in b:
                return f"{path}.{k} missing"
            r = first_diff(a[k], b[k], f"{path}.{k}")
            if r:
                return r
        return None if set(a) == set(b) else f"{path}: keys differ"
    if isinstance(a, list):
        if len(a) != len(b) and all(not isinstance(x, list) for x in a + b):
            return f"{path}: {str(a)[:90]} != {str(b)[:90]}"
        for i, (x, y) in enumerate(zip(a, b)):
            r = first_diff(x, y, f"{path}[{i}]")
            if r:
                return r
        return None if len(a) == len(b) else f"{path}: length {len(a)} != {len(b)} ({str(a[len(b):] or b[len(a):])[:90]})"
    return None if a == b else f"{path}: {str(a)[:90]} != {str(b)[:90]}"


def flat_dump(d):
    """the statements of a dumped block with sequential-in-sequential nesting removed (what a written
    `prepare_all; B; measure_all` looks like next to the block [prepare_all, B, measure_all]); everything else is kept"""
    out = []
    for x in d[5]:
        if x[0] == "blk" and not x[2] and not x[3] and not d[2]:
            out += flat_dump(x)
        elif x[0] == "blk":
            out.append(["blk", x[2], x[3], x[4], flat_dump(x)])
        elif x[0] == "loop":
            b = x[2]
            out.append(["loop", x[1], b[2], b[3], flat_dump(b)] if b[0] == "blk" else ["loop", x[1], b])
        else:
            out.append(x)
    return out


def flat_circuit(dc):
    out = dict(dc)
    out["macros"] = [[n, mn, ps, flat_dump(b)] for n, mn, ps, b in dc["macros"]]
    out["body"] = flat_dump(dc["body"])
    return out


def subcircuits_left(R, c):
    bad, seen = [], set()
    stack = [(c.body, "body")] + [(m.body, f"macro {n}") for n, m in c.macros.items()]
    while stack:
        s, where = stack.pop()
        if isinstance(s, R["BlockStatement"]):
            if s.subcircuit:
                bad.append(where)
            stack += [(x, f"{where}[{k}]") for k, x in enumerate(s.statements)]
        elif isinstance(s, R["LoopStatement"]):
            stack.append((s.statements, where + ".loop"))
        elif isinstance(s, R["GateStatement"]):
            gd = s.gate_def
            if isinstance(gd, R["Macro"]) and id(gd) not in seen:
                seen.add(id(gd))
                stack.append((gd.body, f"{where} -> definition of {s.name}"))
    return bad


def count_subs(R, c):
    n = 0
    stack = [c.body] + [m.body for m in c.macros.values()]
    while stack:
        s = stack.pop()
        if isinstance(s, R["BlockStatement"]):
            n += bool(s.subcircuit)
            stack += list(s.statements)
        elif isinstance(s, R["LoopStatement"]):
            stack.append(s.statements)
    return n


def bounding_statements(R, cin, cout):
    """(first, last) statements of every block of the result that stands where the input has a subcircuit block"""
    found = []
    stack = [(cin.body, cout.body)] + [(m.body, cout.macros[n].body) for n, m in cin.macros.items() if n in cout.macros]
    while stack:
        a, b = stack.pop()
        if isinstance(a, R["BlockStatement"]) and isinstance(b, R["BlockStatement"]):
            sa, sb = list(a.statements), list(b.statements)
            if a.subcircuit:
                if len(sb) != len(sa) + 2:
                    continue
                found.append((sb[0], sb[-1]))
                sb = sb[1:-1]
            stack += list(zip(sa, sb))
        elif isinstance(a, R["LoopStatement"]) and isinstance(b, R["LoopStatement"]):
            stack.append((a.statements, b.statements))
    return found


# ------------------------------------------------------------------------------------------------------------------
# generators
# ------------------------------------------------------------------------------------------------------------------
ONE_Q = ("X", "X", "X", "Z", "S")
TWO_Q = ("CX", "SWAP", "CZ")


def pick2(rng, pool):
    a = rng.choice(pool)
    others = [p for p in pool if p[1] != a[1]]
    return a[0], rng.choice(others)[0]


class Ctx:
    """what a statement list may refer to: q2 = [(arg, key)] qubits that are pairwise different when their keys differ (for
    two-qubit gates and parallel blocks), q1 = args for one-qubit gates, counts, plain macros [(name, nparams)], nops"""

    def __init__(self, q2, q1, counts, plain, nops, quantum=False):
        self.q2, self.q1, self.counts, self.plain, self.nops, self.quantum = q2, q1, counts, plain, nops, quantum
        self.two = len({k for _, k in q2}) >= 2

    def q(self, rng):
        return rng.choice(self.q1) if self.q1 and rng.random() < 0.4 else rng.choice(self.q2)[0]


def a_gate(rng, C):
    return ["g", rng.choice(ONE_Q + (("SX",) if C.quantum else ())), [C.q(rng)]]


def empty_stmt(rng, C, kind, where):
    """the empty / degenerate construct `kind`, for the inside of a section (where='in') or between sections ('out')"""
    cnt = rng.choice(C.counts)
    if kind == "seq0":
        return ["seq", []]
    if kind == "loop_seq0":
        return ["loop", cnt, []]
    if kind == "loop_par0":
        return ["loopp", cnt, []]
    if kind == "sub0" and where == "out":
        return ["sub", rng.choice((None, cnt)), []]
    if kind == "nopcall" and "nop" in C.nops:
        return ["c", "nop", [C.q(rng)]]
    if kind == "parnop" and "parnop" in C.nops:
        return ["c", "parnop", [C.q(rng)]]
    if kind == "par_seq0":
        return ["par", [["seq", []], a_gate(rng, C)]] if where == "in" else ["par", [["seq", []]]]
    if kind == "par1" and where == "in":
        return ["par", [a_gate(rng, C)]]
    if kind == "loop0":
        return ["loop", 0, [a_gate(rng, C)]] if where == "in" else ["loop", 0, [["sub", None, [a_gate(rng, C)]]]]
    if kind == "seq_par0":
        return ["seq", [["par", []]]]
    return ["par", []]


EMPTY_ANY = ("par0", "par0", "loop_seq0", "loop_par0", "nopcall", "parnop", "par_seq0", "par1", "loop0")


def content(rng, C, k=None, ek=None):
    """the statements of one section"""
    out = []
    for _ in range(rng.randrange(0, 4) if k is None else k):
        c = rng.random()
        if c < 0.3 or not C.two:
            out.append(a_gate(rng, C))
        elif c < 0.42:
            a, b = pick2(rng, C.q2)
            out.append(["g", rng.choice(TWO_Q + (("HH",) if C.quantum else ())), [a, b]])
        elif c < 0.52:
            a, b = pick2(rng, C.q2)
            out.append(["par", [["g", "X", [a]], ["g", rng.choice(("X", "Z")), [b]]]])
        elif c < 0.6:
            a, b = pick2(rng, C.q2)
            out.append(["par", [["seq", [["g", "X", [a]], ["g", "Z", [a]], ["loop", rng.choice(C.counts), [["g", "X", [a]]]]]], ["g", "X", [b]]]])
        elif c < 0.72:      # the loop body IS the parallel block ...
            a, b = pick2(rng, C.q2)
            out.append(["loopp", rng.choice(C.counts), [["g", "X", [a]], ["g", rng.choice(("X", "S")), [b]]]])
        elif c < 0.8:       # ... or holds it
            a, b = pick2(rng, C.q2)
            out.append(["loop", rng.choice(C.counts), [["par", [["g", "X", [a]], ["g", rng.choice(("X", "S")), [b]]]]]])
        elif c < 0.86:
            out.append(["loop", rng.choice(C.counts), [a_gate(rng, C) for _ in range(rng.randrange(0, 3))]])
        elif c < 0.9:
            out.append(["g", "P", [C.q(rng), ["i", rng.randrange(0, 7)]]])
        elif c < 0.97 and C.plain:
            name, npar = rng.choice(C.plain)
            out.append(["c", name, list(pick2(rng, C.q2))[:npar]])
        else:
            out.append(empty_stmt(rng, C, rng.choice(EMPTY_ANY), "in"))
    if ek and rng.random() < 0.25:
        out.insert(rng.choice((0, len(out))), empty_stmt(rng, C, ek, "in"))
    return out


def a_sub(rng, C, ek=None):
    return ["sub", rng.choice((None, None, None, rng.choice(C.counts), rng.choice(C.counts), rng.choice(C.counts), 0, 3)), content(rng, C, ek=ek)]


def a_section(rng, C, ek=None):
    return [["P"]] + content(rng, C, ek=ek) + [["M"]]


def out_items(rng, C, sect, ctx, depth, k, ek=None, subs=True):
    """statements between sections; sect = [(macro, nparams-as-argument-makers)] section macros that may be called here"""
    out = []
    for _ in range(k):
        c = rng.random()
        if c < 0.33 and subs:
            out.append(a_sub(rng, C, ek))
        elif c < 0.45:
            out += a_section(rng, C, ek)
        elif c < 0.62 and depth < 3:
            out.append(["loop", rng.choice(C.counts), out_items(rng, C, sect, "loop", depth + 1, rng.randrange(0, 3), ek, subs)])
        elif c < 0.8 and sect:
            out.append(rng.choice(sect)(rng))
        elif c < 0.86 and ctx == "top":
            out.append(["seq", out_items(rng, C, sect, "seq", 3, rng.randrange(0, 3), ek, subs)])
        elif c < 0.93:
            out.append(empty_stmt(rng, C, ek if ek and rng.random() < 0.6 else rng.choice(EMPTY_ANY + ("sub0", "seq_par0") + (("seq0",) if ctx == "top" else ())), "out"))
        elif subs:
            out.append(["sub", None, []])
    return out


def header(rng, nq, names):
    """lets, register, aliases; -> (prog, pool of global qubit arguments [(arg, physical qubit)])"""
    N = names
    p = {"reg": N["q"], "nq": N["n"] if rng.random() < 0.5 else nq,
         "lets": [[N["n"], nq], [N["k"], 2], [N["z"], 0], [N["i"], 1], [N["t"], nq - 1]],
         "maps": [], "macros": [], "body": [], "ov": {}}
    rng.shuffle(p["lets"])
    if rng.random() < 0.8:
        p["maps"].append([N["a"], N["q"], rng.choice((None, ["s", 0, N["n"], None], ["s", 1, None, None], ["s", None, N["k"], None],
                                                    ["s", N["z"], None, 1], ["s", N["i"], N["n"], None]))])
        if rng.random() < 0.5:
            p["maps"].append([N["b"], N["a"], rng.choice((None, None, ["s", N["z"], None, None], ["s", None, N["i"], None]))])
            if rng.random() < 0.5:
                p["maps"].append([N["u"], N["b"], rng.choice((0, N["z"]))])
    if rng.random() < 0.7:
        src = rng.choice([N["q"]] + ([N["a"]] if p["maps"] else []))
        p["maps"].append([N["s"], src, rng.choice((0, N["z"], N["i"], N["t"])) if src == N["q"] else rng.choice((0, N["z"]))])
    rng.shuffle(p["maps"]) if rng.random() < 0 else None      # (aliases must follow what they are made of: order kept)
    r = Ref(p)
    pool = []
    for reg, lst in r.regs.items():
        for j, ph in enumerate(lst):
            pool.append((["r", reg, j], ph))
            for ln in ("z", "i", "t", "k"):
                if r.lets[N[ln]] == j and rng.random() < 0.5:
                    pool.append((["r", reg, N[ln]], ph))
    for s, ph in r.single.items():
        pool.append((["n", s], ph))
    return p, pool


def gen_prog(rng, knobs):
    sh, ek, wh, pos = knobs["shadow"], knobs["empty"], knobs["where"], knobs["pos"]
    ek = None if ek == "none" else ek
    nq = rng.choice((2, 3, 3))
    N = {x: x for x in "nkzitqabsu"}
    if sh == "bounding" and rng.random() < 0.6:
        for x, y in zip(rng.sample("kzitabsu", 2), ("prepare_all", "measure_all")):
            N[x] = y
    p, pool = header(rng, nq, N)
    quantum = rng.random() < 0.12
    gcounts = [0, 1, 2, 3, 2, N["k"], N["z"], N["i"]]
    # --- macros without sections ------------------------------------------------------------------------------------
    p["macros"].append(["nop", ["x"], []])
    p["macros"].append(["parnop", ["x"], [["par", []]]])
    nops = ["nop", "parnop"]
    PC = Ctx([(["n", "x"], "x"), (["n", "y"], "y")], [a for a, _ in pool], gcounts, [], nops, quantum)
    plain = []
    for i in range(rng.randrange(0, 3)):
        if i == 0 and rng.random() < 0.5:
            C1 = Ctx([(["n", "x"], "x")], [], gcounts, [], nops, quantum)
            p["macros"].append([f"g{i}", ["x"], content(rng, C1, rng.randrange(1, 3))])
            plain.append((f"g{i}", 1))
        else:
            PC.plain = [x for x in plain if x[1] == 2]
            p["macros"].append([f"g{i}", ["x", "y"], content(rng, PC, rng.randrange(0, 3))])
            plain.append((f"g{i}", 2))
    GC = Ctx(pool, [], gcounts, plain, nops, quantum)
    # --- macros with sections: parameter names by the shadow knob ---------------------------------------------------
    globals_ = [N[x] for x in "nkzit"] + [m[0] for m in p["maps"]] + [N["q"]]
    sect, sect_names = [], []

    def section_macro(name, body_maker):
        px, py, extra, hidden = "x", "y", [], set()
        kind = sh if rng.random() < 0.8 else "none"
        if kind == "let_q":
            px = rng.choice([N[x] for x in "nkzit"])
        elif kind == "let_i":
            extra = [("i", rng.choice([N[x] for x in "kzit"]))]
        elif kind == "reg_q":
            px = N["q"]
        elif kind == "reg_r":
            extra = [("reg", N["q"])]
        elif kind == "alias" and p["maps"]:
            px = rng.choice(p["maps"])[0]
        elif kind == "bounding":
            px, py = [x for x in ("prepare_all", "measure_all")]
            if rng.random() < 0.5:
                py = "y"
        elif kind == "gate" and plain:
            px = rng.choice(plain)[0]
        if rng.random() < 0.3 and kind != "none":
            px, py = py, px
        params = [e[1] for e in extra] + [px, py]
        if len(set(params)) != len(params):
            params = [e[1] for e in extra] + ["x", "y"]
            px, py = "x", "y"
        hidden = set(params)
        q1 = [a for a, _ in pool if a[1] not in hidden and not (a[0] == "r" and a[2] in hidden)]
        counts = [c for c in gcounts if c not in hidden]
        for k_, nm in extra:
            if k_ == "i":
                counts += [nm] * 4
                q1 += [["r", r_, nm] for r_ in [N["q"]] if r_ not in hidden] * 2
            else:
                q1 += [["r", nm, 0], ["r", nm, N["z"]] if N["z"] not in hidden else ["r", nm, 0]]
        MC = Ctx([(["n", px], px), (["n", py], py)], q1, counts, plain, nops, quantum)
        body = body_maker(MC)
        p["macros"].append([name, params, body])

        def call(rng2, C=None, _extra=extra, _name=name):
            args = []
            for k_, nm in _extra:
                if k_ == "i":       # also an index into the register: below its size
                    v = rng2.randrange(0, nq)
                    cand = [["i", v]] + [["n", N[x]] for x in "kzit" if dict(p["lets"])[N[x]] == v]
                    args.append(rng2.choice(cand))
                else:
                    args.append(["n", rng2.choice([N["q"]] + [m[0] for m in p["maps"] if m[2] is None or isinstance(m[2], list)])])
            a, b = pick2(rng2, (C or GC).q2)
            return ["c", _name, args + [a, b]]
        return call

    def std_body(MC):
        body = []
        for _ in range(rng.randrange(1, 3)):
            c = rng.random()
            if c < 0.5:
                body.append(a_sub(rng, MC, ek))
            elif c < 0.62:
                body += a_section(rng, MC, ek)
            elif c < 0.8:
                body.append(["loop", rng.choice(MC.counts), [a_sub(rng, MC, ek)] + (a_section(rng, MC) if rng.random() < 0.3 else [])])
            elif sect:
                body.append(rng.choice(sect)(rng, MC))
            else:
                body.append(["sub", None, []])
        return body

    nsect = {"mixed": rng.randrange(0, 3), "only_macro": rng.randrange(1, 4), "macro_only_stmt": rng.randrange(1, 3), "macro_loop_macro": 1,
             "unused_macro": rng.randrange(1, 3), "macro_par_then_sub": 0}.get(pos, rng.randrange(0, 2))
    if sh != "none" and pos != "macro_par_then_sub":
        nsect = max(nsect, 1)
    for i in range(nsect):
        sect.append(section_macro(f"m{i}", std_body))
    # --- the body, by the position knob -----------------------------------------------------------------------------
    B = p["body"]
    if pos == "mixed":
        B += out_items(rng, GC, sect, "top", 0, rng.randrange(1, 5), ek)
    elif pos == "only_loop":
        B += out_items(rng, GC, [], "top", 0, rng.randrange(0, 2), ek, subs=False)
        B.append(["loop", rng.choice(GC.counts + [2, 1]), out_items(rng, GC, sect, "loop", 1, rng.randrange(0, 2), ek) + [a_sub(rng, GC, ek)]])
        B += out_items(rng, GC, [], "top", 0, rng.randrange(0, 2), ek, subs=False)
    elif pos == "only_macro":
        for _ in range(rng.randrange(1, 4)):
            B.append(rng.choice(sect)(rng) if rng.random() < 0.7 else ["loop", rng.choice(GC.counts), [rng.choice(sect)(rng)]])
        if rng.random() < 0.4:
            B[rng.randrange(len(B) + 1):0] = a_section(rng, GC, ek)
    elif pos == "macro_only_stmt":
        B.append(sect[-1](rng))
    elif pos == "only_seq":
        B += a_section(rng, GC, ek) if rng.random() < 0.5 else []
        B.append(["seq", out_items(rng, GC, sect, "seq", 3, rng.randrange(0, 2), ek) + [a_sub(rng, GC, ek)]])
        B += out_items(rng, GC, [], "top", 0, rng.randrange(0, 2), ek, subs=False)
    elif pos in ("last", "first"):
        for _ in range(rng.randrange(0, 3)):
            B += a_section(rng, GC, ek) if rng.random() < 0.7 else [["loop", rng.choice(GC.counts), a_section(rng, GC, ek)]]
        B.insert(len(B) if pos == "last" else 0, a_sub(rng, GC, ek))
    elif pos == "loop_direct":
        B += out_items(rng, GC, sect, "top", 0, rng.randrange(0, 2), ek)
        B.append(["loops", rng.choice(GC.counts + [2]), rng.choice((None, 2, N["k"])), content(rng, GC, ek=ek)])
        B += out_items(rng, GC, sect, "top", 0, rng.randrange(0, 2), ek)
    elif pos == "deep":
        inner = [["seq", [a_sub(rng, GC, ek)] + (a_section(rng, GC) if rng.random() < 0.3 else [])]]
        for _ in range(rng.randrange(1, 4)):
            inner = [["loop", rng.choice((1, 2, 1, N["i"], N["k"])), inner]] if rng.random() < 0.7 else [["seq", inner]]
        B += inner
    elif pos == "macro_loop_macro":
        inner = sect[0]
        outer = section_macro("mo", lambda MC: [["loop", rng.choice(MC.counts), [inner(rng, MC)]]] + ([a_sub(rng, MC, ek)] if rng.random() < 0.4 else []))
        B.append(["loop", rng.choice(GC.counts + [2]), [outer(rng)]])
    elif pos == "unused_macro":
        un = section_macro("un", lambda MC: [a_sub(rng, MC, ek)])
        section_macro("un2", lambda MC: [["loop", 2, [un(rng, MC)]]])
        B += out_items(rng, GC, sect, "top", 0, rng.randrange(1, 4), ek)
    elif pos == "macro_par_then_sub":
        def shape(MC):
            a, b = pick2(rng, MC.q2)
            par = rng.choice((["par", [["g", "X", [a]], ["g", "X", [b]]]], ["loopp", 2, [["g", "X", [a]], ["g", "Z", [b]]]], ["par", []],
                              ["par", [["seq", [["g", "X", [a]]]], ["g", "X", [b]]]]))
            exp = [["P"], par] + content(rng, MC, rng.randrange(0, 2)) + [["M"]]
            sub = a_sub(rng, MC, ek)
            return rng.choice((exp + [sub], [sub] + exp, exp + [["loop", 2, [sub]]], [a_sub(rng, MC)] + exp + [sub]))
        mp = section_macro("mp", shape)
        B.append(mp(rng))
        B += out_items(rng, GC, [mp], "top", 0, rng.randrange(0, 3), ek)
    if sect and pos not in ("unused_macro", "macro_only_stmt") and not any(s[0] == "c" and s[1].startswith("m") for s in flat(B)) and rng.random() < 0.8:
        B.insert(rng.randrange(len(B) + 1), sect[-1](rng))
    place_empty(rng, p, GC, ek, wh)
    if not any(s[0] in ("sub", "loops") for s in walk_all(p)):
        B.append(a_sub(rng, GC, ek))
    called = {s[1] for s in walk_all(p) if s[0] == "c"}
    p["macros"] = [m for m in p["macros"] if m[0] not in nops or m[0] in called or rng.random() < 0.15]
    choose_overrides(rng, p, N, nq, sh)
    return p


def first_list(p, pred):
    for stmts, ctx, where in stmt_lists(p):
        for i, s in enumerate(stmts):
            if pred(s, ctx, where):
                return stmts, i, ctx, where
    return None


def place_empty(rng, p, GC, ek, wh):
    """put the empty construct `ek` at the position `wh` (visiting order: macros first, then the body)"""
    if not ek:
        return
    B = p["body"]
    MCs = {}

    def ctx_for(where, params):
        if where.startswith("macro"):
            return Ctx([(["n", x], x) for x in params[-2:]], [], [0, 1, 2, 3], [], GC.nops)
        return GC
    E = lambda w, C=GC: empty_stmt(rng, C, ek, w)
    macro_of = {}
    for m in p["macros"]:
        for stmts, ctx, where in stmt_lists({"macros": [m], "body": []}):
            macro_of[id(stmts)] = m
    def C_of(stmts):
        m = macro_of.get(id(stmts))
        return ctx_for("macro", m[1]) if m and len(m[1]) >= 1 else GC
    if wh == "top_last":
        B.append(E("out"))
    elif wh in ("sub_first", "sub_last", "macro_sub_last"):
        subs = [s for s in (walk_all(p) if wh != "macro_sub_last" else (x for m in p["macros"] for x in flat(m[2]))) if s[0] in ("sub", "loops")]
        if subs:
            s = subs[0] if rng.random() < 0.6 else rng.choice(subs)
            lst = children(s)
            lst.insert(0 if wh == "sub_first" else len(lst), empty_stmt(rng, C_of(lst), ek, "in"))
        else:
            B.insert(0, E("out"))
    elif wh == "exp_inside":
        hit = first_list(p, lambda s, ctx, where: s[0] == "P")
        if hit:
            hit[0].insert(hit[1] + 1, empty_stmt(rng, C_of(hit[0]), ek, "in"))
        else:
            B[0:0] = [["P"], E("in"), ["g", "X", [GC.q(rng)]], ["M"]]
    elif wh in ("macro_before", "macro_before_uncalled"):
        C1 = Ctx([(["n", "x"], "x")], [], [0, 1, 2, 3], [], GC.nops)
        body = [empty_stmt(rng, C1, ek, "out")] if rng.random() < 0.6 else [["P"], empty_stmt(rng, C1, ek, "in"), ["M"]]
        p["macros"].insert(2, ["e0", ["x"], body])
        if wh == "macro_before":
            B.insert(rng.choice((0, len(B))), ["c", "e0", [GC.q(rng)]])
    elif wh == "macro_body_first":
        ms = [m for m in p["macros"] if any(s[0] in ("sub", "P") for s in flat(m[2]))]
        if ms:
            ms[0][2].insert(0, empty_stmt(rng, ctx_for("macro", ms[0][1]), ek, "out"))
        else:
            B.insert(0, E("out"))
    elif wh == "loop_first":
        hit = first_list(p, lambda s, ctx, where: s[0] == "loop" and ctx != "in" and any(x[0] == "sub" for x in s[2]))
        if hit:
            hit[0][hit[1]][2].insert(0, empty_stmt(rng, C_of(hit[0]), ek, "out"))
        else:
            i = next((i for i, s in enumerate(B) if s[0] == "sub"), None)
            if i is None:
                B.insert(0, E("out"))
            else:
                B[i] = ["loop", rng.choice((1, 2)), [E("out"), B[i]]]
    elif wh == "between":
        idx = [i for i, s in enumerate(B) if s[0] in ("sub", "c", "loop", "loops", "seq")]
        B.insert(idx[1] if len(idx) > 1 else 0, E("out"))
    else:
        B.insert(0, E("out"))


def choose_overrides(rng, p, N, nq, sh):
    cand = {}
    shadowed = {x for m in p["macros"] for x in m[1]}
    for role, vals in (("k", (0, 1, 2, 3)), ("z", (0, 1, 2)), ("i", tuple(range(nq))), ("t", tuple(range(nq))), ("n", (nq, nq + 1))):
        if rng.random() < (0.9 if N[role] in shadowed else 0.4):
            cand[N[role]] = rng.choice(vals)
    tries = [cand] + [{k: v} for k, v in cand.items() if k in shadowed] + [{k: v} for k, v in cand.items()]
    for ov in tries:
        try:
            Ref(p, ov)
            p["ov"] = ov
            return
        except RefError:
            pass
    p["ov"] = {}


# ------------------------------------------------------------------------------------------------------------------
# mutants (for the families): the same names, nearly the same program
# ------------------------------------------------------------------------------------------------------------------
def mutate(p, mut, rng):
    p = json.loads(json.dumps(p))
    lists = stmt_lists(p)
    if mut == "swap_macros":
        ms = [m for m in p["macros"] if m[0].startswith("m")]
        pairs = [(a, b) for a in ms for b in ms if a is not b and a[1] == b[1]]
        if pairs:
            a, b = rng.choice(pairs)
            # bodies may call earlier macros only: swap only when neither calls the other's predecessors out of order
            a[2], b[2] = b[2], a[2]
    elif mut == "toggle_sub":
        hits = [(l, i) for l, ctx, w in lists for i, s in enumerate(l) if s[0] == "sub"]
        if hits:
            l, i = rng.choice(hits)
            l[i:i + 1] = [["P"]] + l[i][2] + [["M"]]
    elif mut == "toggle_exp":
        hits = [(l, i) for l, ctx, w in lists for i, s in enumerate(l) if s[0] == "P"]
        if hits:
            l, i = rng.choice(hits)
            j = next((j for j in range(i + 1, len(l)) if l[j][0] == "M"), None)
            if j is not None:
                l[i:j + 1] = [["sub", None, l[i + 1:j]]]
    elif mut == "insert_empty":
        l, ctx, w = rng.choice(lists)
        if ctx != "par":
            l.insert(rng.randrange(len(l) + 1), ["par", []])
    elif mut == "drop_stmt":
        hits = [(l, i) for l, ctx, w in lists for i, s in enumerate(l) if s[0] not in ("P", "M")]
        if hits:
            l, i = rng.choice(hits)
            del l[i]
    elif mut == "dup_stmt":
        hits = [(l, i) for l, ctx, w in lists for i, s in enumerate(l) if s[0] not in ("P", "M") and ctx != "par"]
        if hits:
            l, i = rng.choice(hits)
            l.insert(i, json.loads(json.dumps(l[i])))
    elif mut == "let_value":
        l = rng.choice(p["lets"])
        l[1] = rng.choice((0, 1, 2, 3))
    return p


def make_progs(spec):
    """the program of a case and its mutants; an invalid mutant (by the reference) is replaced by None"""
    rng = random.Random(f"c09combo/{spec['rs']}/{json.dumps(spec['knobs'], sort_keys=True)}")
    base = None
    for _ in range(30):
        try:
            cand = gen_prog(rng, spec["knobs"])
            Ref(cand)
            base = cand
            break
        except RefError:
            continue
    if base is None:
        return []
    out = [base]
    for k, mut in enumerate(spec.get("muts", [])):
        mrng = random.Random(f"c09combo/mut/{spec['rs']}/{k}/{mut}")
        try:
            m = mutate(base, mut, mrng)
            Ref(m)
            try:
                Ref(m, m["ov"])
            except RefError:
                m["ov"] = {}
            out.append(m)
        except RefError:
            out.append(None)
    return out


# ------------------------------------------------------------------------------------------------------------------
# one case
# ------------------------------------------------------------------------------------------------------------------
class Collector:
    def __init__(self):
        self.oracle = {o: {"cases": 0, "failures": []} for o in ORACLES}
        self.dist = {}

    def case(self, name, ok, case, detail):
        o = self.oracle[name]
        o["cases"] += 1
        if not ok and len(o["failures"]) < 20:
            o["failures"].append({"case": case, "detail": detail})
        elif not ok:
            self.count("failures_not_listed:" + name)

    def count(self, key, k=1):
        if k:
            self.dist[key] = self.dist.get(key, 0) + k


def make_outputs(R, kind, rng, nvis, nq):
    vals = [rng.randrange(2 ** nq) for _ in range(nvis)]
    for i in range(0, nvis, 5):
        vals[i] = rng.choice((0, 2 ** nq - 1, 2 ** (nq - 1)))
    bits = lambda v: "".join("1" if (v >> k) & 1 else "0" for k in range(nq))
    if kind == "str":
        return [bits(v) for v in vals], vals
    if kind == "np":
        return [R["np"].int64(v) for v in vals], vals
    return list(vals), vals


def build_one(R, p, path, style):
    if path == "sexpr":
        return R["build"](to_sexpr(p, style), inject_pulses=R["GI"])
    return R["parse"](to_text(p, style), inject_pulses=R["GI"], autoload_pulses=False)


def apply_route(R, route, c, ov):
    if route == "let":
        return R["fill"](c)
    if route == "let_ov":
        return R["fill"](c, dict(ov))
    if route == "macros":
        return R["macros"](c)
    if route == "macros_keep":
        return R["macros"](c, preserve_definitions=True)
    if route == "let_ov_macros":
        return R["macros"](R["fill"](c, dict(ov)))
    if route == "macros_let_ov":
        return R["fill"](R["macros"](c), dict(ov))
    if route == "subs":
        return R["expand"](c)
    return c


def call_run(R, variant, circ, seed):
    """-> (result, received circuit or None)"""
    R["np"].random.seed(seed)
    if variant == "backend":
        return R["run"](circ, backend=R["USE"]()), None
    if variant == "shared":
        return R["run"](circ, backend=R["shared"]), None
    if variant == "recording":
        b = R["Rec"]()
        r = R["run"](circ, backend=b)
        return r, b.received
    return R["run"](circ), None


def summarize(R, r, kind):
    np = R["np"]
    out = {"nsub": len(r.subcircuits),
           "visits": [x.subcircuit.index for x in r.readouts],
           "values": [int(x.as_int) for x in r.readouts],
           "strs": [x.as_str for x in r.readouts],
           "idx": [x.index for x in r.readouts],
           "own": [[x.index for x in s.readouts] for s in r.subcircuits]}
    if kind == "run":
        out["probs"] = [np.asarray(s.probability_by_int) for s in r.subcircuits]
    else:
        out["freq"] = [np.asarray(s.relative_frequency_by_int) for s in r.subcircuits]
    return out


def same_summary(R, a, b):
    np = R["np"]
    for k in a:
        x, y = a[k], b[k]
        if k in ("probs", "freq"):
            if len(x) != len(y) or not all(u.shape == v.shape and np.array_equal(u, v) for u, v in zip(x, y)):
                i = next((i for i, (u, v) in enumerate(zip(x, y)) if u.shape != v.shape or not np.array_equal(u, v)), None)
                return f"{k} differ (first at subcircuit {i}; {len(x)} vs {len(y)} subcircuits)"
        elif x != y:
            return f"{k}: {str(x)[:120]} != {str(y)[:120]}"
    return None


def ref_run(ref, ss):
    msgs = []
    if ss["nsub"] != len(ref.outcomes):
        msgs.append(f"{ss['nsub']} subcircuits, reference {len(ref.outcomes)}")
    elif ss["visits"] != ref.visits:
        msgs.append(f"visit sequence {str(ss['visits'])[:80]} != reference {str(ref.visits)[:80]}")
    else:
        for i, sidx in enumerate(ss["visits"]):
            o = ref.outcomes[sidx]
            if o is not None and ss["values"][i] != o:
                msgs.append(f"readout {i} of subcircuit {sidx} is {ss['values'][i]}, the only possible outcome is {o}")
                break
        for sidx, o in enumerate(ref.outcomes):
            if o is not None and abs(float(ss["probs"][sidx][o]) - 1.0) > 1e-9:
                msgs.append(f"subcircuit {sidx}: probability of the only possible outcome {o} is {ss['probs'][sidx][o]}")
                break
    return msgs


def ref_out(ref, ss, vals):
    msgs = []
    if ss["nsub"] != len(ref.outcomes):
        msgs.append(f"{ss['nsub']} subcircuits, reference {len(ref.outcomes)}")
    elif ss["visits"] != ref.visits:
        msgs.append(f"attribution {str(ss['visits'])[:80]} != reference {str(ref.visits)[:80]}")
    elif ss["values"] != vals:
        msgs.append(f"values {str(ss['values'])[:80]} != the outputs given {str(vals)[:80]}")
    return msgs


def attempt(fn):
    """-> ("ok", value) | (name of the exception class, message); only a time-out propagates"""
    try:
        return "ok", fn()
    except Hang:
        raise
    except Exception as e:
        import traceback
        tb = traceback.extract_tb(e.__traceback__)
        where = next((f"{os.path.basename(f.filename)}:{f.lineno}" for f in reversed(tb) if "jaqalpaq" in f.filename), "")
        return type(e).__name__, f"{str(e)[:200]} [{where}]"


def expand_call(R, variant, c):
    """-> (result, expected prepare name, expected measure name, (check first, check last))"""
    GD = R["GateDefinition"]
    ng = c.native_gates
    native = lambda name: (lambda st: None if st.gate_def is ng[name] else f"the definition of the inserted {name} is not the circuit's native one")
    both = (native("prepare_all"), native("measure_all"))
    if variant == "none_none":
        return R["expand"](c, None, None), "prepare_all", "measure_all", both
    if variant == "str_native":
        return R["expand"](c, "prepare_all", measure_def="measure_all"), "prepare_all", "measure_all", both
    if variant == "obj_native":
        return R["expand"](c, ng["prepare_all"], ng["measure_all"]), "prepare_all", "measure_all", both
    own = lambda d: (lambda st: None if st.gate_def is d else f"the definition of the inserted {d.name} is not the caller's object")
    if variant == "obj_other":
        a, b = GD("my.prepare", []), GD("measure_all", [])
        return R["expand"](c, a, b), "my.prepare", "measure_all", (own(a), own(b))
    if variant == "str_other":
        isdef = lambda name: (lambda st: None if isinstance(st.gate_def, GD) and st.gate_def.name == name else f"inserted {name}: unexpected definition {st.gate_def!r}")
        return R["expand"](c, "prep.are", measure_def="__measure__"), "prep.are", "__measure__", (isdef("prep.are"), isdef("__measure__"))
    if variant == "prepare_only":
        a = GD("prepare_all", [])
        return R["expand"](c, prepare_def=a), "prepare_all", "measure_all", (own(a), native("measure_all"))
    return R["expand"](c), "prepare_all", "measure_all", both


def features(p):
    """what the program contains, for the distribution"""
    f = set()
    order = list(walk_all(p))      # visiting order of the expansion: macros first, then the body
    seen_empty_par = False
    for s in order:
        k = s[0]
        if k in ("par", "loopp") and not s[-1]:
            seen_empty_par = True
            f.add("empty_parallel_block")
        if k == "seq" and not s[1]:
            f.add("empty_sequential_block")
        if k == "loop" and not s[2]:
            f.add("empty_loop")
        if k == "loopp":
            f.add("loop_over_parallel_block")
        if k == "loop" and len(s[2]) == 1 and s[2][0][0] == "par":
            f.add("loop_holding_parallel_block")
        if k == "loops":
            f.add("loop_over_subcircuit_block")
        if k in ("sub", "loops"):
            body = s[-1]
            if not body:
                f.add("empty_subcircuit")
            if seen_empty_par:
                f.add("subcircuit_after_empty_parallel_block")
            if body and body[-1][0] != "g":
                f.add("subcircuit_ends_with_" + body[-1][0])
            if body and body[0][0] != "g":
                f.add("subcircuit_begins_with_" + body[0][0])
            cnt = s[1] if k == "sub" else s[2]
            if isinstance(cnt, str):
                f.add("subcircuit_count_by_name")
    B = p["body"]
    if B:
        f.add("body_last:" + B[-1][0])
        f.add("body_first:" + B[0][0])
        if len(B) == 1:
            f.add("body_single:" + B[0][0])
    if not any(s[0] in ("sub", "loops") for s in B):
        f.add("no_subcircuit_at_top_level")
    if not any(s[0] in ("sub", "loops") for s in flat(B)):
        f.add("subcircuits_only_in_macros")
    glob = {l[0] for l in p["lets"]} | {m[0] for m in p["maps"]} | {p["reg"]}
    for m in p["macros"]:
        sh = set(m[1]) & glob
        if sh and any(s[0] in ("sub", "loops") for s in flat(m[2])):
            f.add("parameter_shadows_global_in_macro_with_subcircuit")
            if set(p["ov"]) & sh:
                f.add("override_of_a_shadowed_name")
        if m[2] and m[2][-1][0] == "sub":
            f.add("macro_body_ends_with_subcircuit")
        if any(x in ("prepare_all", "measure_all") for x in m[1]):
            f.add("parameter_named_like_bounding_gate")
    if any(x in ("prepare_all", "measure_all") for x in glob):
        f.add("global_named_like_bounding_gate")
    called = {s[1] for s in order if s[0] == "c"}
    if any(m[0] not in called and any(s[0] == "sub" for s in flat(m[2])) for m in p["macros"]):
        f.add("uncalled_macro_with_subcircuit")
    return f


def visit(R, spec, p, tag, objs, col, judge, rng):
    """all observations of one program (both spellings); objs = circuits to re-use (a dict that is filled) or None"""
    v = spec["variant"]
    route = v["route"]
    ov = p["ov"] if "ov" in route else {}
    ref = Ref(p, ov)
    path = "sexpr" if needs_sexpr(p) else v["path"]
    col.count("path:" + path)
    # --- construction -----------------------------------------------------------------------------------------------
    if objs is not None and "ce" in objs:
        ce, cs = objs["ce"], objs["cs"]
        col.count("visit_on_the_same_objects")
    else:
        ke, ce = attempt(lambda: build_one(R, p, path, "exp"))
        if ke != "ok":
            col.count("explicit_spelling_refused:build")
            if os.environ.get("C09_COMBO_DEBUG"):
                print("BUILD REFUSED", tag, ce, "\n" + to_text(p, "exp"))
            return
        ks, cs = attempt(lambda: build_one(R, p, path, "sub"))
        judge("combo_accepted", ks == "ok", f"{tag}building the program ({path}) with subcircuit blocks raises {ks}: {str(cs)[:200]} - the explicit spelling is accepted")
        if ks != "ok":
            return
        if objs is not None:
            objs.update(ce=ce, cs=cs)
    # --- the route: other passes first -------------------------------------------------------------------------------
    ke, xe = attempt(lambda: apply_route(R, route, ce, ov))
    if ke != "ok":
        col.count("explicit_spelling_refused:route:" + route)
        if os.environ.get("C09_COMBO_DEBUG"):
            print("ROUTE REFUSED", route, ov, xe, "\n" + to_text(p, "exp"))
        return
    ks, xs = attempt(lambda: apply_route(R, route, cs, ov))
    if ks != "ok":
        if route == "subs":
            judge("combo_expand_shape", False, f"{tag}expand_subcircuits raises {ks}: {xs}")
        else:
            col.count("route_refused_for_subcircuit_spelling_only(not C09):" + route)
        return
    dxs, dxe = d_circuit(R, xs), d_circuit(R, xe)
    neutral = first_diff(flat_circuit(t_circuit(dxs, "prepare_all", "measure_all")), flat_circuit(dxe)) is None
    if not neutral:
        if route == "subs":
            judge("combo_expand_shape", False, f"{tag}expand_subcircuits(program with subcircuit blocks) is not the explicit spelling: " + str(first_diff(flat_circuit(dxs), flat_circuit(dxe))))
        elif route == "none":
            judge("combo_accepted", False, f"{tag}the two spellings are built as different programs: " + str(first_diff(flat_circuit(t_circuit(dxs, "prepare_all", "measure_all")), flat_circuit(dxe))))
        else:
            col.count("route_not_spelling_neutral(not C09):" + route)
    # --- expand_subcircuits on the routed circuit ------------------------------------------------------------------------
    evs = [v["expand"]]
    if spec["rs"] % 3 == 0 or (objs is not None and len(objs) > 2):
        evs.append("default" if v["expand"] in ("obj_other", "str_other", "prepare_only") else "obj_other")
    if objs is not None:
        objs["seen"] = True
    for ev in evs:
        kind, got = attempt(lambda: expand_call(R, ev, xs))
        if kind != "ok":
            judge("combo_expand_shape", False, f"{tag}expand_subcircuits [{ev}] after route {route} raises {kind}: {got}")
        else:
            e, pname, mname, (chk_p, chk_m) = got
            want = t_circuit(dxs, pname, mname)
            have = d_circuit(R, e)
            diff = first_diff(want, have)
            judge("combo_expand_shape", diff is None, f"{tag}expand_subcircuits [{ev}] after route {route}: expected vs result: {diff}")
            if path == "sexpr" and route == "none" and pname == "prepare_all" and mname == "measure_all":
                blk = d_circuit(R, R["build"](to_sexpr(p, "block"), inject_pulses=R["GI"]))
                diff = first_diff(blk, have)
                judge("combo_expand_shape", diff is None, f"{tag}expand_subcircuits [{ev}] vs the program built with [prepare_all, B, measure_all] blocks: {diff}")
            left = subcircuits_left(R, e)
            judge("combo_no_subcircuit_left", not left, f"{tag}expand_subcircuits [{ev}] after route {route} leaves {len(left)} subcircuit block(s), e.g. at {left[0] if left else None}")
            msgs = []
            nfound = 0
            for first, last in bounding_statements(R, xs, e):
                nfound += 1
                if not isinstance(first, R["GateStatement"]) or not isinstance(last, R["GateStatement"]) or first.name != pname or last.name != mname \
                        or first.parameters or last.parameters:
                    msgs.append(f"a subcircuit block became a block that begins with {first!r} and ends with {last!r}")
                    continue
                for chk, st in ((chk_p, first), (chk_m, last)):
                    m = chk(st) if chk else None
                    if m:
                        msgs.append(m)
            nsubs = count_subs(R, xs)
            if nfound < nsubs:
                msgs.append(f"only {nfound} blocks of the result stand for the {nsubs} subcircuit blocks of the input")
            judge("combo_bounding_gates", not msgs, f"{tag}expand_subcircuits [{ev}] after route {route}: " + "; ".join(msgs[:3]))
    if not neutral:
        return
    # --- execution ------------------------------------------------------------------------------------------------------
    rv = v["run"]
    seed = spec["rs"] % 2 ** 31
    ke, ge = attempt(lambda: call_run(R, rv, xe, seed))
    ks, gs = attempt(lambda: call_run(R, rv, xs, seed))
    if ke != "ok":
        col.count("explicit_spelling_refused:run:" + ke)
        if ks == "ok":
            judge("combo_run_like_explicit", False, f"{tag}run [{rv}] after route {route}: explicit spelling refused ({ge[:100]}), subcircuit spelling accepted")
    elif ks != "ok":
        judge("combo_run_like_explicit", False, f"{tag}run [{rv}] after route {route}: the subcircuit spelling raises {ks}: {gs} - the explicit spelling runs")
    else:
        se, ss = summarize(R, ge[0], "run"), summarize(R, gs[0], "run")
        d = same_summary(R, se, ss)
        judge("combo_run_like_explicit", d is None, f"{tag}run [{rv}] after route {route}: explicit vs subcircuit spelling: {d}")
        if gs[1] is not None and ge[1] is not None:
            left = subcircuits_left(R, gs[1])
            d = first_diff(flat_dump(d_stmt(R, ge[1].body)), flat_dump(d_stmt(R, gs[1].body)))
            judge("combo_run_like_explicit", not left and d is None, f"{tag}run [{rv}]: the backend is handed a different program for the subcircuit spelling: {left[0] if left else d}")
        msgs, msgs_e = ref_run(ref, ss), ref_run(ref, se)
        if msgs and msgs_e:
            col.count("reference_differs_from_both_spellings:run")
        else:
            judge("combo_run_like_explicit", not msgs, f"{tag}run [{rv}] after route {route} of the subcircuit spelling vs reference: " + "; ".join(msgs))
    # --- output parsing -------------------------------------------------------------------------------------------------
    outs, vals = make_outputs(R, v["outs"], rng, len(ref.visits), ref.nq)
    ke, ge = attempt(lambda: R["outlist"](xe, outs))
    ks, gs = attempt(lambda: R["outlist"](xs, outs))
    if ke != "ok":
        col.count("explicit_spelling_refused:output:" + ke)
        if ks == "ok":
            judge("combo_output_like_explicit", False, f"{tag}parse_jaqal_output_list after route {route}: explicit spelling refused ({ge[:100]}), subcircuit spelling accepted")
    elif ks != "ok":
        judge("combo_output_like_explicit", False, f"{tag}parse_jaqal_output_list [{v['outs']}] after route {route}: the subcircuit spelling raises {ks}: {gs} - the explicit spelling is parsed")
    else:
        se, ss = summarize(R, ge, "out"), summarize(R, gs, "out")
        d = same_summary(R, se, ss)
        judge("combo_output_like_explicit", d is None, f"{tag}parse_jaqal_output_list [{v['outs']}] after route {route}: explicit vs subcircuit spelling: {d}")
        msgs, msgs_e = ref_out(ref, ss, vals), ref_out(ref, se, vals)
        if msgs and msgs_e:
            col.count("reference_differs_from_both_spellings:output")
        else:
            judge("combo_output_like_explicit", not msgs, f"{tag}parse_jaqal_output_list [{v['outs']}] after route {route} of the subcircuit spelling vs reference: " + "; ".join(msgs))
    col.count("sections", len(ref.outcomes))
    col.count("readouts", len(ref.visits))
    col.count("zero_visits", len(ref.visits) == 0)
    col.count("nonzero_outcomes", sum(bool(o) for o in ref.outcomes))
    col.count("visits_judged")


def provoke(R, kind, p, col):
    """a call that the library REFUSES (or that does nothing), made between two visits: whatever it leaves behind must not
    change what follows.  Its own outcome is not judged (only a hang propagates)."""
    path = "sexpr" if needs_sexpr(p) else "text"
    if kind == "expand_named_macro":       # refused before anything is visited
        k, r = attempt(lambda: R["expand"](build_one(R, p, path, "sub"), p["macros"][-1][0] if p["macros"] else "prepare_all"))
    elif kind == "run_gate_outside":       # refused half-way through the walk
        q = dict(p, body=p["body"] + [["g", "X", [["r", p["reg"], 0]]]])
        k, r = attempt(lambda: R["run"](build_one(R, q, path, "sub")))
    elif kind == "output_too_few":
        k, r = attempt(lambda: R["outlist"](build_one(R, p, path, "sub"), []))
    elif kind == "output_too_many":
        k, r = attempt(lambda: R["outlist"](build_one(R, p, path, "sub"), [0] * (MAX_VISITS + 50)))
    elif kind == "expand_nested_illegal":  # a subcircuit block inside a parallel block, made behind the builder's back
        def make():
            c = build_one(R, p, path, "sub")
            BS = R["BlockStatement"]
            c.body.statements.append(BS(parallel=True, statements=[BS(subcircuit=True, statements=[])]))
            return R["expand"](c)
        k, r = attempt(make)
    else:                                    # expand twice, drop the results
        k, r = attempt(lambda: [R["expand"](build_one(R, p, path, "sub")) for _ in range(2)])
    col.count(f"provocation:{kind}:{'returns' if k == 'ok' else k}")


PROVOCATIONS = ("expand_named_macro", "run_gate_outside", "output_too_few", "output_too_many", "expand_nested_illegal", "expand_twice")


def run_case(R, spec, col, record=True):
    """evaluate every oracle on one case (a program, or a family visited in order); returns the (oracle, detail) failures"""
    fails = []
    case = dict(spec)
    count_col = col if record else Collector()

    def judge(name, ok, detail=""):
        if record:
            col.case(name, ok, case, detail)
        if not ok:
            fails.append((name, detail))

    progs = make_progs(spec)
    if not progs:
        count_col.count("skipped:no_valid_program")
        return fails
    texts = [None if p is None else to_text(p, "sub") for p in progs]
    case["text"] = texts[0][:1500]
    if len(progs) > 1:
        case["mutant_texts"] = [t and t[:1500] for t in texts[1:]]
    case["overrides"] = progs[0]["ov"]
    T = R["T"]
    rng = random.Random(f"c09combo/outs/{spec['rs']}")
    objs = {}
    signal.signal(signal.SIGALRM, _alarm)
    signal.alarm(int(T.limit(2)))
    try:
        for step, pi in enumerate(spec["visits"]):
            p = progs[pi] if pi < len(progs) else None
            if p is None:
                count_col.count("skipped:invalid_mutant")
                continue
            if spec.get("provoke") and step:
                provoke(R, spec["provoke"][step % len(spec["provoke"])], progs[0], count_col)
            tag = "" if len(spec["visits"]) == 1 else f"[visit {step}: program {pi}{'' if pi == 0 else ' = mutant ' + spec['muts'][pi - 1]}] "
            visit(R, spec, p, tag, objs.setdefault(pi, {}) if spec["reuse"] else None, count_col, judge, rng)
            if not spec["reuse"]:
                gc.collect() if step % 2 else None
        judge("combo_terminates", True)
    except Hang:
        T.saw_hang()
        judge("combo_terminates", False, "no result within the time limit")
    except RecursionError:
        judge("combo_accepted", False, "RecursionError")
    except RefError as e:
        count_col.count("skipped_by_reference:" + str(e)[:30])
    except Exception as e:  # anything that escapes here is not a documented refusal
        import traceback
        tb = traceback.extract_tb(e.__traceback__)
        where = next((f"{os.path.basename(f.filename)}:{f.lineno}" for f in reversed(tb) if "jaqalpaq" in f.filename), f"{os.path.basename(tb[-1].filename)}:{tb[-1].lineno}")
        judge("combo_accepted", False, f"{type(e).__name__}: {str(e)[:200]} {where}")
    finally:
        signal.alarm(0)
    if record:
        for k in ("shadow", "empty", "where", "pos"):
            col.count(f"{k}:{spec['knobs'][k]}")
        v = spec["variant"]
        for k in ("route", "expand", "run", "outs"):
            col.count(f"{k}:{v[k]}")
        col.count("family_length:%d" % len(spec["visits"]))
        for m in spec["muts"]:
            col.count("mutant:" + m)
        col.count("overrides:%d" % len(progs[0]["ov"]))
        for f in sorted(features(progs[0])):
            col.count("has:" + f)
    return fails


def specs(seed, n, thorough):
    """the knobs are cycled with co-prime strides (every value of every knob evenly often, all pairs over a few hundred
    cases), the rest is random"""
    rng = random.Random(f"c09combo/{seed}/{thorough}")
    k0 = rng.randrange(10000)
    out = []
    for i in range(n):
        k = k0 + i
        knobs = {"shadow": SHADOWS[k % len(SHADOWS)], "empty": EMPTIES[(k * 5 + k // 10) % len(EMPTIES)],
                 "where": WHERES[(k * 3 + k // 120) % len(WHERES)], "pos": POSES[(k * 7 + k // 13) % len(POSES)]}
        variant = {"path": "sexpr" if k % 4 == 0 else "text", "route": ROUTES[(k * 3 + k // 17) % len(ROUTES)],
                   "expand": EXPAND_VARIANTS[(k * 2 + k // 7) % len(EXPAND_VARIANTS)], "run": RUN_VARIANTS[(k + k // 5) % len(RUN_VARIANTS)],
                   "outs": OUT_KINDS[(k + k // 4) % len(OUT_KINDS)]}
        muts, visits, reuse, provoke_ = [], [0], False, []
        if i % 4 == 3:
            muts = [MUTS[(k // 4 + j * 3) % len(MUTS)] for j in range(rng.randrange(1, 4))]
            visits = [0] + [rng.randrange(len(muts) + 1) for _ in range(rng.randrange(2, 5))]
            reuse = rng.random() < 0.5
            if rng.random() < 0.5:
                provoke_ = [rng.choice(PROVOCATIONS) for _ in range(2)]
        out.append({"rs": rng.randrange(2 ** 40), "knobs": knobs, "variant": variant, "muts": muts, "visits": visits, "reuse": reuse, "provoke": provoke_})
    return out


def run(seed, n, driver=DEFAULT_DRIVER, thorough=False):
    R = _load()
    col = Collector()
    samples = []
    distinct = set()
    for spec in specs(seed, n, thorough):
        run_case(R, spec, col)
        progs = make_progs(spec) if len(samples) < 6 else None
        distinct.add(json.dumps(spec, sort_keys=True))
        if progs and len(samples) < 6:
            samples.append(dict(spec, text=to_text(progs[0], "sub")[:1200], overrides=progs[0]["ov"]))
    return {"corr": {}, "oracle": col.oracle, "distribution": dict(sorted(col.dist.items())), "samples": samples, "nontrivial": len(distinct)}


def replay(case, driver=DEFAULT_DRIVER):
    R = _load()
    spec = {k: case[k] for k in ("rs", "knobs", "variant", "muts", "visits", "reuse")}
    spec["provoke"] = case.get("provoke", [])
    fails = run_case(R, spec, Collector(), record=False)
    if fails:
        return {"oracle_ok": False, "detail": "; ".join(f"{o}: {d}" for o, d in fails[:4]), "model": None, "impl": None}
    return {"oracle_ok": True, "detail": "all oracles hold on this case", "model": None, "impl": None}


def main():
    ap = argparse.ArgumentParser()
    ap.add_argument("--seed", type=int, default=0)
    ap.add_argument("--n", type=int, default=600)
    ap.add_argument("--thorough", action="store_true")
    a = ap.parse_args()
    r = run(a.seed, a.n, thorough=a.thorough)
    print(json.dumps({"oracle": {k: (v["cases"], len(v["failures"])) for k, v in r["oracle"].items()}, "distribution": r["distribution"],
                      "nontrivial": r["nontrivial"]}, indent=1, default=str))
    for k, v in r["oracle"].items():
        for f in v["failures"][:3]:
            print("FAIL", k, f["detail"], json.dumps({x: f["case"][x] for x in ("rs", "knobs", "variant", "muts", "visits", "reuse")}))
            print(f["case"].get("text"))
    return 1 if any(v["failures"] for v in r["oracle"].values()) else 0


if __name__ == "__main__":
    sys.exit(main())
