#!/venv/bin/python
"""C03 - TRAPS: the emulator state is the ordered product of the gate matrices on |0..0>.

The other C03 streams (emu_diff, walk_diff, c03_gatesets, c03_edge, c03_scale, c03_combo) give every gate a unitary
that returns a freshly made C-contiguous complex128 array, define every GateDefinition with the constructor, and treat
a run as one call on objects made for it.  This stream covers six dimensions they leave out; a case is a SESSION (a
JSON list of steps executed one after the other in this process) over gate TABLES, CIRCUITS and RUNS:

  traps_numeric_form   FORM instead of value.  What `ideal_unitary` returns: C order, Fortran order, a transposed view,
                       negatively strided views, a strided / offset window of a larger array, numpy.matrix, an ndarray
                       subclass, read-only, the SAME array object on every call (cached), dtypes complex64 / float64 /
                       float32 / int64 / int8 for real and signed-permutation matrices - for generic NON-symmetric 1-,
                       2-, 3-qubit matrices (and symmetric ones) on ordered qubit tuples in every orientation.  How a
                       classical argument is written: int / integral float / numpy.float64 / bool / numpy.int64 / a let.
  traps_derived        DERIVED definitions: `GateDefinition.copy(name=, parameters=, ideal_unitary=)` of a definition
                       that was / was not emulated before, copies of copies, copies that reorder parameters,
                       `stretched_gates` (suffix / in place) of plain and of idle gates, `add_idle_gates` of stretched
                       gates, copy.copy / copy.deepcopy of definitions - the parents run again AFTER their children.
  traps_language       Python traps: empty blocks / macros / loops (falsy `__len__`), every string made at run time
                       (never interned), names that are substrings / prefixes of each other (q q0 qq, a ab abc, G GG G1),
                       lets / aliases / macros / table entries declared in shuffled or descending order, classical and
                       qubit parameters interleaved, the SAME Python object (tuple, list, block builder) standing at
                       two places of one program, tuples and lists mixed in S-expressions.
  traps_exception      a call that RAISES half-way (a gate whose ideal_unitary raises TypeError / ZeroDivisionError /
                       JaqalError / a BaseException, returns None or a matrix of the wrong shape, after 0 .. 6 gates of
                       the first or a later subcircuit; an override that puts an index out of range in fill_in_let; a
                       text that does not parse; a builder whose build() raises and is then corrected; a program with
                       two defects) followed by VALID runs on the same backend object / table / circuit / builder.
  traps_reentrant      results fed back: pass output (expand_subcircuits, fill_in_let, expand_macros [preserve]) into
                       other passes in any order, into `build` again (whole, as pieces, with the statement OBJECTS of one
                       subcircuit placed twice or wrapped in a loop), copy / deepcopy of a circuit, a CircuitBuilder
                       fed with `circuit.native_gates` and core objects of another circuit, run - transform - run again.
  traps_access_order   the views of one result read in every order (probability_by_str before by_int, state vector
                       last, subcircuits backwards, twice), results of EARLIER runs read again at the end of the session.

All oracles state the same equation, on the real code alone (`corr` is empty): for every subcircuit of a judged run,
`state_vector` == U_k ... U_1 e0 (1e-9) and `simulated_probability_by_int` == |amplitude|^2 (1e-9), U_j being the matrix
THE GATE'S OWN DEFINITION returns at the resolved classical arguments (read entry by entry, `m[r, c]`), bit j of its
index = the j-th qubit argument, bit i of the state index = register qubit i; as many subcircuits as written; idle gates
and gates without a unitary are skipped.  The REFERENCE is this script's own interpreter (alias resolution, macro
binding by name, loop unrolling) and its own model of what copy / stretched_gates / add_idle_gates document.  A judged
run that raises or hangs is a failure.  The failing steps of a session are executed and never judged.

Deliberately NOT demanded: anything about the failing calls themselves; probability_by_str (read, never judged: the
string convention belongs to the result properties); nested lists instead of arrays (the documentation says "numpy 2D
array"); numpy.int64 arguments (a JaqalError at build time is accepted, as in c03_scale; if accepted the state must be
right); what a circuit means when its statements are rebuilt against ANOTHER table; pickling.

    PYTHONPATH=/verif /venv/bin/python -m harness.agents.c03_traps [--seed S] [--count N] [--thorough]
    recommended: quick n=600 (about 670 sessions, 2500 judged reads, 10 - 13 s), thorough n=6000 (about 6300 sessions, 75 - 85 s).
"""
import argparse
import copy as pycopy
import json
import os
import random
import signal
import sys
import warnings

import numpy as np

try:
    from harness import timeouts as T
except ImportError:  # run as a plain script
    sys.path.insert(0, os.path.dirname(os.path.dirname(os.path.dirname(os.path.abspath(__file__)))))
    from harness import timeouts as T

DEFAULT_DRIVER = "/verif/lean/.lake/build/bin/jaqal-model"
TOL = 1e-9
THEMES = ("numeric_form", "derived", "language", "exception", "reentrant", "access_order")
ORACLES = tuple("traps_" + t for t in THEMES)
PREP, MEAS = "prepare_all", "measure_all"

_L = {}


def _lib():
    if not _L:
        os.environ["JAQALPAQ_RUN_EMULATOR"] = "1"
        from jaqalpaq.core import GateDefinition, Parameter, ParamType
        from jaqalpaq.core.gatedef import BusyGateDefinition, add_idle_gates
        from jaqalpaq.core.stretch import stretched_gates
        from jaqalpaq.core.circuitbuilder import build, CircuitBuilder, SequentialBlockBuilder, ParallelBlockBuilder
        from jaqalpaq.core.block import BlockStatement
        from jaqalpaq.core.gate import GateStatement
        from jaqalpaq.core.algorithm import expand_macros, fill_in_let, expand_subcircuits
        from jaqalpaq.parser import parse_jaqal_string
        from jaqalpaq.emulator import run_jaqal_circuit, UnitarySerializedEmulator
        from jaqalpaq.error import JaqalError

        _L.update(locals())
    return _L


class Invalid(Exception):
    pass


class Hang(Exception):
    pass


class Interrupt(BaseException):
    """what a faulty unitary of mode "interrupt" raises (stands for KeyboardInterrupt)"""


def _alarm(*_a):
    raise Hang()


# ------------------------------------------------------------------ unitaries: reference value and memory form
LAYOUTS = ("C", "F", "T", "NEG", "NEGR", "STRIDE", "OFF", "FOFF", "MAT", "RO", "SUB", "FRO")
# complex64 / float32 only for matrices whose entries are exact in them (0, +-1): a rounded matrix is not unitary to 1e-9
DTYPES = {"gen": ("c128",), "sym": ("c128",), "real": ("c128", "f64", "f64"),
          "perm": ("c128", "f64", "i64", "i8", "f32", "i64", "c64")}
_NPDT = {"c128": np.complex128, "c64": np.complex64, "f64": np.float64, "f32": np.float32, "i64": np.int64, "i8": np.int8}
_W = (1.0, 0.61, 0.37, 0.23)
_BASE = {}


class _Sub(np.ndarray):
    pass


def _ortho(rs, d, cplx):
    a = rs.randn(d, d) + (1j * rs.randn(d, d) if cplx else 0)
    q, r = np.linalg.qr(a)
    return q * (np.diag(r) / np.abs(np.diag(r)))


def _base(kind, nq, seed):
    key = (kind, nq, seed)
    if key not in _BASE:
        rs = np.random.RandomState((1000003 * seed + 17 * nq + len(kind)) % (2 ** 32 - 1))
        d = 1 << nq
        if kind in ("gen", "sym"):
            v = _ortho(rs, d, True)
            w = v.T.copy() if kind == "sym" else _ortho(rs, d, True)
            _BASE[key] = (v, w, 0.5 + 0.75 * np.arange(d))
        elif kind == "real":
            _BASE[key] = (_ortho(rs, d, False), _ortho(rs, d, False), None)
        else:
            p = rs.permutation(d)
            if d > 1 and all(p[p[i]] == i for i in range(d)):  # an involution is symmetric: rotate it
                p = np.roll(p, 1)
            m = np.zeros((d, d), dtype=np.int64)
            for i in range(d):
                m[p[i], i] = 1 if rs.rand() < 0.6 else -1
            _BASE[key] = (m, None, None)
    return _BASE[key]


def ref_matrix(u, cargs):
    """the complex128 matrix (C order, own copy) the gate with unitary spec `u` has at the classical arguments"""
    kind, nq, seed = u["k"], u["nq"], u["seed"]
    s = sum(_W[i % 4] * float(c) for i, c in enumerate(cargs))
    a, b, coef = _base(kind, nq, seed)
    if kind in ("gen", "sym"):
        m = (a * np.exp(1j * s * coef)) @ b
    elif kind == "real":
        g = np.eye(1 << nq)
        g[0, 0] = g[1, 1] = np.cos(s)
        g[0, 1] = -np.sin(s)
        g[1, 0] = np.sin(s)
        m = a @ g @ b
    else:
        m = np.roll(a, int(round(s)) % (1 << nq), axis=0)
    m = np.array(m).astype(_NPDT[u.get("dt", "c128")])
    return np.array(m, dtype=np.complex128, order="C")


def lay_out(m, lay):
    """the same matrix values in another memory form"""
    d = m.shape[0]
    if lay == "C":
        return np.array(m, order="C")
    if lay == "F":
        return np.asfortranarray(m)
    if lay == "T":
        return np.ascontiguousarray(m.T).T
    if lay == "NEG":
        return np.ascontiguousarray(m[::-1, ::-1])[::-1, ::-1]
    if lay == "NEGR":
        return np.ascontiguousarray(m[::-1])[::-1]
    if lay == "STRIDE":
        big = np.full((2 * d, 3 * d), 7, dtype=m.dtype)
        big[::2, 1::3] = m
        return big[::2, 1::3]
    if lay == "OFF":
        big = np.full((d + 3, d + 2), 5, dtype=m.dtype)
        big[1:1 + d, 2:2 + d] = m
        return big[1:1 + d, 2:2 + d]
    if lay == "FOFF":
        big = np.full((d + 2, d + 3), 3, dtype=m.dtype, order="F")
        big[2:2 + d, 1:1 + d] = m
        return big[2:2 + d, 1:1 + d]
    if lay == "MAT":
        return np.matrix(m)
    if lay == "RO":
        r = np.array(m, order="C")
        r.flags.writeable = False
        return r
    if lay == "FRO":
        r = np.asfortranarray(m)
        r.flags.writeable = False
        return r
    if lay == "SUB":
        return np.asfortranarray(m).view(_Sub)
    raise ValueError(lay)


def make_ufun(u):
    """the function handed to GateDefinition(ideal_unitary=...)"""
    if u is None:
        return None
    if "bad" in u:
        mode, nq = u["bad"], u.get("nq", 1)

        def bad(*args):
            if mode == "arity":
                return (lambda: None)(*args, 0)  # TypeError
            if mode == "zerodiv":
                return 1 // 0
            if mode == "jaqal":
                raise _lib()["JaqalError"]("no unitary today")
            if mode == "interrupt":
                raise Interrupt()
            if mode == "none":
                return None
            if mode == "shape":
                return np.eye(1 << (nq + 1), dtype=complex)[: 1 << nq, :1]  # too few columns: IndexError half-way
            raise ValueError(mode)

        return bad
    dt, lay = _NPDT[u.get("dt", "c128")], u.get("lay", "C")
    memo = {} if u.get("cache") else None

    def fun(*args):
        if memo is not None and args in memo:
            return memo[args]
        kind = u["k"]
        raw = ref_matrix(dict(u, dt="c128"), args)
        raw = raw if kind in ("gen", "sym") else raw.real
        out = lay_out(np.array(raw).astype(dt), lay)
        if memo is not None:
            memo[args] = out
        return out

    return fun


def sem_matrix(entry, cargs):
    """reference matrix of a (possibly derived) table entry; None = no unitary"""
    u = entry["u"]
    if u is None:
        return None
    drop = entry.get("drop", 0)
    return ref_matrix(u, cargs[: len(cargs) - drop] if drop else cargs)


# ------------------------------------------------------------------ reference interpreter
# prog: {"lets": [[name, number]], "reg": [name, int | let], "maps": [[name, src, null | ["i", k] | ["s", lo, hi, step]]],
#        "macros": [[name, [params], [item]]], "subs": [{"style": "pm" | "blk", "items": [item]}], "override": {..} | null}
# item: ["g", gate, [arg]] | ["m", macro, [arg]] | ["loop", count, [item]] | ["seq", [item]] | ["par", [item]]
# arg : number | ["q", register-like name, int | name] | ["n", name]     (name: let, named qubit, macro parameter)
def is_num(a):
    return isinstance(a, (int, float)) and not isinstance(a, bool)


def integral(v):
    return is_num(v) and float(v).is_integer()


def interpret(prog, sem, use_override=True):
    lets = {}
    for name, v in prog["lets"]:
        if name in lets:
            raise Invalid("let twice")
        lets[name] = v
    if use_override and prog.get("override"):
        for name, v in prog["override"].items():
            if name not in lets:
                raise Invalid("override of unknown let")
            lets[name] = v

    def small(v):
        if isinstance(v, str):
            if v not in lets:
                raise Invalid(f"unknown let {v}")
            v = lets[v]
        if not integral(v):
            raise Invalid("not integral")
        return int(v)

    n = small(prog["reg"][1])
    if not 1 <= n <= 5:
        raise Invalid("register size")
    regs, qubits = {prog["reg"][0]: list(range(n))}, {}
    for name, src, spec in prog["maps"]:
        if name in regs or name in qubits or name in lets or src not in regs:
            raise Invalid("map")
        base = regs[src]
        if spec is None:
            regs[name] = list(base)
        elif spec[0] == "i":
            k = small(spec[1])
            if not 0 <= k < len(base):
                raise Invalid("alias index")
            qubits[name] = base[k]
        else:
            lo, hi, st = (small(x) for x in spec[1:4])
            if st == 0 or lo < 0 or hi < 0 or lo > len(base) or hi > len(base):
                raise Invalid("slice")
            idx = list(range(lo, hi, st))
            if not idx or any(not 0 <= k < len(base) for k in idx):
                raise Invalid("slice range")
            regs[name] = [base[k] for k in idx]
    macros = {}
    for name, params, body in prog["macros"]:
        if name in macros or name in sem or name in lets or name in regs or name in qubits or len(set(params)) != len(params):
            raise Invalid("macro")
        macros[name] = (params, body, set(macros))
    budget = [600]

    def num(a, env):
        if is_num(a):
            return a
        if isinstance(a, list) and a[0] == "n":
            if a[1] in env:
                if env[a[1]][0] != "num":
                    raise Invalid("not a number")
                return env[a[1]][1]
            if a[1] in lets:
                return lets[a[1]]
        raise Invalid(f"not numeric: {a}")

    def count(a, env):
        v = num(["n", a] if isinstance(a, str) else a, env)
        if not integral(v):
            raise Invalid("count not integral")
        return int(v)

    def qubit(a, env):
        if isinstance(a, list) and a[0] == "q":
            r = env[a[1]][1] if a[1] in env and env[a[1]][0] == "reg" else regs.get(a[1]) if a[1] not in env else None
            if r is None:
                raise Invalid("not a register")
            k = count(a[2], env)
            if not 0 <= k < len(r):
                raise Invalid("index out of range")
            return r[k]
        if isinstance(a, list) and a[0] == "n":
            if a[1] in env:
                if env[a[1]][0] != "q":
                    raise Invalid("not a qubit")
                return env[a[1]][1]
            if a[1] in qubits:
                return qubits[a[1]]
        raise Invalid(f"not a qubit: {a}")

    def anyarg(a, env):
        if is_num(a):
            return ("num", a)
        if a[0] == "q":
            return ("q", qubit(a, env))
        if a[1] in env:
            return env[a[1]]
        if a[1] in lets:
            return ("num", lets[a[1]])
        if a[1] in qubits:
            return ("q", qubits[a[1]])
        if a[1] in regs:
            return ("reg", regs[a[1]])
        raise Invalid("unknown name")

    def walk(items, env, out, touched, visible):
        for it in items:
            t = it[0]
            if t == "g":
                e = sem.get(it[1])
                if e is None or e.get("busy") or (e["u"] is not None and "bad" in e["u"]):
                    raise Invalid(f"gate {it[1]}")
                if len(e["params"]) != len(it[2]):
                    raise Invalid("gate arity")
                qs, cs = [], []
                for (_pn, kind), a in zip(e["params"], it[2]):
                    if kind == "q":
                        qs.append(qubit(a, env))
                    else:
                        v = num(a, env)
                        if kind == "i" and not integral(v):
                            raise Invalid("INT argument")
                        cs.append(v)
                if len(set(qs)) != len(qs):
                    raise Invalid("qubit twice")
                touched.update(qs)
                out.append((it[1], qs, cs))
                budget[0] -= 1
                if budget[0] < 0:
                    raise Invalid("too long")
            elif t == "m":
                if it[1] not in macros or (visible is not None and it[1] not in visible):
                    raise Invalid("macro call")
                params, body, vis = macros[it[1]]
                if len(params) != len(it[2]):
                    raise Invalid("macro arity")
                walk(body, {p: anyarg(a, env) for p, a in zip(params, it[2])}, out, touched, vis)
            elif t == "loop":
                c = count(it[1], env)
                if c < 0:
                    raise Invalid("negative loop")
                once = []
                walk(it[2], env, once, touched, visible)
                budget[0] -= max(0, c - 1) * len(once)
                if budget[0] < 0:
                    raise Invalid("too long")
                out.extend(once * c)
            elif t == "seq":
                walk(it[1], env, out, touched, visible)
            elif t == "par":
                seen = set()
                for br in it[1]:
                    used = set()
                    walk([br], env, out, used, visible)
                    if used & seen:
                        raise Invalid("branches share a qubit")
                    seen |= used
                touched |= seen
            else:
                raise Invalid("item")

    subs = []
    for sub in prog["subs"]:
        out = []
        walk(sub["items"], {}, out, set(), None)
        subs.append(out)
    return {"n": n, "subs": subs}


_IDX = {}


def apply_gate(v, u, qs, n):
    key = (n, tuple(qs))
    if key not in _IDX:
        d = 1 << len(qs)
        rows = np.zeros(1 << n, dtype=int)
        rest = np.arange(1 << n)
        for j, q in enumerate(qs):
            rows |= ((np.arange(1 << n) >> q) & 1) << j
            rest = rest & ~(1 << q)
        cols = []
        for c in range(d):
            j = rest.copy()
            for b, q in enumerate(qs):
                if (c >> b) & 1:
                    j |= 1 << q
            cols.append(j)
        _IDX[key] = (rows, cols)
    rows, cols = _IDX[key]
    out = np.zeros_like(v)
    for c, j in enumerate(cols):
        out += u[rows, c] * v[j]
    return out


def reference_states(n, subs, sem):
    states = []
    for sub in subs:
        v = np.zeros(1 << n, dtype=complex)
        v[0] = 1
        for name, qs, cs in sub:
            m = sem_matrix(sem[name], cs)
            if m is not None:
                v = apply_gate(v, m, qs, n)
        states.append(v)
    return states


# ------------------------------------------------------------------ surface forms
def num_text(v, intfloat=False):
    if isinstance(v, int):
        return f"{v}.0" if intfloat else str(v)
    r = repr(float(v))
    return r


def _targ(a, nf):
    if is_num(a):
        return num_text(a, nf == "intfloat")
    if a[0] == "n":
        return a[1]
    return f"{a[1]}[{a[2]}]"


def _titems(items, nf):
    return " ; ".join(_titem(it, nf) for it in items)


def _titem(it, nf):
    t = it[0]
    if t in ("g", "m"):
        return " ".join([it[1]] + [_targ(a, nf if t == "g" else "plain") for a in it[2]])  # macro arguments may become loop counts
    if t == "loop":
        return f"loop {it[1]} {{ {_titems(it[2], nf)} }}"
    if t == "seq":
        return "{ " + _titems(it[1], nf) + " }"
    return "< " + " | ".join(_titem(x, nf) for x in it[1]) + " >"


def to_text(prog, nf="plain"):
    out = [f"let {name} {num_text(v)}" for name, v in prog["lets"]]
    out.append(f"register {prog['reg'][0]}[{prog['reg'][1]}]")
    for name, src, spec in prog["maps"]:
        if spec is None:
            out.append(f"map {name} {src}")
        elif spec[0] == "i":
            out.append(f"map {name} {src}[{spec[1]}]")
        else:
            out.append(f"map {name} {src}[{spec[1]}:{spec[2]}:{spec[3]}]")
    for name, params, body in prog["macros"]:
        out.append(" ".join(["macro", name] + list(params)) + " { " + "\n".join(_titem(x, nf) for x in body) + " }")
    for sub in prog["subs"]:
        lines = [_titem(x, nf) for x in sub["items"]]
        if sub["style"] == "pm":
            out += [PREP] + lines + [MEAS]
        else:
            out.append("subcircuit {\n" + "\n".join(lines) + "\n}")
    return "\n".join(out) + "\n"


def fresh(s):
    """an equal string that is a NEW object (never interned)"""
    return "".join(list(s)) if len(s) > 1 else s


class Render:
    """S-expression rendering with options: fresh strings, shared objects, tuple / list mix, numeric forms"""

    def __init__(self, how, sem):
        self.how, self.sem = how, sem
        self.memo = {}
        self.k = 0

    def s(self, x):
        return fresh(x) if self.how.get("fresh") else x

    def seq(self, xs):
        mode = self.how.get("seq", "list")
        self.k += 1
        if mode == "tuple" or (mode == "mixed" and self.k % 2):
            return tuple(xs)
        return list(xs)

    def numf(self, v, slot):
        nf = self.how.get("nf", "plain")
        if nf == "np" and isinstance(v, float):
            return np.float64(v)
        if nf == "intfloat" and isinstance(v, int) and slot in ("f", "i"):
            return float(v)
        if nf == "bool" and isinstance(v, int) and v in (0, 1) and slot in ("f", "i"):
            return bool(v)
        if nf == "npint" and isinstance(v, int) and slot in ("f", "i"):
            return np.int64(v)
        return v

    def arg(self, a, slot):
        if is_num(a):
            return self.numf(a, slot)
        if a[0] == "n":
            return self.s(a[1])
        return self.seq([self.s("array_item"), self.s(a[1]), self.s(a[2]) if isinstance(a[2], str) else a[2]])

    def item(self, it):
        key = json.dumps(it) if self.how.get("share") else None
        if key is not None and key in self.memo:
            return self.memo[key]
        t = it[0]
        if t in ("g", "m"):
            e = self.sem.get(it[1]) if t == "g" else None
            slots = [k for _p, k in e["params"]] if e else ["?"] * len(it[2])
            r = self.seq([self.s("gate"), self.s(it[1])] + [self.arg(a, sl) for a, sl in zip(it[2], slots)])
        elif t == "loop":
            r = self.seq([self.s("loop"), self.s(it[1]) if isinstance(it[1], str) else it[1], self.block("sequential_block", it[2])])
        elif t == "seq":
            r = self.block("sequential_block", it[1])
        else:
            r = self.block("parallel_block", it[1])
        if key is not None:
            self.memo[key] = r
        return r

    def block(self, kind, items):
        return self.seq([self.s(kind)] + [self.item(x) for x in items])

    def header(self, prog):
        out = [self.seq([self.s("let"), self.s(name), self.numf(v, "let")]) for name, v in prog["lets"]]
        size = prog["reg"][1]
        out.append(self.seq([self.s("register"), self.s(prog["reg"][0]), self.s(size) if isinstance(size, str) else size]))
        for name, src, spec in prog["maps"]:
            m = [self.s("map"), self.s(name), self.s(src)]
            if spec is not None:
                m += [self.s(x) if isinstance(x, str) else x for x in spec[1:]]
            out.append(self.seq(m))
        return out

    def macros(self, prog):
        return [self.seq([self.s("macro"), self.s(name)] + [self.s(p) for p in params] + [self.block("sequential_block", body)])
                for name, params, body in prog["macros"]]

    def body(self, prog):
        out = []
        for sub in prog["subs"]:
            if sub["style"] == "pm":
                out.append(self.seq([self.s("gate"), self.s(PREP)]))
                out += [self.item(x) for x in sub["items"]]
                out.append(self.seq([self.s("gate"), self.s(MEAS)]))
            else:
                out.append(self.seq([self.s("subcircuit_block"), ""] + [self.item(x) for x in sub["items"]]))
        return out

    def circuit(self, prog):
        return self.seq([self.s("circuit")] + self.header(prog) + self.macros(prog) + self.body(prog))


def via_builder(prog, table, how, sem, stumble=None):
    """CircuitBuilder / BlockBuilder API; equal blocks are ONE builder object when how["share"]; with `stumble` a
    defective statement is appended first, build() raises, the statement is taken out again and build() is repeated"""
    L = _lib()
    R = Render(dict(how, seq="tuple"), sem)
    b = L["CircuitBuilder"](native_gates=table)
    for name, v in prog["lets"]:
        b.let(R.s(name), R.numf(v, "let"), unevaluated=bool(how.get("lazy")))
    size = prog["reg"][1]
    b.register(R.s(prog["reg"][0]), size, unevaluated=isinstance(size, str) or bool(how.get("lazy")))
    for name, src, spec in prog["maps"]:
        if spec is None:
            b.map(R.s(name), R.s(src), unevaluated=True)
        elif spec[0] == "i":
            b.map(R.s(name), R.s(src), spec[1], unevaluated=True)
        else:
            b.map(R.s(name), R.s(src), slice(spec[1], spec[2], spec[3]), unevaluated=True)
    memo = {}

    def fill(bb, items):
        for it in items:
            t = it[0]
            if t in ("g", "m"):
                g = R.item(it)
                bb.gate(*g[1:])
            elif t == "loop":
                bb.loop(it[1], blockof(L["SequentialBlockBuilder"], it[2]), unevaluated=True)
            elif t == "seq":
                bb.expression.append(blockof(L["SequentialBlockBuilder"], it[1]).expression)
            else:
                bb.expression.append(blockof(L["ParallelBlockBuilder"], it[1]).expression)

    def blockof(cls, items):
        key = (cls.__name__, json.dumps(items))
        if how.get("share") and key in memo:
            return memo[key]
        bb = cls()
        fill(bb, items)
        memo[key] = bb
        return bb

    for name, params, body in prog["macros"]:
        b.macro(R.s(name), [R.s(p) for p in params], blockof(L["SequentialBlockBuilder"], body), unevaluated=True)
    for sub in prog["subs"]:
        if sub["style"] == "pm":
            b.gate(R.s(PREP))
            fill(b, sub["items"])
            b.gate(R.s(MEAS))
        else:
            fill(b.subcircuit(), sub["items"])
    if stumble:
        bad = {"unknown": ("gate", "NoSuchGate", ("array_item", prog["reg"][0], 0)),
               "index": ("gate", PREP, 1, 2, 3),
               "let": ("let", prog["lets"][0][0] if prog["lets"] else "zz", 1)}[stumble]
        b.expression.append(bad)
        raised = False
        try:
            b.build()
        except Exception:
            raised = True
        b.expression.pop()
        how["_stumbled"] = raised
    return b.build()


# ------------------------------------------------------------------ sessions: executing steps on the real code
# steps (JSON):
#   ["table", tid, [{"name", "params": [[pname, "q"|"f"|"i"]], "u": uspec | null}], {"fresh": bool}]   constructor
#   ["copy", tid, key, src, {"name": bool, "params": [...] | null, "u": uspec | null}]    T[key] = T[src].copy(...)
#   ["subset", dst, src, [names] | null]            a new dict sharing the definition objects
#   ["stretch", dst, src, suffix | null, update]    stretched_gates
#   ["idle", dst, src]                              add_idle_gates
#   ["clone", dst, src, "copy" | "deepcopy"]        copy module on every definition
#   ["circ", cid, prog, tid, how]                   how: {"form": "text"|"sexpr"|"builder", "fresh", "share", "seq", "nf", "ov": "parse"|"fill", "stumble"}
#   ["pass", dst, src, "S"|"L"|"M"|"Mk"]
#   ["rebuild", dst, src, mode, k]                  same | pieces | dup | loopwrap | deepcopy | copy | regates | macros_from
#   ["run", cid, backend, order]                    judged.  backend: default | fresh | shared ; order: see read_result
#   ["failrun", prog, tid, how, backend]   ["failpass", cid, override]   ["failparse", text, tid]      never judged
#   ["reread"]                                      every earlier result is read and judged again
ORDERS = ("sv_first", "str_first", "int_first", "backwards", "twice", "prob_first", "sv_last")


def read_result(res, order):
    subs = list(res.subcircuits)
    idx = list(range(len(subs)))
    if order == "backwards":
        idx.reverse()
    out = {}
    for i in idx:
        sc = subs[i]
        if order == "str_first":
            dict(sc.simulated_probability_by_str)
            dict(sc.probability_by_str)
            p = np.array(sc.simulated_probability_by_int)
            v = np.array(sc.state_vector)
        elif order in ("int_first", "sv_last"):
            p = np.array(sc.simulated_probability_by_int)
            if order == "sv_last":
                dict(sc.probability_by_str)
                np.array(sc.probability_by_int)
            v = np.array(sc.state_vector)
        elif order == "prob_first":
            np.array(sc.probability_by_int)
            dict(sc.probability_by_str)
            v = np.array(sc.state_vector)
            p = np.array(sc.simulated_probability_by_int)
        elif order == "twice":
            np.array(sc.state_vector)
            dict(sc.simulated_probability_by_str)
            np.array(sc.simulated_probability_by_int)
            v = np.array(sc.state_vector)
            p = np.array(sc.simulated_probability_by_int)
        else:
            v = np.array(sc.state_vector)
            p = np.array(sc.simulated_probability_by_int)
        out[i] = (v, p)
    return [out[i] for i in range(len(subs))]


def _fmt(v):
    return "[" + ", ".join(f"{complex(x):.4g}" for x in list(np.asarray(v).ravel())[:16]) + (", ..." if len(v) > 16 else "") + "]"


def compare(want, got):
    if len(want) != len(got):
        return f"{len(got)} subcircuits reported, {len(want)} written"
    for k, (w, (v, p)) in enumerate(zip(want, got)):
        v = np.asarray(v).ravel()
        if v.shape != w.shape:
            return f"subcircuit {k}: state vector of length {v.shape}, expected {w.shape}"
        if not np.allclose(v, w, atol=TOL, rtol=0):
            return f"subcircuit {k}: state_vector {_fmt(v)} != U_k..U_1 e0 = {_fmt(w)}"
        p = np.asarray(p, dtype=float).ravel()
        if p.shape != w.shape or not np.allclose(p, np.abs(w) ** 2, atol=TOL, rtol=0):
            return f"subcircuit {k}: simulated_probability_by_int {_fmt(p)} != |amplitude|^2 = {_fmt(np.abs(w) ** 2)}"
    return None


class Session:
    def __init__(self):
        self.tables, self.sems = {}, {}
        self.circs = {}
        self.results = []  # (step index, result object, want, order)
        self.shared = None
        self.failures = []  # (step index, detail)
        self.notes = {}
        self.judged = 0

    def note(self, k):
        self.notes[k] = self.notes.get(k, 0) + 1

    # ---- tables
    def make_def(self, e, fresh_names):
        L = _lib()
        kinds = {"q": L["ParamType"].QUBIT, "f": L["ParamType"].FLOAT, "i": L["ParamType"].INT}
        nm = fresh(e["name"]) if fresh_names else e["name"]
        params = [L["Parameter"](fresh(p) if fresh_names else p, kinds[k]) for p, k in e["params"]]
        u = e["u"]
        if u is not None and "bad" not in u:
            for args in ([0.3] * sum(1 for _p, k in e["params"] if k != "q"),):
                got, want = make_ufun(u)(*args), ref_matrix(u, args)
                d = want.shape[0]
                if any(complex(got[r, c]) != want[r, c] for r in range(d) for c in range(d)):
                    raise AssertionError("harness bug: lay_out changed the matrix")
        return L["GateDefinition"](nm, params, ideal_unitary=make_ufun(u))

    def step_table(self, tid, entries, opt):
        L = _lib()
        fr = bool(opt.get("fresh"))
        Tb, sem = {}, {}
        busy = [(PREP, L["BusyGateDefinition"](PREP, [])), (MEAS, L["BusyGateDefinition"](MEAS, []))]
        if opt.get("busy_last"):
            pending = busy
        else:
            pending = []
            for k, g in busy:
                Tb[k] = g
        for e in entries:
            Tb[fresh(e["name"]) if fr else e["name"]] = self.make_def(e, fr)
            sem[e["name"]] = {"params": [list(p) for p in e["params"]], "u": e["u"], "drop": 0}
        for k, g in pending:
            Tb[k] = g
        for k in (PREP, MEAS):
            sem[k] = {"params": [], "u": None, "busy": True}
        self.tables[tid], self.sems[tid] = Tb, sem

    def step_copy(self, tid, key, src, ch):
        L = _lib()
        Tb, sem = self.tables[tid], self.sems[tid]
        kinds = {"q": L["ParamType"].QUBIT, "f": L["ParamType"].FLOAT, "i": L["ParamType"].INT}
        kw = {}
        new = {"params": [list(p) for p in sem[src]["params"]], "u": sem[src]["u"], "drop": sem[src].get("drop", 0)}
        if ch.get("name", True):
            kw["name"] = key
        if ch.get("params") is not None:
            kw["parameters"] = [L["Parameter"](p, kinds[k]) for p, k in ch["params"]]
            new["params"] = [list(p) for p in ch["params"]]
        if ch.get("u") is not None:
            kw["ideal_unitary"] = make_ufun(ch["u"])
            new["u"], new["drop"] = ch["u"], 0
        Tb[key] = Tb[src].copy(**kw)
        sem[key] = new

    def step_stretch(self, dst, src, suffix, update):
        L = _lib()
        Tb, sem = self.tables[src], self.sems[src]
        new = {}
        for name, e in sem.items():
            if e.get("idle"):
                parent = e["parent"]
                pe = e["parent_entry"]
                st = {"params": [list(p) for p in pe["params"]] + [["stretch", "f"]], "u": pe["u"], "drop": pe.get("drop", 0) + (1 if pe["u"] is not None else 0)}
                if pe.get("busy"):
                    st["busy"] = True
                new[parent + (suffix or "")] = st
                new[name + (suffix or "")] = {"params": st["params"], "u": None, "idle": True, "parent": parent + (suffix or ""), "parent_entry": st}
            else:
                st = {"params": [list(p) for p in e["params"]] + [["stretch", "f"]], "u": e["u"], "drop": e.get("drop", 0) + (1 if e["u"] is not None else 0)}
                if e.get("busy"):
                    st["busy"] = True
                new[name + (suffix or "")] = st
        got = L["stretched_gates"](Tb, suffix=suffix, update=bool(update))
        if update:
            merged = dict(sem)
            merged.update(new)
            self.sems[src] = merged
            self.tables[dst], self.sems[dst] = got, merged
        else:
            self.tables[dst], self.sems[dst] = got, new

    def step_idle(self, dst, src):
        L = _lib()
        sem = {}
        for name, e in self.sems[src].items():
            sem[name] = e
            if name not in (PREP, MEAS) and not e.get("prep_like"):
                sem["I_" + name] = {"params": e["params"], "u": None, "idle": True, "parent": name, "parent_entry": e}
        self.tables[dst], self.sems[dst] = L["add_idle_gates"](self.tables[src]), sem

    def step_clone(self, dst, src, mode):
        f = pycopy.deepcopy if mode == "deepcopy" else pycopy.copy
        self.tables[dst] = {k: f(g) for k, g in self.tables[src].items()}
        self.sems[dst] = dict(self.sems[src])

    # ---- circuits
    def build_circuit(self, prog, tid, how):
        L = _lib()
        Tb, sem = self.tables[tid], self.sems[tid]
        ov = prog.get("override") or None
        pending = ov
        form = how.get("form", "text")
        if form == "text":
            kw = {"inject_pulses": Tb, "autoload_pulses": False}
            if ov is not None and how.get("ov") == "parse":
                kw.update(override_dict=dict(ov), expand_let=True)
                pending = None
            c = L["parse_jaqal_string"](to_text(prog, how.get("nf", "plain")), **kw)
        elif form == "sexpr":
            c = L["build"](Render(how, sem).circuit(prog), inject_pulses=Tb)
        else:
            c = via_builder(prog, Tb, how, sem, how.get("stumble"))
        return c, pending

    def step_circ(self, cid, prog, tid, how):
        L = _lib()
        sem = self.sems[tid]
        want = interpret(prog, sem)
        try:
            c, pending = self.build_circuit(prog, tid, how)
        except L["JaqalError"]:
            if how.get("nf") == "npint":
                self.note("npint_rejected")
                self.circs[cid] = None
                return
            raise
        self.circs[cid] = {"c": c, "pending": pending, "n": want["n"], "subs": want["subs"], "sem": dict(sem), "tid": tid, "prog": prog}

    def step_pass(self, dst, src, p):
        L = _lib()
        ci = self.circs[src]
        if ci is None:
            self.circs[dst] = None
            return
        c, pending = ci["c"], ci["pending"]
        if p == "S":
            c = L["expand_subcircuits"](c)
        elif p == "L":
            c = L["fill_in_let"](c, dict(pending)) if pending is not None else L["fill_in_let"](c)
            pending = None
        elif p == "M":
            c = L["expand_macros"](c)
        else:
            c = L["expand_macros"](c, preserve_definitions=True)
        self.circs[dst] = dict(ci, c=c, pending=pending)

    @staticmethod
    def segments(c):
        """top-level statements of the body grouped per subcircuit: [(style, [stmts])]; None if it does not segment"""
        segs, cur = [], None
        for st in c.body.statements:
            nm = getattr(st, "name", None)
            if nm == PREP and cur is None:
                cur = [st]
            elif nm == MEAS and cur is not None:
                cur.append(st)
                segs.append(("pm", cur))
                cur = None
            elif cur is not None:
                cur.append(st)
            elif getattr(st, "subcircuit", False):
                segs.append(("blk", [st]))
            else:
                return None
        return segs if cur is None else None

    def step_rebuild(self, dst, src, mode, k):
        L = _lib()
        ci = self.circs[src]
        if ci is None:
            self.circs[dst] = None
            return
        c = ci["c"]
        Tb = self.tables[ci["tid"]]
        subs = ci["subs"]
        head = [*c.constants.values(), *c.registers.values(), *c.macros.values()]
        if mode == "same":
            new = L["build"](c)
        elif mode == "deepcopy":
            new = pycopy.deepcopy(c)
        elif mode == "copy":
            new = pycopy.copy(c)
        elif mode == "pieces":
            new = L["build"](("circuit", *head, *c.body.statements), inject_pulses=Tb)
        elif mode == "regates":
            b = L["CircuitBuilder"](native_gates=c.native_gates)
            b.expression.extend(head)
            b.expression.extend(c.body.statements)
            new = b.build()
        elif mode in ("dup", "loopwrap"):
            segs = self.segments(c)
            if not segs or len(segs) != len(subs):
                self.note("rebuild_not_segmentable")
                self.circs[dst] = dict(ci)
                return
            k %= len(segs)
            body, nsubs = [], []
            for i, (style, stmts) in enumerate(segs):
                if i == k and mode == "dup":
                    body += stmts + stmts
                    nsubs += [subs[i], subs[i]]
                elif i == k and style == "pm" and len(stmts) > 2:
                    body += [stmts[0], ("loop", 2, ("sequential_block", *stmts[1:-1])), stmts[-1]]
                    nsubs.append(subs[i] * 2)
                else:
                    body += stmts
                    nsubs.append(subs[i])
            new = L["build"](("circuit", *head, *body), inject_pulses=Tb)
            subs = nsubs
        elif mode == "macros_from":
            prog = ci["prog"]
            if ci["pending"] is None and prog.get("override"):
                self.circs[dst] = dict(ci)
                return
            R = Render({"fresh": True, "seq": "mixed"}, ci["sem"])
            donor = self.build_circuit(prog, ci["tid"], {"form": "text"})[0]
            new = L["build"](R.seq(["circuit"] + R.header(prog) + list(donor.macros.values()) + R.body(prog)), inject_pulses=Tb)
            subs = interpret(prog, ci["sem"], use_override=True)["subs"]  # the program as written (earlier rebuilds are discarded)
        else:
            raise ValueError(mode)
        self.circs[dst] = dict(ci, c=new, subs=subs)

    # ---- runs
    def backend_kw(self, backend):
        L = _lib()
        if backend == "fresh":
            return {"backend": L["UnitarySerializedEmulator"]()}
        if backend == "shared":
            if self.shared is None:
                self.shared = L["UnitarySerializedEmulator"]()
            return {"backend": self.shared}
        return {}

    def step_run(self, i, cid, backend, order):
        L = _lib()
        ci = self.circs[cid]
        if ci is None:
            return
        want = reference_states(ci["n"], ci["subs"], ci["sem"])
        self.judged += 1
        try:
            c = ci["c"]
            if ci["pending"] is not None:
                c = L["fill_in_let"](c, dict(ci["pending"]))
            res = L["run_jaqal_circuit"](c, **self.backend_kw(backend))
            got = read_result(res, order)
        except Hang:
            raise
        except BaseException as e:  # a valid program must run
            if isinstance(e, (KeyboardInterrupt, SystemExit, MemoryError)):
                raise
            self.failures.append((i, f"valid program raised {type(e).__name__}: {str(e)[:300]}"))
            return
        bad = compare(want, got)
        if bad:
            self.failures.append((i, bad))
        else:
            self.results.append((i, res, want))

    def step_fail(self, st):
        L = _lib()
        kind = st[0]
        try:
            if kind == "failrun":
                _k, prog, tid, how, backend = st
                c, pending = self.build_circuit(prog, tid, dict(how))
                if pending is not None:
                    c = L["fill_in_let"](c, dict(pending))
                self.note("failrun_built")
                L["run_jaqal_circuit"](c, **self.backend_kw(backend))
            elif kind == "failpass":
                ci = self.circs[st[1]]
                if ci is not None:
                    L["fill_in_let"](ci["c"], dict(st[2]))
            else:
                L["parse_jaqal_string"](st[1], inject_pulses=self.tables[st[2]], autoload_pulses=False)
            self.note(kind + "_did_not_raise")
        except Hang:
            raise
        except BaseException as e:
            if isinstance(e, (KeyboardInterrupt, SystemExit, MemoryError)):
                raise
            self.note(f"{kind}_raised_{type(e).__name__}")

    def step_reread(self, i):
        for j, res, want in self.results:
            self.judged += 1
            try:
                bad = compare(want, read_result(res, "sv_first"))
            except Hang:
                raise
            except Exception as e:
                bad = f"{type(e).__name__}: {str(e)[:200]}"
            if bad:
                self.failures.append((i, f"result of step {j} read again: {bad}"))

    def execute(self, steps):
        for i, st in enumerate(steps):
            try:
                self.one(i, st)
            except (Hang, Invalid):
                raise
            except Exception as e:
                self.failures.append((i, f"step {i} ({st[0]}) of a session of valid steps raised {type(e).__name__}: {str(e)[:300]}"))
                return

    def one(self, i, st):
        if True:
            k = st[0]
            if k == "table":
                self.step_table(st[1], st[2], st[3] if len(st) > 3 else {})
            elif k == "copy":
                self.step_copy(*st[1:])
            elif k == "subset":
                names = st[3]
                self.tables[st[1]] = {n: g for n, g in self.tables[st[2]].items() if names is None or n in names or n in (PREP, MEAS)}
                self.sems[st[1]] = {n: e for n, e in self.sems[st[2]].items() if names is None or n in names or n in (PREP, MEAS)}
            elif k == "merge":
                self.tables[st[1]], self.sems[st[1]] = {}, {}
                for src in st[2]:
                    self.tables[st[1]].update(self.tables[src])
                    self.sems[st[1]].update(self.sems[src])
            elif k == "stretch":
                self.step_stretch(*st[1:])
            elif k == "idle":
                self.step_idle(*st[1:])
            elif k == "clone":
                self.step_clone(*st[1:])
            elif k == "circ":
                self.step_circ(st[1], st[2], st[3], dict(st[4]))
            elif k == "pass":
                self.step_pass(*st[1:])
            elif k == "rebuild":
                self.step_rebuild(*st[1:])
            elif k == "run":
                self.step_run(i, *st[1:])
            elif k in ("failrun", "failpass", "failparse"):
                self.step_fail(st)
            elif k == "reread":
                self.step_reread(i)
            else:
                raise ValueError(k)


def run_session(steps):
    """-> ("ok", Session) | ("fail", Session) | ("hang", None) | ("error", "Type: message")   (an error outside a judged
    run: a construction step of the session itself raised)"""
    _lib()
    s = Session()
    old = signal.signal(signal.SIGALRM, _alarm)
    signal.alarm(int(T.limit()))
    try:
        with warnings.catch_warnings():
            warnings.simplefilter("ignore")
            s.execute(steps)
    except Hang:
        T.saw_hang()
        return ("hang", None)
    except Invalid as e:
        return ("invalid", f"{e}")
    except Exception as e:
        return ("error", f"{type(e).__name__}: {str(e)[:300]}")
    finally:
        signal.alarm(0)
        signal.signal(signal.SIGALRM, old)
    return ("fail" if s.failures else "ok", s)


# ------------------------------------------------------------------ generators: tables
GATE_NAMES = ["G", "GG", "G1", "Ga", "aG", "R", "Rx", "Rxx", "xR", "H", "HH", "U", "UU", "U2", "X", "XX", "X1", "GI", "IG", "Gs"]
QPN = ["q", "q0", "qq", "a", "ab", "c", "t", "x"]
CPN = ["th", "t0", "k", "kk", "phi", "th2"]
SIGS = {1: ["q", "q", "qf", "fq", "qi", "qff", "iqf"], 2: ["qq", "qq", "qqf", "qfq", "fqq", "qiq"], 3: ["qqq", "qqqf", "qfqq"]}


def gen_uspec(rng, nq, lay=None, kind=None, dt=None):
    kind = kind or rng.choice(["gen", "gen", "gen", "real", "perm", "sym"])
    u = {"k": kind, "nq": nq, "seed": rng.randrange(10 ** 6), "lay": lay or rng.choice(LAYOUTS), "dt": dt or rng.choice(DTYPES[kind])}
    if rng.random() < 0.3:
        u["cache"] = True
    return u


def gen_params(rng, sig):
    qn, cn = rng.sample(QPN, len(QPN)), rng.sample(CPN, len(CPN))
    return [[qn.pop() if k == "q" else cn.pop(), k] for k in sig]


def gen_entry(rng, name, nq, sig=None, lay=None, kind=None, dt=None):
    sig = sig or rng.choice(SIGS[nq])
    return {"name": name, "params": gen_params(rng, sig), "u": gen_uspec(rng, nq, lay, kind, dt)}


def gen_table(rng, lay=None, three=None, extra=0):
    names = rng.sample(GATE_NAMES, len(GATE_NAMES))
    ent = [gen_entry(rng, names.pop(), 1, "q", lay), gen_entry(rng, names.pop(), 1, rng.choice(["qf", "fq", "qi", "iqf"]), lay),
           gen_entry(rng, names.pop(), 2, "qq", lay), gen_entry(rng, names.pop(), 2, rng.choice(["qqf", "qfq", "fqq"]), lay)]
    if three if three is not None else rng.random() < 0.5:
        ent.append(gen_entry(rng, names.pop(), 3, None, lay))
    for _ in range(extra + rng.randrange(0, 3)):
        ent.append(gen_entry(rng, names.pop(), rng.choice([1, 1, 2]), None, lay))
    if rng.random() < 0.4:
        ent.append({"name": names.pop(), "params": gen_params(rng, "q"), "u": None})
    rng.shuffle(ent)
    return ent


def callable_gates(sem, n):
    return [g for g, e in sem.items() if not e.get("busy") and not (e["u"] is not None and "bad" in e["u"])
            and sum(1 for _p, k in e["params"] if k == "q") <= n]


# ------------------------------------------------------------------ generators: programs
NAMESETS = {
    "plain": {"let": ["alpha", "beta", "kx", "cnt", "sz", "gam"], "reg": ["r"], "map": ["w", "v", "e", "f", "d"], "macro": ["m", "n", "o", "p"],
              "par": ["x", "y", "z", "s", "u", "h"]},
    "substr": {"let": ["a", "ab", "abc", "b", "ba", "aa"], "reg": ["q"], "map": ["q0", "qq", "q1", "qa", "aq"], "macro": ["mm", "m", "m1", "am"],
               "par": ["x", "xx", "x0", "p", "pp", "xp"]},
}


class PGen:
    def __init__(self, rng, sem, knobs=None):
        self.rng, self.sem = rng, sem
        self.k = dict({"n": None, "empties": 0.1, "macros": (0, 2), "maps": (0, 3), "subs": (1, 3), "names": None, "override": 0.3,
                       "len": (2, 7), "order": None, "loops": 0.25, "pars": 0.2, "style": None}, **(knobs or {}))

    def build(self):
        rng, k = self.rng, self.k
        ns = NAMESETS[k["names"] or rng.choice(["plain", "substr"])]
        pool = {kind: list(v) for kind, v in ns.items()}
        for v in pool.values():
            rng.shuffle(v)
        n = self.n = k["n"] or rng.choice([1, 2, 2, 3, 3, 4])
        self.gates = callable_gates(self.sem, n)
        if not self.gates:
            raise Invalid("no gate fits")
        lets = []
        self.flets = [[pool["let"].pop(), rng.choice([0.3, -1.1, 2.5, 0.75, 1, 0.0])] for _ in range(rng.randint(1, 2))]
        self.ilet = [pool["let"].pop(), rng.randrange(n)]
        self.clet = [pool["let"].pop(), rng.choice([0, 1, 2, 2, 3])]
        lets = self.flets + [self.ilet, self.clet]
        size = n
        if rng.random() < 0.25:
            sl = [pool["let"].pop(), n]
            lets.append(sl)
            size = sl[0]
        order = k["order"] or rng.choice(["given", "shuffle", "desc", "asc"])
        if order == "shuffle":
            rng.shuffle(lets)
        elif order in ("desc", "asc"):
            lets.sort(key=lambda x: x[0], reverse=order == "desc")
        rname = pool["reg"].pop()
        self.regs = {rname: list(range(n))}
        self.named = {}
        maps = []
        for _ in range(rng.randint(*k["maps"])):
            name = pool["map"].pop()
            src = rng.choice(list(self.regs))
            base = self.regs[src]
            kind = rng.choice(["whole", "item", "slice", "slice"])
            if kind == "whole":
                maps.append([name, src, None])
                self.regs[name] = list(base)
            elif kind == "item":
                j = rng.randrange(len(base))
                maps.append([name, src, ["i", self.ilet[0] if j == self.ilet[1] and rng.random() < 0.5 else j]])
                self.named[name] = base[j]
            else:
                lo, hi = sorted(rng.sample(range(len(base) + 1), 2)) if len(base) > 0 else (0, 1)
                st = rng.choice([1, 1, 2, -1])
                if st == -1:
                    if hi - 1 <= lo and lo == 0 and hi <= 1:
                        st = 1
                    else:
                        lo, hi = hi - 1, max(lo - 1, 0)
                        if lo <= hi:
                            lo, hi, st = hi, lo + 1, 1
                idx = list(range(lo, hi, st))
                if not idx:
                    continue
                maps.append([name, src, ["s", lo, hi, st]])
                self.regs[name] = [base[j] for j in idx]
        self.macros = []  # [name, params, body, roles]
        for _ in range(rng.randint(*k["macros"])):
            self.gen_macro(pool)
        subs = []
        for _ in range(rng.randint(*k["subs"])):
            ctx = {"q": list(range(n)), "top": True, "nums": [], "cnts": []}
            items = self.items(ctx, rng.randint(*k["len"]), 0)
            subs.append({"style": k["style"] or rng.choice(["pm", "pm", "blk"]), "items": items})
        prog = {"lets": lets, "reg": [rname, size], "maps": maps, "macros": [m[:3] for m in self.macros], "subs": subs, "override": None}
        if rng.random() < k["override"]:
            ov = {}
            for name, _v in rng.sample(self.flets, rng.randint(1, len(self.flets))):
                ov[name] = rng.choice([0.9, -0.4, 3, 0.0, 1.5])
            if rng.random() < 0.4:
                ov[self.ilet[0]] = rng.randrange(n)
            if rng.random() < 0.4:
                ov[self.clet[0]] = rng.choice([0, 1, 2, 3])
            items_ = list(ov.items())
            rng.shuffle(items_)
            prog["override"] = dict(items_)
        return prog

    # qubit handle -> argument
    def qref(self, ctx, h):
        rng = self.rng
        if not ctx["top"]:
            return ["n", h]
        opts = []
        for r, phys in self.regs.items():
            for j, p in enumerate(phys):
                if p == h:
                    opts.append(["q", r, j])
                    if j == self.ilet[1]:
                        opts.append(["q", r, self.ilet[0]])
        for nm, p in self.named.items():
            if p == h:
                opts += [["n", nm]] * 2
        return rng.choice(opts)

    def fnum(self, ctx):
        rng = self.rng
        c = rng.random()
        if ctx["nums"] and c < 0.4:
            return ["n", rng.choice(ctx["nums"])]
        if c < 0.65:
            return ["n", rng.choice(self.flets)[0]]
        return rng.choice([0.3, -1.1, 2.5, 0.0, 1, 2, -0.0, 0.125, 7])

    def inum(self, ctx):
        rng = self.rng
        c = rng.random()
        if ctx["cnts"] and c < 0.3:
            return ["n", rng.choice(ctx["cnts"])]
        if c < 0.5:
            return ["n", rng.choice([self.ilet, self.clet])[0]]
        return rng.choice([0, 1, 2, 3, 2.0, 5])

    def cnt(self, ctx):
        rng = self.rng
        c = rng.random()
        if ctx["cnts"] and c < 0.35:
            return rng.choice(ctx["cnts"])
        if c < 0.55:
            return self.clet[0]
        return rng.choice([0, 1, 2, 2, 3])

    def gate(self, ctx, avail=None):
        rng = self.rng
        avail = list(ctx["q"] if avail is None else avail)
        fits = [g for g in self.gates if sum(1 for _p, kk in self.sem[g]["params"] if kk == "q") <= len(avail)]
        if not fits:
            return None, []
        g = rng.choice(fits)
        e = self.sem[g]
        qs = rng.sample(avail, sum(1 for _p, kk in e["params"] if kk == "q"))
        it = iter(qs)
        args = [self.qref(ctx, next(it)) if kk == "q" else self.fnum(ctx) if kk == "f" else self.inum(ctx) for _p, kk in e["params"]]
        return ["g", g, args], qs

    def call(self, ctx):
        rng = self.rng
        fits = [m for m in self.macros if sum(1 for r in m[3] if r == "q") <= len(ctx["q"]) and (ctx["top"] or m[0] in ctx["visible"])]
        if not fits:
            return None
        m = rng.choice(fits)
        qs = iter(rng.sample(ctx["q"], sum(1 for r in m[3] if r == "q")))
        args = []
        for r in m[3]:
            if r == "q":
                args.append(self.qref(ctx, next(qs)))
            elif r == "f":
                args.append(self.fnum(ctx))
            else:
                c = self.cnt(ctx)
                args.append(["n", c] if isinstance(c, str) else c)
        return ["m", m[0], args]

    def items(self, ctx, count, depth):
        rng, k = self.rng, self.k
        out = []
        for _ in range(count):
            c = rng.random()
            if c < k["empties"]:
                out.append(rng.choice([["par", []], ["loop", self.cnt(ctx), []], ["par", [["seq", []]]], ["loop", 2, [["par", []]]]]))
                continue
            c = rng.random()
            if c < k["loops"] and depth < 2:
                out.append(["loop", self.cnt(ctx), self.items(ctx, rng.randint(1, 3), depth + 1)])
            elif c < k["loops"] + k["pars"] and len(ctx["q"]) >= 2:
                avail = list(ctx["q"])
                rng.shuffle(avail)
                brs = []
                while avail and len(brs) < 3:
                    take = avail[: rng.randint(1, min(2, len(avail)))]
                    avail = avail[len(take):]
                    if rng.random() < 0.3:
                        inner = []
                        for _j in range(rng.randint(0, 2)):
                            g, _qs = self.gate(ctx, take)
                            if g:
                                inner.append(g)
                        brs.append(["seq", inner])
                    else:
                        g, qs = self.gate(ctx, take)
                        if g:
                            brs.append(g)
                            avail += [q for q in take if q not in qs]
                out.append(["par", brs])
            elif c < k["loops"] + k["pars"] + 0.2 and self.macros:
                m = self.call(ctx)
                if m:
                    out.append(m)
            else:
                g, _qs = self.gate(ctx)
                if g:
                    out.append(g)
        return out

    def gen_macro(self, pool):
        rng = self.rng
        if not pool["macro"] or len(pool["par"]) < 4:
            return
        name = pool["macro"].pop()
        roles = ["q"] * rng.randint(0 if rng.random() < 0.1 else 1, min(3, self.n)) + rng.choice([[], ["f"], ["f", "c"], ["c"], ["f", "f"]])
        rng.shuffle(roles)
        pars = rng.sample(pool["par"], len(roles))
        ctx = {"q": [p for p, r in zip(pars, roles) if r == "q"], "top": False, "nums": [p for p, r in zip(pars, roles) if r == "f"],
               "cnts": [p for p, r in zip(pars, roles) if r == "c"], "visible": {m[0] for m in self.macros}}
        body = self.items(ctx, rng.randint(0 if rng.random() < 0.15 else 1, 4), 1) if ctx["q"] else []
        self.macros.append([name, pars, body, roles])


def gen_prog(rng, sem, knobs=None, tries=40):
    for _ in range(tries):
        try:
            prog = PGen(rng, sem, knobs).build()
            if prog.get("override"):
                try:
                    interpret(prog, sem, True)
                except Invalid:
                    prog["override"] = None
            sem_ = interpret(prog, sem, False)
            full = interpret(prog, sem, True)
            if sum(len(s) for s in full["subs"]) == 0 and rng.random() < 0.8:
                continue
            return prog
        except Invalid:
            continue
    raise Invalid("no valid program")


# ------------------------------------------------------------------ generators: sessions
FORMS = ("text", "sexpr", "builder")
NFS = ("plain", "plain", "np", "intfloat", "bool", "npint")
BACKENDS = ("default", "fresh", "shared")
BADMODES = ("arity", "zerodiv", "jaqal", "interrupt", "none", "shape")
PASSES = ("S", "L", "M", "Mk")
REBUILDS = ("same", "pieces", "dup", "loopwrap", "deepcopy", "copy", "regates", "macros_from")


def sem_of(steps):
    """the reference tables after the construction steps (no circuits, no runs): used by the generators"""
    s = Session()
    s.execute([st for st in steps if st[0] in ("table", "copy", "subset", "merge", "stretch", "idle", "clone")])
    if s.failures:
        raise Invalid(s.failures[0][1])
    return s.sems


def rand_how(rng, form=None, trap=False):
    how = {"form": form or rng.choice(FORMS)}
    if how["form"] != "text":
        how.update(fresh=rng.random() < (0.9 if trap else 0.4), share=rng.random() < (0.8 if trap else 0.3), seq=rng.choice(["list", "tuple", "mixed"]))
        if how["form"] == "builder" and rng.random() < 0.3:
            how["lazy"] = True
    else:
        how["ov"] = rng.choice(["parse", "fill"])
    return how


def s_numeric(rng, lay=None, nq=None, kind=None, dt=None, nf=None):
    if lay is not None:
        ent = [gen_entry(rng, "G" + str(i), nq, sig, lay, kind, dt) for i, sig in enumerate(rng.sample(SIGS[nq], 2))]
        ent.append(gen_entry(rng, "H", 1, "q", rng.choice(LAYOUTS)))
        n = min(4, nq + rng.choice([0, 1]))
    else:
        ent, n = gen_table(rng, three=rng.random() < 0.6), None
    steps = [["table", "T", ent, {"fresh": rng.random() < 0.3}]]
    prog = gen_prog(rng, sem_of(steps)["T"], {"n": n, "macros": (0, 1), "override": 0.15})
    how = rand_how(rng)
    how["nf"] = nf or rng.choice(NFS)
    steps += [["circ", "c", prog, "T", how], ["run", "c", rng.choice(BACKENDS), rng.choice(ORDERS)]]
    if rng.random() < 0.4:  # the same table again: cached arrays are handed out a second time
        steps += [["circ", "d", gen_prog(rng, sem_of(steps)["T"], {"macros": (0, 1)}), "T", rand_how(rng)], ["run", "d", "default", "sv_first"],
                  ["run", "c", "default", "sv_first"]]
    return steps


def permuted(rng, params):
    p = list(params)
    for _ in range(5):
        rng.shuffle(p)
        if p != list(params):
            break
    return [list(x) for x in p]


def s_derived(rng, variant=None):
    ent = gen_table(rng, three=rng.random() < 0.4)
    steps = [["table", "T0", ent, {}]]
    sem0 = sem_of(steps)["T0"]
    warm = variant in (None, "warm") and rng.random() < (1.0 if variant == "warm" else 0.6)
    p0 = gen_prog(rng, sem0, {"macros": (0, 1), "len": (4, 9)})
    # make the warm-up use every gate once, so that every parent has been emulated
    if warm:
        n0 = interpret(p0, sem0)["n"]
        reg = p0["reg"][0]
        for g in callable_gates(sem0, n0):
            qs = iter(rng.sample(range(n0), sum(1 for _p, k in sem0[g]["params"] if k == "q")))
            p0["subs"][0]["items"].append(["g", g, [["q", reg, next(qs)] if k == "q" else 1 for _p, k in sem0[g]["params"]]])
        steps += [["circ", "p0", p0, "T0", rand_how(rng)], ["run", "p0", rng.choice(BACKENDS), "sv_first"]]
    steps.append(["subset", "T1", "T0", None])
    names = [e["name"] for e in ent]
    newn = [x for x in ["D", "DD", "D1", "Dx", "xD", "E", "EE"] if x not in names]
    made = []
    for _ in range(rng.randint(2, 4)):
        src = rng.choice(names + made)
        cur = sem_of(steps)["T1"][src]
        nq = sum(1 for _p, k in cur["params"] if k == "q")
        ch = {"name": True, "params": None, "u": None}
        c = rng.random()
        if c < 0.6 or cur["u"] is None:
            ch["u"] = gen_uspec(rng, nq)
        if rng.random() < 0.35:
            ch["params"] = permuted(rng, cur["params"])
        key = newn.pop()
        steps.append(["copy", "T1", key, src, ch])
        made.append(key)
    last = "T1"
    c = rng.random()
    if c < 0.3:
        steps += [["stretch", "S", "T1", "_s", False], ["merge", "T2", ["T1", "S"]]]
        last = "T2"
        if rng.random() < 0.5:
            steps.append(["idle", "T3", "T2"])
            last = "T3"
    elif c < 0.55:
        steps += [["idle", "I", "T1"], ["stretch", "S", "I", rng.choice(["_t", "_stretched"]), False], ["merge", "T2", ["I", "S"]]]
        last = "T2"
    elif c < 0.7:
        steps += [["subset", "U", "T1", None], ["stretch", "T2", "U", "_x", True]]
        last = "T2"
    if rng.random() < 0.25:
        steps.append(["clone", "T9", last, rng.choice(["copy", "deepcopy"])])
        last = "T9"
    semL = sem_of(steps)[last]
    for i in range(rng.randint(1, 2)):
        steps += [["circ", f"c{i}", gen_prog(rng, semL, {"macros": (0, 1), "len": (4, 9)}), last, rand_how(rng)],
                  ["run", f"c{i}", rng.choice(BACKENDS), "sv_first"]]
    # the parents after their children
    if warm:
        steps.append(["run", "p0", "default", "sv_first"])
    else:
        steps += [["circ", "p0", p0, "T0", rand_how(rng)], ["run", "p0", "default", "sv_first"]]
    steps.append(["reread"])
    return steps


def s_language(rng):
    ent = gen_table(rng, extra=2)
    steps = [["table", "T", ent, {"fresh": True, "busy_last": rng.random() < 0.5}]]
    knobs = {"names": "substr", "empties": rng.choice([0.1, 0.3]), "order": rng.choice(["shuffle", "desc", "asc"]), "macros": (1, 3), "maps": (1, 4),
             "loops": 0.3, "pars": 0.25}
    prog = gen_prog(rng, sem_of(steps)["T"], knobs)
    how = rand_how(rng, rng.choice(["sexpr", "builder", "sexpr", "text"]), trap=True)
    steps += [["circ", "c", prog, "T", how]]
    if rng.random() < 0.4:
        steps.append(["pass", "c", "c", rng.choice(PASSES)])
    steps.append(["run", "c", rng.choice(BACKENDS), rng.choice(ORDERS)])
    return steps


def with_bad(rng, prog, sem, badname, after=None, sub=None, second=False):
    """a copy of `prog` with a call of the faulty gate after `after` top-level statements of subcircuit `sub`"""
    p = json.loads(json.dumps(prog))
    sub = rng.randrange(len(p["subs"])) if sub is None else sub % len(p["subs"])
    items = p["subs"][sub]["items"]
    n = interpret(prog, sem)["n"]
    nq = sum(1 for _p, k in sem[badname]["params"] if k == "q")
    if nq > n:
        raise Invalid("faulty gate too wide")
    qs = iter(rng.sample(range(n), nq))
    call = ["g", badname, [["q", p["reg"][0], next(qs)] if k == "q" else 0.5 for _p, k in sem[badname]["params"]]]
    after = rng.randint(0, len(items)) if after is None else min(after, len(items))
    items.insert(after, call)
    if second:  # a second defect
        items.append(["g", badname, [["q", p["reg"][0], 99] if k == "q" else 0.5 for _p, k in sem[badname]["params"]]])
    return p


def plain_gates(rng, sem, n, reg, count):
    """`count` plain gate statements on the fundamental register"""
    out = []
    gates = callable_gates(sem, n)
    for _ in range(count):
        g = rng.choice(gates)
        qs = iter(rng.sample(range(n), sum(1 for _p, k in sem[g]["params"] if k == "q")))
        out.append(["g", g, [["q", reg, next(qs)] if k == "q" else rng.choice([0.3, 1, 2]) for _p, k in sem[g]["params"]]])
    return out


def s_exception(rng, mode=None, depth=None, kind=None):
    ent = gen_table(rng, three=rng.random() < 0.3)
    mode = mode or rng.choice(BADMODES)
    for i, nq in enumerate((1, 2)):
        ent.append({"name": f"BAD{i}", "params": gen_params(rng, rng.choice(SIGS[nq])), "u": {"bad": mode, "nq": nq}})
    steps = [["table", "T", ent, {}]]
    sem = sem_of(steps)["T"]
    n = rng.choice([1, 2, 2, 3, 3])
    backend = rng.choice(BACKENDS)
    valid = gen_prog(rng, sem, {"n": n, "macros": (0, 1)})
    kind = kind or rng.choice(["unitary", "unitary", "unitary", "pass", "parse", "builder", "twice"])
    if rng.random() < 0.5:
        steps += [["circ", "w", gen_prog(rng, sem, {"n": n, "macros": (0, 1)}), "T", rand_how(rng)], ["run", "w", backend, "sv_first"]]
    steps.append(["circ", "v", valid, "T", rand_how(rng, None)])
    if kind in ("unitary", "twice"):
        for _ in range(2 if kind == "twice" else 1):
            d = rng.randint(0, 6) if depth is None else depth
            base = {"lets": [], "reg": ["r", n], "maps": [], "macros": [], "override": None,
                    "subs": [{"style": "pm", "items": plain_gates(rng, sem, n, "r", 2)} for _ in range(rng.choice([0, 0, 1]))]
                    + [{"style": rng.choice(["pm", "blk"]), "items": plain_gates(rng, sem, n, "r", d + rng.randint(0, 2))}]}
            bad = with_bad(rng, base, sem, "BAD0" if n == 1 or rng.random() < 0.6 else "BAD1", after=d, sub=len(base["subs"]) - 1, second=rng.random() < 0.2)
            steps.append(["failrun", bad, "T", {"form": rng.choice(["text", "sexpr"])}, backend])
    elif kind == "pass":
        ilet = [nm for nm, v in valid["lets"] if isinstance(v, int)]
        steps.append(["failpass", "v", {rng.choice(ilet): 99, **({valid["lets"][0][0]: 0.5} if rng.random() < 0.5 else {})}])
        steps.append(["failrun", dict(valid, override={nm: 99 for nm in ilet}), "T", {"form": "text", "ov": rng.choice(["parse", "fill"])}, backend])
    elif kind == "parse":
        text = to_text(valid)
        cut = rng.choice([text.replace("register", "register register", 1), text + "NoSuchGate " + valid["reg"][0] + "[0]\n", text[: len(text) * 2 // 3] + " {",
                          text.replace(PREP, MEAS, 1)])
        steps.append(["failparse", cut, "T"])
        steps.append(["failrun", with_bad(rng, valid, sem, "BAD0"), "T", {"form": "text"}, backend])
    else:
        steps[-1] = ["circ", "v", valid, "T", dict(rand_how(rng, "builder"), stumble=rng.choice(["unknown", "index", "let"]))]
        steps.append(["failrun", with_bad(rng, valid, sem, "BAD0"), "T", {"form": "builder"}, backend])
    steps.append(["run", "v", backend, rng.choice(ORDERS)])
    if rng.random() < 0.5:
        other = rng.choice([b for b in BACKENDS if b != backend])
        steps += [["circ", "x", gen_prog(rng, sem, {"n": n, "macros": (0, 1)}), "T", rand_how(rng)], ["run", "x", other, "sv_first"]]
    steps.append(["reread"])
    return steps


def s_reentrant(rng):
    ent = gen_table(rng)
    steps = [["table", "T", ent, {}]]
    sem = sem_of(steps)["T"]
    prog = gen_prog(rng, sem, {"macros": (1, 2), "override": 0.4})
    steps.append(["circ", "c0", prog, "T", rand_how(rng)])
    cur = 0
    for _ in range(rng.randint(2, 5)):
        if rng.random() < 0.5:
            steps.append(["pass", f"c{cur + 1}", f"c{cur}", rng.choice(PASSES)])
        else:
            steps.append(["rebuild", f"c{cur + 1}", f"c{cur}", rng.choice(REBUILDS), rng.randrange(4)])
        cur += 1
        if rng.random() < 0.4:
            steps.append(["run", f"c{cur}", rng.choice(BACKENDS), "sv_first"])
    steps.append(["run", f"c{cur}", rng.choice(BACKENDS), rng.choice(ORDERS)])
    if rng.random() < 0.5:  # a second circuit over the same table / over the first circuit's native_gates, then the first again
        steps += [["circ", "o", gen_prog(rng, sem, {"macros": (0, 1)}), "T", rand_how(rng)], ["rebuild", "o1", "o", "regates", 0],
                  ["run", "o1", "default", "sv_first"], ["run", "c0", "default", "sv_first"]]
    steps.append(["reread"])
    return steps


def s_access(rng, order=None):
    ent = gen_table(rng)
    steps = [["table", "T", ent, {}]]
    sem = sem_of(steps)["T"]
    backend = rng.choice(BACKENDS)
    for i in range(rng.randint(1, 3)):
        steps += [["circ", f"c{i}", gen_prog(rng, sem, {"subs": (2, 3), "macros": (0, 1)}), "T", rand_how(rng)],
                  ["run", f"c{i}", backend, order or rng.choice(ORDERS)]]
    steps.append(["reread"])
    if rng.random() < 0.5:
        steps += [["run", "c0", backend, rng.choice(ORDERS)], ["reread"]]
    return steps


MAKERS = {"numeric_form": s_numeric, "derived": s_derived, "language": s_language, "exception": s_exception, "reentrant": s_reentrant,
          "access_order": s_access}


def sweep_cases(rng, thorough):
    out = []
    combos = [(lay, nq, kind) for lay in LAYOUTS for nq in (1, 2, 3) for kind in ("gen", "real", "perm")]
    if not thorough:
        combos = [c for c in combos if c[2] == "gen" or rng.random() < 0.25]
    for lay, nq, kind in combos:
        dts = DTYPES[kind] if thorough else (rng.choice(DTYPES[kind]),)
        for dt in sorted(set(dts)):
            out.append(("numeric_form", lambda r, a=(lay, nq, kind, dt): s_numeric(r, *a, nf="plain")))
    for nf in NFS[1:]:
        for _ in range(4 if thorough else 1):
            out.append(("numeric_form", lambda r, nf=nf: s_numeric(r, nf=nf)))
    for mode in BADMODES:
        for depth in (range(0, 7) if thorough else (rng.choice([1, 3, 5]), rng.choice([2, 4, 6]))):
            out.append(("exception", lambda r, a=(mode, depth): s_exception(r, a[0], a[1], "unitary")))
    for kind in ("pass", "parse", "builder", "twice"):
        for _ in range(4 if thorough else 1):
            out.append(("exception", lambda r, k=kind: s_exception(r, None, None, k)))
    for _ in range(12 if thorough else 3):
        out.append(("derived", lambda r: s_derived(r, "warm")))
        out.append(("derived", lambda r: s_derived(r, "cold")))
    for order in ORDERS:
        for _ in range(3 if thorough else 1):
            out.append(("access_order", lambda r, o=order: s_access(r, o)))
    return out


# ------------------------------------------------------------------ protocol
WEIGHTS = (("numeric_form", 25), ("derived", 20), ("language", 15), ("exception", 20), ("reentrant", 15), ("access_order", 5))


def features(steps, dist):
    for st in steps:
        k = st[0]
        dist["step_" + k] = dist.get("step_" + k, 0) + 1
        if k == "table":
            for e in st[2]:
                u = e["u"]
                if u is None:
                    dist["gate_without_unitary"] = dist.get("gate_without_unitary", 0) + 1
                elif "bad" in u:
                    dist["faulty_" + u["bad"]] = dist.get("faulty_" + u["bad"], 0) + 1
                else:
                    for f in ("layout_" + u["lay"], "dtype_" + u["dt"], "kind_" + u["k"], f"qubits_{u['nq']}", "cached" if u.get("cache") else "uncached"):
                        dist[f] = dist.get(f, 0) + 1
        elif k == "circ":
            how = st[4]
            for f in ["form_" + how.get("form", "text"), "nf_" + how.get("nf", "plain")] + [x for x in ("fresh", "share", "lazy", "stumble") if how.get(x)]:
                dist[f] = dist.get(f, 0) + 1
            if st[2].get("override"):
                dist["override"] = dist.get("override", 0) + 1
        elif k == "run":
            dist["backend_" + st[2]] = dist.get("backend_" + st[2], 0) + 1
            dist["order_" + st[3]] = dist.get("order_" + st[3], 0) + 1
        elif k in ("pass", "rebuild"):
            dist[f"{k}_{st[3]}"] = dist.get(f"{k}_{st[3]}", 0) + 1
        elif k == "copy":
            for f in [x for x in ("params", "u") if st[4].get(x) is not None]:
                dist["copy_new_" + f] = dist.get("copy_new_" + f, 0) + 1


def shrink(steps, budget=30):
    """drop steps while the session still fails (ids that vanish make a session ill-formed: such candidates are skipped)"""
    cur = list(steps)
    i = len(cur) - 1
    while i >= 0 and budget > 0:
        if cur[i][0].startswith("fail"):  # what a failing call leaves behind in the process cannot be undone: keep it
            i -= 1
            continue
        cand = cur[:i] + cur[i + 1:]
        budget -= 1
        try:
            st, s = run_session(cand)
        except Exception:
            st = "error"
        if st == "fail" and not any("of a session of valid steps raised KeyError" in d for _i, d in s.failures):
            cur = cand
        i -= 1
    return cur


def detail_of(steps, s):
    i, d = s.failures[0]
    txt = ""
    st = steps[min(i, len(steps) - 1)]
    if st[0] == "run":
        for t in steps:
            if t[0] == "circ" and t[1] == st[1].rstrip("0123456789") or t[0] == "circ" and t[1] == st[1]:
                txt = " | program: " + to_text(t[2]).replace("\n", " / ")[:600] + (f" override={t[2]['override']}" if t[2].get("override") else "")
                break
    kinds = " ".join(x[0] for x in steps)
    return f"step {i} ({st[0]}): {d} | session: {kinds}{txt}"


def run(seed: int, n: int, driver: str = DEFAULT_DRIVER, thorough: bool = False) -> dict:
    rng = random.Random(seed * 7919 + (1 if thorough else 0))
    oracle = {o: {"cases": 0, "failures": []} for o in ORACLES}
    dist, samples, distinct = {}, [], set()
    tainted = None
    jobs = sweep_cases(rng, thorough)
    dist["sweep_sessions"] = len(jobs)
    themes = [t for t, w in WEIGHTS for _ in range(w)]
    for _ in range(n):
        t = rng.choice(themes)
        jobs.append((t, MAKERS[t]))
    for theme, make in jobs:
        sub = random.Random(rng.getrandbits(64))
        try:
            steps = make(sub)
        except Invalid:
            dist["generator_gave_up"] = dist.get("generator_gave_up", 0) + 1
            continue
        case = {"theme": theme, "steps": steps}
        status, s = run_session(steps)
        if status == "invalid":
            dist["invalid_session"] = dist.get("invalid_session", 0) + 1
            continue
        o = oracle["traps_" + theme]
        o["cases"] += 1
        distinct.add(json.dumps(steps, sort_keys=True))
        features(steps, dist)
        if status == "ok":
            for k, v in s.notes.items():
                dist[k] = dist.get(k, 0) + v
            dist["judged_runs"] = dist.get("judged_runs", 0) + s.judged
            dist[f"session_len_{min(len(steps), 16) // 4 * 4}+"] = dist.get(f"session_len_{min(len(steps), 16) // 4 * 4}+", 0) + 1
            if len(samples) < 4 and sub.random() < 0.05:
                samples.append(case)
            continue
        if len(o["failures"]) >= 20:
            o["failures"].append(None)
            o["failures"].pop()
            dist["failures_not_listed"] = dist.get("failures_not_listed", 0) + 1
            continue
        if status == "hang":
            o["failures"].append({"case": case, "detail": "a session of valid steps hangs"})
            continue
        if status == "error":
            o["failures"].append({"case": case, "detail": s})
            continue
        # a session with a failing call is never shrunk: what that call left behind in this process would make every
        # shortened candidate fail too
        small = shrink(steps) if len(o["failures"]) < 5 and tainted is None and not any(x[0].startswith("fail") for x in steps) else steps
        st2, s2 = run_session(small)
        if st2 != "fail":
            small, s2 = steps, s
        case = {"theme": theme, "steps": small}
        has_fail = any(x[0].startswith("fail") for x in small)
        if has_fail and tainted is None:
            tainted = small
        elif not has_fail and tainted is not None:
            # an earlier session with a failing call went wrong in this process: this one may only fail after it
            case["prelude"] = tainted
        o["failures"].append({"case": case, "detail": detail_of(small, s2) + (" | after the session in `prelude`" if "prelude" in case else "")})
    if not samples and jobs:
        samples.append({"theme": "numeric_form", "steps": s_numeric(random.Random(seed))})
    return {"corr": {}, "oracle": oracle, "distribution": dist, "samples": samples, "nontrivial": len(distinct)}


def replay(case: dict, driver: str = DEFAULT_DRIVER) -> dict:
    if case.get("prelude"):
        run_session(case["prelude"])
    status, s = run_session(case["steps"])
    if status == "ok":
        return {"oracle_ok": True, "detail": f"{s.judged} judged reads agree with the reference", "model": None, "impl": None}
    if status == "fail":
        return {"oracle_ok": False, "detail": detail_of(case["steps"], s), "model": None, "impl": None}
    if status == "invalid":
        return {"oracle_ok": None, "detail": f"not a valid session: {s}", "model": None, "impl": None}
    return {"oracle_ok": False, "detail": "a session of valid steps hangs" if status == "hang" else str(s), "model": None, "impl": None}


def main(argv=None):
    ap = argparse.ArgumentParser()
    ap.add_argument("--seed", type=int, default=0)
    ap.add_argument("--count", type=int, default=300)
    ap.add_argument("--thorough", action="store_true")
    a = ap.parse_args(argv)
    r = run(a.seed, a.count, thorough=a.thorough)
    print(json.dumps({k: (v["cases"], len(v["failures"])) for k, v in r["oracle"].items()}))
    for k, v in r["oracle"].items():
        for f in v["failures"][:3]:
            print(k, f["detail"][:1500])
    print(json.dumps(r["distribution"], sort_keys=True))
    return 1 if any(v["failures"] for v in r["oracle"].values()) else 0


if __name__ == "__main__":
    sys.exit(main())
