#!/venv/bin/python
"""Differential test for property C10 (the passes commute up to meaning, are idempotent, keep circuits legal; the parser's
expand flags are the passes applied to the plain parse).

    PYTHONPATH=/verif /venv/bin/python /verif/harness/agents/c10_diff.py [--driver PATH] [--seed 0] [--n 600] [--thorough]

Model: `JaqalModel/Model/Passes.lean` (ops in `PassesOps.lean`).  Programs come from the generators of `pass2_diff`
(lets, alias chains, macros, loops, subcircuits with counts, parameters shadowing lets / registers) and `pass1_diff`.

corr   (model vs implementation)
  apply_seq     a random sequence of 1–8 passes (repetitions allowed; every `let` pass carries its own override
                dictionary) applied to the parsed circuit: the whole dump after EVERY step (`"trace": true`), and the
                plain `applySeq` answer (final circuit / class of the first error)
  parse_flags   `parse_jaqal_string(text, override_dict, expand_macro, expand_let, expand_let_map)` for flag combinations:
                whole dump / error class (model fed with the S-expression of the real `parse_to_sexpression`)
  pipelines     the pass orders read out of the Python ASTs (`c10_extract.py`) vs the model's table
oracle (the property on the real code alone)
  commute_meaning     two random orders of the same multiset of passes (one override dictionary per case), both applicable
                      ⇒ the same implementation meaning after completing both with the passes they lack (expand_subcircuits
                      iff it is in the multiset, fill_in_let(ov), expand_macros).  Side condition for fill_in_map, which
                      bakes the DECLARED value of every let inside a qubit reference into the reference: either
                      fill_in_let precedes fill_in_map in both orders, or ov overrides no let that occurs inside a qubit
                      reference / register of the circuit or of its macro expansion.
  commute_pairwise    the same for every two-element multiset {P, Q}: P(Q(c)) vs Q(P(c))
  idempotent          P(P(c)) == P(c) (real `==`, both directions) and equal dumps, at every step of the sequence; for
                      fill_in_let also with a second, different, override dictionary
  flags_equal_passes  every flag combination × {no override, override} vs the passes applied by hand to the plain parse:
                      same error class, or real `==` and equal dumps
  legal_after_pass    after every prefix of the sequence: `generate_jaqal_program` succeeds, the text parses with the same
                      gate set, the re-parsed circuit has the same implementation meaning, and is `==` whenever the
                      result has no directly nested same-kind block (results covered by the next oracle excluded)
  no_illegal_nesting_after_pass   no result has a subcircuit block directly inside a parallel block or a subcircuit
                      (failed before `7f310a6`: the builder accepted a call, inside `< >` or `subcircuit { }`, of a macro
                      whose body holds a subcircuit, and expand_macros inlined it)
  no_parameter_capture_after_pass   no macro body of a result refers to a register OBJECT named like a parameter of that macro
                      (failed before `8822e40`: `register r[4]; map a r[0:4:2]; macro M r { X a[1] }; M 0` — fill_in_map
                      wrote `r[2]` into the body, which the generated text `macro M r { X r[2] }` reads as the parameter)
  commute_subs_macros_when_a_macro_is_named_prepare_all   (no gate set) expand_subcircuits;expand_macros vs the other order
                      on the program with its first macro renamed `prepare_all`: both applicable ⇒ same meaning, otherwise
                      the refusal is a JaqalError (failed before `98a447d`: the inserted bounding statement was looked
                      up BY NAME in the macro table and replaced by the macro's body)
  plain_parse_round_trips   C01 on the plain parse (`c == parse(gen(c))`, same meaning): precondition of legal_after_pass
                      (failed before the C01 repair for `map b r[0:t:0]`: the generator dropped a literal zero step)
  no_subcircuit_left_after_subs_and_macros   after any sequence that holds both expand_subcircuits and expand_macros no
                      subcircuit block survives in the REAL result objects: body, macro table, and `gate_def.body` of any
                      remaining macro call (a call statement keeps pointing at the Macro object it was built with)
  only_jaqal_errors   a pass applied to a parser-made circuit (or to the result of earlier passes) raises nothing but JaqalError

Streams: 75 % general programs (pass2_diff / pass1_diff generators); 25 % `subcall`: programs of pass1_diff's generator in
which a macro whose body holds a subcircuit block is CALLED from the body, directly or through another macro (at top level,
in a loop, in a sequential block), each run through a fixed battery — [subs, macros], [macros, subs], [subs, macros, macros],
[subs, let, macros], [macros(preserve), subs] (all must agree and leave no subcircuit block) and every pair of distinct
passes in both orders — besides the random sequence and the flags.  The completion that makes two orders comparable only
adds passes the orders LACK (never expand_subcircuits, expand_macros only if absent), so a block or a call one order leaves
behind is not papered over.

Exit status 0 iff no disagreement and no oracle failure.
"""
import argparse
import json
import random
import signal
import sys
from collections import Counter

DEFAULT_DRIVER = "/verif/lean/.lake/build/bin/jaqal-model"
KINDS = ["let", "macros", "subs", "map"]
# (expand_macro, expand_let, expand_let_map, with override dictionary)
ALL_COMBOS = [[em, el, elm, wo] for em in (False, True) for el in (False, True) for elm in (False, True) for wo in (False, True)]


def _imports():
    global P1, P2, C10X, dump, GATES, NATIVES_JSON, parse_jaqal_string, parse_to_sexpression, generate_jaqal_program
    global expand_macros, fill_in_let, fill_in_map, expand_subcircuits, JaqalError, T, Constant
    global BlockStatement, LoopStatement, GateStatement, Macro
    from harness import timeouts as T
    from harness.agents import pass2_diff as P2
    P2._imports()
    P1 = P2.P1
    from harness.agents import c10_extract as C10X
    from harness import dump
    from harness.gates import GATES
    from jaqalpaq.parser import parse_jaqal_string
    from jaqalpaq.parser.parser import parse_to_sexpression
    from jaqalpaq.generator import generate_jaqal_program
    from jaqalpaq.core.algorithm import expand_macros, fill_in_let, expand_subcircuits
    from jaqalpaq.core.algorithm.fill_in_map import fill_in_map
    from jaqalpaq.core.constant import Constant
    from jaqalpaq.core.block import BlockStatement, LoopStatement
    from jaqalpaq.core.gate import GateStatement
    from jaqalpaq.core.macro import Macro
    from jaqalpaq.error import JaqalError
    NATIVES_JSON = [dump.gatedef(g) for g in GATES.values()]


class _Timeout(Exception):
    pass


def _with_alarm(f):
    """run f() under the shared alarm budget; a timeout is reported as the pseudo-class "hang" """
    def on_alarm(_s, _f):
        raise _Timeout()
    try:
        old = signal.signal(signal.SIGALRM, on_alarm)
    except ValueError:
        return f()
    signal.alarm(T.limit())
    try:
        return f()
    except _Timeout:
        T.saw_hang()
        return {"err": "hang"}
    finally:
        signal.alarm(0)
        signal.signal(signal.SIGALRM, old)


# ------------------------------------------------------------------------------------------------ cases

def declared_lets(text):
    out = {}
    for line in text.split("\n"):
        w = line.split()
        if len(w) == 3 and w[0] == "let":
            try:
                out[w[1]] = int(w[2])
            except ValueError:
                try:
                    out[w[1]] = float(w[2])
                except ValueError:
                    pass
    return out


def gen_ov(rng, lets, p_any=0.75):
    ov = []
    if lets and rng.random() < p_any:
        for l, v in lets.items():
            if rng.random() < 0.5:
                c = rng.random()
                if c < 0.3 and isinstance(v, int):
                    nv = v + rng.choice([1, 1, 2, -1])
                elif c < 0.45:
                    nv = float(v) if isinstance(v, int) else v
                elif c < 0.6:
                    nv = v
                else:
                    nv = rng.choice(P2.OV_VALUES)
                ov.append([l, nv])
    if rng.random() < 0.03:
        ov.append(["zz_undeclared", 3])
    return ov


def gen_pass(rng, lets, ov=None):
    k = rng.choice(KINDS)
    if k == "let":
        return ["let", gen_ov(rng, lets) if ov is None else ov]
    if k == "macros":
        return ["macros", rng.random() < 0.4]
    return [k]


def _p2_case(rng, idx, thorough):
    while True:
        try:
            return P2.gen_case(rng, idx, thorough)
        except ValueError:      # pass2_diff's generator: a "wild" zero step with a negative stop
            continue


def _has_sub(s):
    if isinstance(s, BlockStatement):
        return s.subcircuit or any(_has_sub(x) for x in s.statements)
    if isinstance(s, LoopStatement):
        return _has_sub(s.statements)
    return False


def _calls(s, acc):
    if isinstance(s, GateStatement):
        if isinstance(s.gate_def, Macro):
            acc.add(s.name)
    elif isinstance(s, LoopStatement):
        _calls(s.statements, acc)
    else:
        for x in s.statements:
            _calls(x, acc)
    return acc


def subcall_kind(c):
    """"direct": a macro whose body holds a subcircuit block is called from the body; "via": a macro calling such a macro
    is called from the body; None otherwise"""
    subm = {m.name for m in c.macros.values() if _has_sub(m.body)}
    if not subm:
        return None
    top = _calls(c.body, set())
    via = {m.name for m in c.macros.values() if _calls(m.body, set()) & subm}
    if top & via:
        return "via"
    if top & subm:
        return "direct"
    return None


SUBCALL_FALLBACK = {
    "direct": "let k 2\nregister r[3]\nmacro A x { X x; subcircuit k { Y x; CX x r[0] } }\nA r[1]\nloop k { A r[2] }\n{ A r[1]; Z r[0] }\n",
    "via": "let k 2\nregister r[3]\nmacro A x { X x; subcircuit k { Y x; CX x r[0] } }\nmacro B y { A y; loop 2 { A y } }\nB r[1]\nloop k { B r[2] }\n{ A r[1]; B r[2] }\n",
}


def _subcall_program(rng, idx, thorough, want):
    """a program of pass1_diff's generator in which a macro holding a subcircuit is called from the body (`want` =
    "direct") or through another macro (`want` = "via"); rejection sampling, a fixed program if nothing turns up"""
    for _ in range(400):
        base = P1.gen_case(rng, idx, thorough)
        try:
            c = parse(base["text"], base["mode"])
        except Exception:  # noqa
            continue
        k = subcall_kind(c)
        if k == want or (want == "direct" and k == "via"):
            return base["text"], base["mode"]
    return SUBCALL_FALLBACK[want], "gates"


def gen_case(rng, idx, thorough):
    if rng.random() < 0.25:
        want = "via" if rng.random() < 0.4 else "direct"
        text, mode = _subcall_program(rng, idx, thorough, want)
        lets = declared_lets(text)
        ov = gen_ov(rng, lets, 0.6)
        passes = [gen_pass(rng, lets) for _ in range(rng.randrange(1, 5))]
        multiset = [gen_pass(rng, lets, ov) for _ in range(rng.randrange(2, 5))]
        return {"id": idx, "text": text, "mode": mode, "src": "subcall:" + want, "passes": passes, "ov": ov,
                "multiset": multiset, "perm_seed": rng.randrange(1 << 30), "ov2": gen_ov(rng, lets, 1.0),
                "flag_combos": (ALL_COMBOS if thorough else rng.sample(ALL_COMBOS, 4))}
    if rng.random() < 0.8:
        base = _p2_case(rng, idx, thorough)
        text, mode = base["text"], base["mode"]
        src = "pass2"
    else:
        text, mode, src = None, None, "pass1"
        base = P1.gen_case(rng, idx, thorough)
        if isinstance(base, dict) and "text" in base:
            text, mode = base["text"], base.get("mode", "gates")
        if text is None:
            base = _p2_case(rng, idx, thorough)
            text, mode, src = base["text"], base["mode"], "pass2"
    lets = declared_lets(text)
    ov = gen_ov(rng, lets, 0.85)
    passes = [gen_pass(rng, lets) for _ in range(rng.randrange(1, 9))]
    multiset = [gen_pass(rng, lets, ov) for _ in range(rng.randrange(2, 7))]
    return {"id": idx, "text": text, "mode": mode, "src": src, "passes": passes, "ov": ov, "multiset": multiset,
            "perm_seed": rng.randrange(1 << 30), "ov2": gen_ov(rng, lets, 1.0),
            "flag_combos": (ALL_COMBOS if thorough else rng.sample(ALL_COMBOS, 4))}


def gen_cases(seed, n, thorough):
    rng = random.Random(seed)
    return [gen_case(rng, i, thorough) for i in range(n)]


# ------------------------------------------------------------------------------------------------ the real code

def parse(text, mode, **kw):
    return parse_jaqal_string(text, inject_pulses=GATES if mode == "gates" else None, autoload_pulses=False, **kw)


def real_apply(p, c):
    k = p[0]
    if k == "let":
        return fill_in_let(c, override_dict={n: v for n, v in p[1]})
    if k == "macros":
        return expand_macros(c, preserve_definitions=bool(p[1]))
    if k == "subs":
        return expand_subcircuits(c)
    if k == "map":
        return fill_in_map(c)
    raise KeyError(k)


def pass_json(p):
    if p[0] == "let":
        return ["let", [[n, dump.num(v)] for n, v in p[1]]]
    if p[0] == "macros":
        return ["macros", bool(p[1])]
    return [p[0]]


def err_class(e):
    if isinstance(e, RecursionError):
        return "RecursionError"
    return type(e).__name__


def try_apply(p, c):
    """(circuit | None, error class | None)"""
    def go():
        try:
            return {"ok": real_apply(p, c)}
        except _Timeout:
            raise
        except Exception as e:  # noqa
            return {"err": err_class(e)}
    r = _with_alarm(go)
    return r.get("ok"), r.get("err")


def apply_all(ps, c):
    for p in ps:
        c, e = try_apply(p, c)
        if e is not None:
            return None, e
    return c, None


def cdump(c):
    d, _ = P2.strip(dump.circuit(c))
    return P2.canon(d)


def dump_outcome(c, e):
    if e is not None:
        return {"err": e}
    try:
        return {"ok": cdump(c)}
    except dump.Undumpable:
        return {"err": "Undumpable"}


def completed_meaning(c, ov, spell, expand=True):
    """implementation meaning of c completed with the passes it may LACK: fill_in_let(ov) always (a no-op on a let-free
    circuit), expand_macros only when `expand` (the compared orders do not contain it), expand_subcircuits never (either
    both compared orders contain it or neither does; re-applying it would mask a subcircuit block an order left behind)"""
    try:
        c = fill_in_let(c, override_dict={n: v for n, v in ov})
        if expand:
            c = expand_macros(c)
        return ("ok", json.dumps(P2.numeric(P2.norm(P2.impl_sem(c.body))), sort_keys=True))
    except Exception as e:  # noqa
        return ("error", err_class(e))


def baked_lets(c):
    """names of the lets fill_in_map would bake into qubit references: those inside a qubit reference or a register of
    the circuit or of its macro expansion"""
    out = set()

    def scan(cc):
        for _w, q, _m in P2.qubits_of(cc):
            out.update(P2.constants_in(q))
        for r in cc.registers.values():
            out.update(P2.constants_in(r))
    scan(c)
    try:
        scan(expand_macros(c))
    except Exception:  # noqa
        pass
    return out


def first_index(ps, kind):
    for i, p in enumerate(ps):
        if p[0] == kind:
            return i
    return None


def map_side_condition(order, ov, baked):
    """may fill_in_map in this order be followed (in the order or in the completion) by fill_in_let(ov)?"""
    im = first_index(order, "map")
    if im is None:
        return True
    il = first_index(order, "let")
    if il is not None and il < im:
        return True
    return not (set(n for n, _ in ov) & baked)


def has_same_kind_nesting(c):
    def st(s, top):
        if isinstance(s, LoopStatement):
            return st(s.statements, False)
        if isinstance(s, BlockStatement):
            for x in s.statements:
                if isinstance(x, BlockStatement) and not top and not x.subcircuit and x.parallel == s.parallel:
                    return True
                if st(x, False):
                    return True
        return False
    return st(c.body, True) or any(st(m.body, False) for m in c.macros.values())


def direct_illegal_nesting(c):
    """a subcircuit block written directly (not through a macro call) inside a parallel block or another subcircuit:
    the grammar / builder refuse the text of such a circuit"""
    def bad(s, inner):
        if isinstance(s, GateStatement):
            return False
        if isinstance(s, LoopStatement):
            return bad(s.statements, inner)
        if s.subcircuit and inner:
            return True
        return any(bad(x, inner or s.subcircuit or s.parallel) for x in s.statements)
    return bad(c.body, False) or any(bad(m.body, False) for m in c.macros.values())


def param_capture(c):
    """macro bodies in which a gate argument names a REGISTER OBJECT whose name is also a parameter of the macro: in the
    generated text that name denotes the parameter (only fill_in_map produces this: it writes the fundamental register in)"""
    from jaqalpaq.core.register import Register, NamedQubit
    out = []

    def st(s, names, mname):
        if isinstance(s, GateStatement):
            for v in s.parameters.values():
                base = v.alias_from if isinstance(v, NamedQubit) else v
                written = str(getattr(v, "name", "")).split("[")[0]      # the identifier the generator writes
                if isinstance(base, Register) and written in names:
                    out.append([mname, written])
        elif isinstance(s, LoopStatement):
            st(s.statements, names, mname)
        else:
            for x in s.statements:
                st(x, names, mname)
    for m in c.macros.values():
        st(m.body, {p.name for p in m.parameters}, m.name)
    return out


def has_top_nesting(c):
    """a sequential non-subcircuit block directly in the top-level block (spliced by the generator too)"""
    return any(isinstance(x, BlockStatement) and not x.subcircuit and not x.parallel for x in c.body.statements)


# ------------------------------------------------------------------------------------------------ driver

def run_driver(driver, reqs):
    return P2.run_driver(driver, reqs)


def canon_model(m):
    if isinstance(m, dict) and "ok" in m:
        return {"ok": P2.canon(m["ok"])}
    if isinstance(m, dict) and "steps" in m:
        return {"steps": [canon_model(x) for x in m["steps"]]}
    return m


# ------------------------------------------------------------------------------------------------ one case

class Acc:
    def __init__(self):
        self.corr = {k: {"cases": 0, "disagreements": []} for k in ("apply_seq", "apply_seq_trace", "parse_flags", "pipelines")}
        self.oracle = {k: {"cases": 0, "failures": []} for k in
                       ("commute_meaning", "commute_pairwise", "idempotent", "flags_equal_passes", "legal_after_pass",
                        "no_illegal_nesting_after_pass", "no_parameter_capture_after_pass", "plain_parse_round_trips",
                        "no_subcircuit_left_after_subs_and_macros",
                        "commute_subs_macros_when_a_macro_is_named_prepare_all", "only_jaqal_errors")}
        self.dist = Counter()
        self.samples = []
        self.nontrivial = set()
        self.reqs = []
        self.expect = []

    def check(self, name, ok, case, detail):
        self.oracle[name]["cases"] += 1
        if not ok:
            if len(self.oracle[name]["failures"]) < 20:
                self.oracle[name]["failures"].append({"case": case, "detail": detail})
            else:
                self.oracle[name]["more_failures"] = self.oracle[name].get("more_failures", 0) + 1

    def disagree(self, op, case, model, impl):
        if len(self.corr[op]["disagreements"]) < 20:
            self.corr[op]["disagreements"].append({"case": case, "model": model, "impl": impl})
        else:
            self.corr[op]["more_disagreements"] = self.corr[op].get("more_disagreements", 0) + 1


def slim(case, **extra):
    d = {k: case[k] for k in ("id", "text", "mode") if k in case}
    d.update(extra)
    return d


def oracle_commute(acc, case, c, baked):
    ms = case["multiset"]
    ov = case["ov"]
    rng = random.Random(case["perm_seed"])
    order2 = list(ms)
    rng.shuffle(order2)
    pairs = [("commute_meaning", ms, order2)]
    kinds = sorted(set(p[0] for p in ms))
    # every two-element sub-multiset of the kinds present (with the pass as written in the multiset)
    byk = {}
    for p in ms:
        byk.setdefault(p[0], p)
    for i in range(len(kinds)):
        for j in range(i + 1, len(kinds)):
            a, b = byk[kinds[i]], byk[kinds[j]]
            pairs.append(("commute_pairwise", [a, b], [b, a]))
    for name, o1, o2 in pairs:
        compare_orders(acc, name, case, c, o1, o2, ov, baked)


def compare_orders(acc, name, case, c, o1, o2, ov, baked):
    """two orders of the same passes from the same circuit: both applicable => same implementation meaning"""
    sub = slim(case, ov=ov, order1=o1, order2=o2)
    if not (map_side_condition(o1, ov, baked) and map_side_condition(o2, ov, baked)):
        # keep the case with the overrides restricted to the lets fill_in_map does not bake in
        ov_r = [[n, v] for n, v in ov if n not in baked]
        o1 = [["let", ov_r] if p[0] == "let" else p for p in o1]
        o2 = [["let", ov_r] if p[0] == "let" else p for p in o2]
        sub = slim(case, ov=ov_r, order1=o1, order2=o2)
        acc.dist[f"{name}:overrides restricted by the fill_in_map side condition"] += 1
        ov_use = ov_r
    else:
        ov_use = ov
    r1, e1 = apply_all(o1, c)
    r2, e2 = apply_all(o2, c)
    if e1 is not None or e2 is not None:
        acc.dist[f"{name}:not both applicable"] += 1
        if e1 is not None and e2 is not None:
            acc.dist[f"{name}:neither applicable"] += 1
        return
    spell = any(p[0] == "subs" for p in o1)
    expand = not any(p[0] == "macros" for p in o1)
    if spell and not expand:
        for o, r in ((o1, r1), (o2, r2)):
            check_no_subcircuit_left(acc, case, o, r)
    m1 = completed_meaning(r1, ov_use, spell, expand)
    m2 = completed_meaning(r2, ov_use, spell, expand)
    acc.dist[f"{name}:compared:{m1[0]}"] += 1
    if name == "commute_pairwise":
        acc.dist["pair:" + "+".join(sorted(p[0] for p in o1))] += 1
    acc.check(name, m1 == m2, sub, f"order1 -> {m1!r}"[:700] + f"  order2 -> {m2!r}"[:700])


def subcircuit_left(c):
    """where a subcircuit block survives in the REAL objects: the body — including the body of the definition object any
    macro call that remains THERE points to (`gate.gate_def`, which need not be the table's object of that name) — and
    the bodies of the macro table.  (Calls inside the table's bodies are not followed: expand_subcircuits rebuilds the
    Macro objects but leaves every call statement pointing at the object it was built with, so there a stale, unexpanded
    definition is reachable on the clean tree too; expand_macros looks macros up by name and never sees it.)"""
    seen = set()

    def st(s, where, follow=True):
        if isinstance(s, GateStatement):
            gd = s.gate_def
            if follow and isinstance(gd, Macro) and id(gd) not in seen:
                seen.add(id(gd))
                return st(gd.body, where + f" -> gate_def of the call {s.name}")
            return None
        if isinstance(s, LoopStatement):
            return st(s.statements, where, follow)
        if s.subcircuit:
            return where
        for x in s.statements:
            w = st(x, where, follow)
            if w:
                return w
        return None

    w = st(c.body, "body")
    if w:
        return w
    for m in c.macros.values():
        w = st(m.body, f"macro {m.name}", False)
        if w:
            return w
    return None


def check_no_subcircuit_left(acc, case, order, result):
    w = subcircuit_left(result)
    acc.check("no_subcircuit_left_after_subs_and_macros", w is None, slim(case, prefix=order),
              f"a subcircuit block survives in: {w}")


BATTERY = [[["subs"], ["macros", False]], [["macros", False], ["subs"]], [["subs"], ["macros", False], ["macros", False]],
           [["subs"], ["let", None], ["macros", False]], [["macros", True], ["subs"]]]


def oracle_battery(acc, case, c, baked):
    """the fixed battery of the `subcall` stream: short sequences around expand_subcircuits / expand_macros, and every
    ordered pair of distinct passes (both orders compared)"""
    ov = case["ov"]
    base = None
    for seq in BATTERY:
        seq = [["let", ov] if p[0] == "let" else p for p in seq]
        r, e = apply_all(seq, c)
        acc.dist["battery:" + "+".join(p[0] for p in seq) + ":" + ("ok" if e is None else e)] += 1
        if e is not None:
            acc.check("only_jaqal_errors", e == "JaqalError", slim(case, prefix=seq), f"raises {e}")
            continue
        check_no_subcircuit_left(acc, case, seq, r)
        if not map_side_condition(seq, ov, baked):
            continue
        # all five sequences fully expand: under the overrides (if any let pass is among them: the same ones) they agree
        m = completed_meaning(r, ov, True, False)
        if m[0] == "error":
            # fill_in_let(ov) of the completion is not applicable (e.g. to a body of the PRESERVED macro table)
            acc.dist["battery:completion not applicable:" + m[1]] += 1
            continue
        if base is None:
            base = (seq, m)
        else:
            acc.check("commute_meaning", m == base[1], slim(case, ov=ov, order1=base[0], order2=seq),
                      f"order1 -> {base[1]!r}"[:700] + f"  order2 -> {m!r}"[:700])
    kinds = [["let", ov], ["macros", False], ["subs"], ["map"]]
    for i in range(len(kinds)):
        for j in range(i + 1, len(kinds)):
            compare_orders(acc, "commute_pairwise", case, c, [kinds[i], kinds[j]], [kinds[j], kinds[i]], ov, baked)


def oracle_bounding_name(acc, case):
    """the program with its first macro renamed `prepare_all` (no gate set): since `98a447d` expand_subcircuits refuses a
    circuit in which a bounding name is a macro, so the two orders are either both applicable and agree, or the refusal
    is a JaqalError"""
    import re
    text2 = re.sub(r"\bM0\b", "prepare_all", case["text"])
    sub = slim(dict(case, text=text2), order1=[["subs"], ["macros", False]], order2=[["macros", True], ["subs"]], ov=[])
    try:
        c = parse(text2, case["mode"])
    except Exception:  # noqa
        return
    r1, e1 = apply_all(sub["order1"], c)
    r2, e2 = apply_all(sub["order2"], c)
    name = "commute_subs_macros_when_a_macro_is_named_prepare_all"
    if e1 is not None or e2 is not None:
        acc.dist["bounding name:refused"] += 1
        acc.check(name, e1 in (None, "JaqalError") and e2 in (None, "JaqalError"), sub, f"S;M raises {e1}, M;S raises {e2}")
        return
    m1, m2 = completed_meaning(r1, [], True, False), completed_meaning(r2, [], True, False)
    acc.check(name, m1 == m2, sub, f"S;M -> {m1!r}"[:600] + f"  M;S -> {m2!r}"[:600])


def oracle_idempotent(acc, case, p, before, after):
    sub = slim(case, **{"pass": p})
    variants = [p]
    if p[0] == "let":
        variants.append(["let", case["ov2"]])
    for q in variants:
        again, e = try_apply(q, after)
        if e is not None:
            acc.check("idempotent", False, dict(sub, second=q), f"second application raises {e}")
            continue
        eq = bool(again == after) and bool(after == again)
        same = cdump(again) == cdump(after)
        acc.check("idempotent", eq and same, dict(sub, second=q), f"==: {eq}, equal dumps: {same}")


def oracle_legal(acc, case, prefix, cp):
    sub = slim(case, prefix=prefix)
    mode = case["mode"]
    illegal = direct_illegal_nesting(cp)
    acc.check("no_illegal_nesting_after_pass", not illegal, sub,
              "the result has a subcircuit block directly inside a parallel block or another subcircuit (a macro whose body "
              "holds a subcircuit was called there and has been expanded): its generated text is rejected by the parser")
    if illegal:
        return
    if not case.get("plain_ok", True):
        acc.dist["legal:skipped, the plain parse itself does not round-trip (C01)"] += 1
        return
    cap = param_capture(cp)
    acc.check("no_parameter_capture_after_pass", not cap, sub,
              f"macro bodies refer to a register object named like one of the macro's parameters {cap}: in the generated text "
              "the name denotes the parameter")
    if cap:
        return
    try:
        t = generate_jaqal_program(cp)
    except Exception as e:  # noqa
        acc.check("legal_after_pass", False, sub, f"generator raises {type(e).__name__}: {e}")
        return
    try:
        c2 = parse(t, mode)
    except Exception as e:  # noqa
        acc.check("legal_after_pass", False, sub, f"generated text is rejected: {type(e).__name__}: {e}; text: {t!r}")
        return
    m1 = completed_meaning(cp, [], False)
    m2 = completed_meaning(c2, [], False)
    problems = []
    if m1 != m2:
        problems.append(f"meaning differs: {m1!r}"[:500] + f" vs {m2!r}"[:500])
    nest = has_same_kind_nesting(cp) or has_top_nesting(cp)
    acc.dist[f"legal:same_kind_nesting:{nest}"] += 1
    if not nest and not (bool(cp == c2) and bool(c2 == cp)):
        problems.append("P(c) != parse(gen(P(c)))")
    acc.check("legal_after_pass", not problems, sub, "; ".join(problems) + f"; text: {t!r}")


def oracle_flags(acc, case, c0_outcome, sxj, with_driver):
    """corr `parse_flags` and oracle `flags_equal_passes` on the flag combinations of the case (quick: 4 of the 16
    combinations of three flags × {no override, override} per case, thorough: all 16); one real parse serves both"""
    text, mode = case["text"], case["mode"]
    for em, el, elm, wo in case["flag_combos"]:
        ov = case["ov"] if wo else []
        od = {n: v for n, v in ov} if ov else None
        sub = slim(case, override=ov, expand_macro=em, expand_let=el, expand_let_map=elm)
        a, ea = None, None
        try:
            a = parse(text, mode, override_dict=od, expand_macro=em, expand_let=el, expand_let_map=elm)
        except Exception as e:  # noqa
            ea = err_class(e)
        if sxj is not None and with_driver:
            req = {"op": "parse_flags", "sx": sxj, "natives": NATIVES_JSON if mode == "gates" else None,
                   "expand_macro": em, "expand_let": el, "expand_let_map": elm,
                   "override": [[n, dump.num(v)] for n, v in ov]}
            acc.reqs.append(req)
            acc.expect.append(("parse_flags", sub, dump_outcome(a, ea)))
        hand = []
        if em:
            hand.append(["macros", True])
        if elm:
            hand += [["let", ov], ["map"]]
        elif el:
            hand.append(["let", ov])
        if "err" in c0_outcome:
            b, eb = None, c0_outcome["err"]
        else:
            b, eb = apply_all(hand, c0_outcome["ok"])
        if ea is not None or eb is not None:
            acc.check("flags_equal_passes", ea == eb, sub, f"flags: {ea}, by hand: {eb}")
            continue
        eq = bool(a == b) and bool(b == a)
        same = cdump(a) == cdump(b)
        acc.check("flags_equal_passes", eq and same, sub, f"==: {eq}, equal dumps: {same}")


def process(acc, case, with_driver):
    text, mode = case["text"], case["mode"]
    try:
        c = parse(text, mode)
        c0 = {"ok": c}
    except Exception as e:  # noqa
        c0 = {"err": err_class(e)}
        c = None
    acc.dist["parse:" + ("ok" if c is not None else c0["err"])] += 1
    # --- flags: corr + oracle
    try:
        sxj = dump.sexpr(parse_to_sexpression(text))
    except Exception:  # noqa
        sxj = None
    oracle_flags(acc, case, c0, sxj, with_driver)
    if c is None:
        return
    try:
        d0 = dump.circuit(c)
        d0.pop("keys", None)
    except dump.Undumpable:
        acc.dist["undumpable"] += 1
        return
    # --- C01 on the plain parse (not this property's business, but a precondition of `legal_after_pass`)
    plain_ok = True
    try:
        t0 = generate_jaqal_program(c)
        c00 = parse(t0, mode)
        plain_ok = bool(c == c00) and completed_meaning(c, [], False) == completed_meaning(c00, [], False)
        why = f"generated: {t0!r}"
    except Exception as e:  # noqa
        plain_ok, why = False, f"{type(e).__name__}: {e}"
    acc.check("plain_parse_round_trips", plain_ok, slim(case), why)
    case = dict(case, plain_ok=plain_ok)
    # --- the sequence, step by step
    steps = []
    cur = c
    for i, p in enumerate(case["passes"]):
        nxt, e = try_apply(p, cur)
        steps.append(dump_outcome(nxt, e))
        acc.dist[f"pass:{p[0]}:" + ("ok" if e is None else e)] += 1
        if e is not None:
            acc.check("only_jaqal_errors", e == "JaqalError", slim(case, prefix=case["passes"][: i + 1]), f"raises {e}")
            break
        acc.oracle["only_jaqal_errors"]["cases"] += 1
        oracle_idempotent(acc, case, p, cur, nxt)
        oracle_legal(acc, case, case["passes"][: i + 1], nxt)
        kinds_so_far = {q[0] for q in case["passes"][: i + 1]}
        if "subs" in kinds_so_far and "macros" in kinds_so_far:
            check_no_subcircuit_left(acc, case, case["passes"][: i + 1], nxt)
        cur = nxt
    acc.dist[f"sequence length {len(case['passes'])}"] += 1
    acc.dist[f"steps applied {sum(1 for s in steps if 'ok' in s)}"] += 1
    if with_driver:
        pj = [pass_json(p) for p in case["passes"]]
        acc.reqs.append({"op": "apply_seq", "circuit": d0, "passes": pj, "trace": True})
        acc.expect.append(("apply_seq_trace", slim(case, passes=case["passes"]), {"steps": steps}))
        acc.reqs.append({"op": "apply_seq", "circuit": d0, "passes": pj})
        acc.expect.append(("apply_seq", slim(case, passes=case["passes"]), steps[-1]))
    # --- commutation
    baked = baked_lets(c)
    oracle_commute(acc, case, c, baked)
    if str(case.get("src", "")).startswith("subcall"):
        acc.dist["stream:" + case["src"]] += 1
        acc.dist["stream:subcall kind found:" + str(subcall_kind(c))] += 1
        oracle_battery(acc, case, c, baked)
    if mode == "nogates" and "macro M0 " in text and "subcircuit" in text:
        oracle_bounding_name(acc, case)
    feat = (tuple(p[0] for p in case["passes"]), text)
    acc.nontrivial.add(json.dumps(feat))
    if len(acc.samples) < 4:
        acc.samples.append(slim(case, passes=case["passes"], multiset=case["multiset"], ov=case["ov"]))


def flush(acc, driver):
    if not acc.reqs:
        return
    answers = run_driver(driver, acc.reqs)
    for (op, case, impl), model in zip(acc.expect, answers):
        acc.corr[op]["cases"] += 1
        m = canon_model(model)
        if m != impl:
            acc.disagree(op, case, m, impl)
    acc.reqs, acc.expect = [], []


def run(seed: int, n: int, driver: str = DEFAULT_DRIVER, thorough: bool = False) -> dict:
    _imports()
    acc = Acc()
    ncases = n * (4 if thorough else 1)
    cases = gen_cases(seed, ncases, thorough)
    for case in cases:
        process(acc, case, driver is not None)
        if len(acc.reqs) >= 600:
            flush(acc, driver)
    if driver is not None:
        flush(acc, driver)
        acc.corr["pipelines"]["cases"] = len(C10X.table())
        acc.corr["pipelines"]["disagreements"] = C10X.check(driver)
    return {"corr": acc.corr, "oracle": acc.oracle, "distribution": dict(sorted(acc.dist.items())),
            "samples": acc.samples, "nontrivial": len(acc.nontrivial)}


def replay(case: dict, driver: str = DEFAULT_DRIVER) -> dict:
    """re-run ONE case from a disagreement / failure entry"""
    _imports()
    acc = Acc()
    text, mode = case["text"], case["mode"]
    model, impl, detail = None, None, ""
    if "site" in case:
        d = C10X.check(driver)
        return {"model": C10X.driver_table(driver), "impl": C10X.table(), "oracle_ok": None if not d else False, "detail": json.dumps(d)}
    if "expand_macro" in case:
        ov = case.get("override", [])
        od = {n: v for n, v in ov} if ov else None
        flags = dict(expand_macro=case["expand_macro"], expand_let=case["expand_let"], expand_let_map=case["expand_let_map"])
        try:
            impl = dump_outcome(parse(text, mode, override_dict=od, **flags), None)
        except Exception as e:  # noqa
            impl = {"err": err_class(e)}
        try:
            sxj = dump.sexpr(parse_to_sexpression(text))
            req = dict(op="parse_flags", sx=sxj, natives=NATIVES_JSON if mode == "gates" else None,
                       override=[[n, dump.num(v)] for n, v in ov], **flags)
            model = canon_model(run_driver(driver, [req])[0])
        except Exception as e:  # noqa
            detail = f"no S-expression: {e}"
        full = dict(case, ov=ov, id=case.get("id", 0),
                    flag_combos=[[case["expand_macro"], case["expand_let"], case["expand_let_map"], bool(ov)]])
        try:
            c0 = {"ok": parse(text, mode)}
        except Exception as e:  # noqa
            c0 = {"err": err_class(e)}
        oracle_flags(acc, full, c0, None, False)
    else:
        c = parse(text, mode)
        if "order1" in case:
            full = dict(case, multiset=case["order1"], perm_seed=0)
            ov = case.get("ov", [])
            r1, e1 = apply_all(case["order1"], c)
            r2, e2 = apply_all(case["order2"], c)
            if e1 is None and e2 is None:
                spell = any(p[0] == "subs" for p in case["order1"])
                expand = not any(p[0] == "macros" for p in case["order1"])
                m1, m2 = completed_meaning(r1, ov, spell, expand), completed_meaning(r2, ov, spell, expand)
                acc.check("commute_meaning", m1 == m2, case, f"{m1!r} vs {m2!r}"[:1500])
            else:
                detail = f"not both applicable: {e1}, {e2}"
        else:
            passes = case.get("passes") or case.get("prefix") or ([case["pass"]] if "pass" in case else [])
            d0 = dump.circuit(c)
            d0.pop("keys", None)
            steps, cur = [], c
            for i, p in enumerate(passes):
                nxt, e = try_apply(p, cur)
                steps.append(dump_outcome(nxt, e))
                if e is not None:
                    acc.check("only_jaqal_errors", e == "JaqalError", case, f"raises {e}")
                    break
                full = dict(case, ov2=case.get("ov2", []))
                oracle_idempotent(acc, full, p, cur, nxt)
                oracle_legal(acc, case, passes[: i + 1], nxt)
                ks = {q[0] for q in passes[: i + 1]}
                if "subs" in ks and "macros" in ks:
                    check_no_subcircuit_left(acc, case, passes[: i + 1], nxt)
                cur = nxt
            impl = {"steps": steps}
            model = canon_model(run_driver(driver, [{"op": "apply_seq", "circuit": d0, "passes": [pass_json(p) for p in passes],
                                                     "trace": True}])[0])
    fails = [f for o in acc.oracle.values() for f in o["failures"]]
    ncases = sum(o["cases"] for o in acc.oracle.values())
    return {"model": model, "impl": impl, "oracle_ok": (not fails) if ncases else None,
            "detail": detail + "; ".join(f["detail"] for f in fails)[:3000]}


def _trunc(l, k=20):
    return l[:k]


def main():
    ap = argparse.ArgumentParser()
    ap.add_argument("--driver", default=DEFAULT_DRIVER)
    ap.add_argument("--seed", type=int, default=0)
    ap.add_argument("--n", type=int, default=600)
    ap.add_argument("--thorough", action="store_true")
    ap.add_argument("--no-driver", action="store_true")
    ap.add_argument("--json", action="store_true")
    a = ap.parse_args()
    res = run(a.seed, a.n, None if a.no_driver else a.driver, a.thorough)
    bad = 0
    for op, r in res["corr"].items():
        nd = len(r["disagreements"]) + r.get("more_disagreements", 0)
        bad += nd
        print(f"corr   {op:22s} cases {r['cases']:6d}  disagreements {nd}")
    for k, r in res["oracle"].items():
        nf = len(r["failures"]) + r.get("more_failures", 0)
        bad += nf
        print(f"oracle {k:22s} cases {r['cases']:6d}  failures {nf}")
    print("nontrivial", res["nontrivial"])
    if a.json:
        print(json.dumps(res, indent=1, default=str))
    else:
        for k, v in res["distribution"].items():
            print(f"  {k}: {v}")
        for op, r in res["corr"].items():
            for d in r["disagreements"][:3]:
                print("DISAGREEMENT", op, json.dumps(d, default=str)[:3000])
        for k, r in res["oracle"].items():
            for f in r["failures"][:4]:
                print("FAILURE", k, json.dumps(f, default=str)[:3000])
    sys.exit(1 if bad else 0)


if __name__ == "__main__":
    main()
