#!/venv/bin/python
"""Differential test: Lean model of the circuit builder (JaqalModel/Model/Builder.lean, BuilderOps.lean) vs the real
`jaqalpaq.core.circuitbuilder.build` / `jaqalpaq.parser.parse_jaqal_string`, plus direct oracles of C07 and C14 on
the real code alone.

    PYTHONPATH=/verif /venv/bin/python /verif/harness/agents/build_diff.py [--driver PATH] [--seed 0] [--n 1500] [--thorough]

The driver is the line-protocol executable built by `lake build jaqal-model`; ops used: `build`, `build_nomemo`,
`parse_build` (Jaqal.Builder.ops must be in Main.lean's `allOps`).  Exit status 0 iff no disagreement and no oracle failure.

Importable: `run(seed, n, driver, thorough) -> dict`, `replay(case, driver) -> dict` (see AGENT_CONVENTIONS.md).

Cases
* generated Jaqal programs (every name-collision pattern, textually identical statements in several scopes, boundary
  indices, slices of every form, let-valued sizes/bounds/indices, undefined and duplicate names, unknown gates, wrong
  arity and kinds, subcircuits nested legally and illegally, branches, 0/1/2 registers), parsed with
  `parse_to_sexpression`, built with and without the injected gate set `GATES`, and with `autoload_pulses=True`
  against fake gate modules placed in `sys.modules`;
* hand-made S-expressions: a fixed list of wrong shapes plus random mutations of parsed programs.

Oracles (the properties on the real code alone): `C07_context_free` (a statement / macro built alone after the same
header is the object it is inside the whole program; numbers compared by value), `C07_memo_transparent` (the real builder
with its memo table disabled returns the same circuit), `C14_refs_valid` (independent re-check of every accepted program:
literal indices and slices in range, sources are registers, arity and kinds fit, definitions known, names distinct, one
register) — these three on generated program TEXTS; the `_handmade_sx` variants run the same checks on hand-made
S-expressions that the model handles (no known failure: pulse definitions cannot be loaded after the first gate or
macro, the memo table is reset on every pulse load and types its numbers); `C16_error_classes`: building a program text
fails, if it fails, with JaqalError or ImportError (an `Undumpable` result counts as a failure too).

The model answers `Unmodelled:<why>` on inputs that would make the Python build an object the IR cannot hold; on those
the script checks that the Python raised or produced something `dump.circuit` cannot dump, and tabulates what it did.
"""
import argparse
import copy
import json
import random
import subprocess
import sys
import types

sys.path.insert(0, __import__("os").path.dirname(__import__("os").path.dirname(__import__("os").path.dirname(__import__("os").path.abspath(__file__)))))

from harness import dump  # noqa: E402
from harness.gates import GATES  # noqa: E402

from jaqalpaq.core import GateDefinition, Parameter, ParamType  # noqa: E402
from jaqalpaq.core.circuitbuilder import build as py_build  # noqa: E402
from jaqalpaq.core.constant import Constant  # noqa: E402
from jaqalpaq.core.gate import GateStatement  # noqa: E402
from jaqalpaq.core.block import BlockStatement, LoopStatement  # noqa: E402
from jaqalpaq.core.macro import Macro  # noqa: E402
from jaqalpaq.core.parameter import AnnotatedValue  # noqa: E402
from jaqalpaq.core.register import Register, NamedQubit  # noqa: E402
from jaqalpaq.error import JaqalError  # noqa: E402
from jaqalpaq.parser import parse_jaqal_string  # noqa: E402
from jaqalpaq.parser.parser import parse_to_sexpression  # noqa: E402

DEFAULT_DRIVER = "/verif/lean/.lake/build/bin/jaqal-model"

# ---------------------------------------------------------------------------------------------------------------
# fake gate modules for autoload_pulses=True

Q, F, I, R = ParamType.QUBIT, ParamType.FLOAT, ParamType.INT, ParamType.REGISTER
MOD_GATES = {
    "bdm.a": [GateDefinition("X", [Parameter("q", Q)]), GateDefinition("U", [Parameter("q", Q), Parameter("t", F)]),
              GateDefinition("W", [Parameter("q", Q)])],
    "bdm.b": [GateDefinition("X", [Parameter("q", Q), Parameter("k", I)]), GateDefinition("V", [Parameter("r", R)])],
}


def install_modules():
    for name, gates in MOD_GATES.items():
        m = types.ModuleType(name)
        m.jaqal_gates = types.SimpleNamespace(ALL_GATES={g.name: g for g in gates})
        sys.modules[name] = m


NATIVES_JSON = [dump.gatedef(g) for g in GATES.values()]
IMPORTS_JSON = {k: [dump.gatedef(g) for g in v] for k, v in MOD_GATES.items()}

# ---------------------------------------------------------------------------------------------------------------
# program generator

NAMES = ["a", "b", "r", "q", "n", "foo", "g", "p0", "array_item", "__in_context_parallel__", "x", "k"]
GATE_NAMES = ["g", "h", "foo", "X", "CX", "P", "PF", "U", "m1", "m2", "array_item", "a"]
INTS = [-1, 0, 1, 2, 3, 4, 5]
FLOATS = ["1.0", "0.5", "-0.0", "2.5", "3.0", "1e0", "-1.0"]


class Gen:
    """Random Jaqal programs. `v` (per program) is the probability that a choice is made validly (a defined name of
    the right sort, an index inside the register, the right arity), so that both accepted and rejected programs abound."""

    NATIVE_SIGS = {"X": "q", "Z": "q", "CX": "qq", "P": "qi", "PF": "fq", "CCX": "qqq", "U": "qf", "W": "q", "V": "r"}

    def __init__(self, rng):
        self.rng = rng

    def pick(self, xs):
        return xs[self.rng.randrange(len(xs))]

    def chance(self, p):
        return self.rng.random() < p

    def new_program_state(self):
        self.v = self.pick([0.5, 0.8, 0.95, 0.95, 1.0])
        self.lets = {}      # name -> value text
        self.regs = {}      # register / alias name -> size (int) or None when unknown
        self.qubits = []    # single-qubit aliases
        self.macros = {}    # name -> number of parameters
        self.native_style = self.chance(0.5)

    def some_name(self):
        return self.pick(NAMES)

    def let_name(self):
        if self.lets and self.chance(self.v):
            return self.pick(list(self.lets))
        return self.some_name()

    def reg_name(self, extra=()):
        pool = list(self.regs) + list(extra)
        if pool and self.chance(self.v):
            return self.pick(pool)
        return self.some_name()

    def index_for(self, arr, params=()):
        size = self.regs.get(arr)
        if self.chance(0.12):
            ints = [n for n, val in self.lets.items() if val.lstrip("-").isdigit()]
            if ints and self.chance(self.v):
                return self.pick(ints)
            return self.pick(list(params) or NAMES)
        if size and self.chance(self.v):
            return str(self.rng.randrange(size))
        return str(self.pick([-1, 0, (size or 2) - 1, size or 2, (size or 2) + 1]))

    def qref(self, params):
        r = self.rng.random()
        if self.qubits and r < 0.15:
            return self.pick(self.qubits)
        if params and r < 0.45:
            p = self.pick(params)
            return p if self.chance(0.6) else f"{p}[{self.pick(['0', '1', self.pick(params)])}]"
        arr = self.reg_name()
        return f"{arr}[{self.index_for(arr, params)}]"

    def classical(self, params, want_int):
        r = self.rng.random()
        if params and r < 0.25:
            return self.pick(params)
        if r < 0.45:
            return self.let_name()
        if want_int or r < 0.75:
            return str(self.pick(INTS))
        return self.pick(FLOATS)

    def arg_of_sort(self, sort, params):
        if not self.chance(self.v):
            sort = self.pick("qifr")
        if sort == "q":
            return self.qref(params)
        if sort == "r":
            return self.reg_name(params)
        return self.classical(params, sort == "i")

    def gate(self, params, pool):
        if pool and self.chance(0.5):
            return self.pick(pool)
        if self.macros and self.chance(0.25):
            name = self.pick(list(self.macros))
            n = self.macros[name] if self.chance(self.v) else self.pick([0, 1, 2, 3])
            return " ".join([name] + [self.arg_of_sort(self.pick("qqi"), params) for _ in range(n)])
        if self.native_style and self.chance(0.85):
            name = self.pick(list(self.NATIVE_SIGS))
            sig = self.NATIVE_SIGS[name]
            if not self.chance(self.v):
                sig = sig[:-1] if self.chance(0.5) else sig + "q"
            return " ".join([name] + [self.arg_of_sort(s, params) for s in sig])
        name = self.pick(GATE_NAMES)
        nargs = self.pick([0, 1, 1, 1, 2, 2, 3])
        return " ".join([name] + [self.arg_of_sort(self.pick("qqqif"), params) for _ in range(nargs)])

    def stmt(self, params, pool, depth, inside=""):
        r = self.rng.random()
        if depth <= 0 or r < 0.55:
            return self.gate(params, pool)
        k = self.pick([0, 1, 2, 3])
        if r < 0.65:
            body = "; ".join(self.stmt(params, pool, depth - 1, inside) for _ in range(k))
            cnt = self.let_name() if self.chance(0.25) else str(self.pick([0, 1, 2, 3]))
            return f"loop {cnt} {{ {body} }}"
        if r < 0.75:
            body = "; ".join(self.stmt(params, pool, depth - 1, inside) for _ in range(k))
            return "{ " + body + " }"
        if r < 0.85:
            body = " | ".join(self.stmt(params, pool, depth - 1, inside + "p") for _ in range(k))
            return "< " + body + " >"
        if r < 0.97:
            if inside and self.chance(self.v):
                return self.gate(params, pool)
            body = "; ".join(self.stmt(params, pool, depth - 1, inside + "s") for _ in range(k))
            cnt = self.pick(["", "", "3", self.let_name(), "0"])
            return f"subcircuit {cnt} {{ {body} }}"
        body = "; ".join(self.stmt(params, pool, depth - 1, inside) for _ in range(k))
        return "branch { '0' : { " + body + " } '1' : { } }"

    def fresh(self, base):
        used = set(self.lets) | set(self.regs) | set(self.qubits)
        if not self.chance(self.v):
            return self.some_name()
        cands = [n for n in base + NAMES if n not in used]
        return self.pick(cands) if cands else self.some_name()

    def program(self):
        rng = self.rng
        self.new_program_state()
        lines = []
        if self.chance(0.15):
            lines.append(f"from {self.pick(['bdm.a', 'bdm.b', 'bdm.a', 'nosuch.mod'])} usepulses *")
            if self.chance(0.5):
                lines.append(f"from {self.pick(['bdm.a', 'bdm.b'])} usepulses *")
        for _ in range(self.pick([0, 1, 2, 3])):
            val = self.pick(FLOATS) if self.chance(0.2) else str(self.pick(INTS + [2, 3, 4]))
            nm = self.fresh(["n", "k", "a", "b"])
            lines.append(f"let {nm} {val}")
            self.lets.setdefault(nm, val)
        nreg = self.pick([0, 1, 1, 1, 1, 1, 1, 2]) if not self.chance(self.v) else 1
        for i in range(nreg):
            nm = "r" if i == 0 and "r" not in self.lets and self.chance(0.7) else self.fresh(["r", "q"])
            if self.chance(0.2):
                sz = self.let_name()
                known = int(self.lets[sz]) if self.lets.get(sz, "").isdigit() else None
            else:
                known = self.pick([1, 2, 3, 4, 5])
                sz = str(known)
            lines.append(f"register {nm}[{sz}]")
            self.regs.setdefault(nm, known)
        for _ in range(self.pick([0, 0, 1, 2, 3])):
            nm = self.fresh(["a", "b", "q"])
            src = self.reg_name()
            size = self.regs.get(src)
            r = rng.random()
            if r < 0.2:
                lines.append(f"map {nm} {src}")
                self.regs.setdefault(nm, size)
            elif r < 0.45:
                lines.append(f"map {nm} {src}[{self.index_for(src)}]")
                self.qubits.append(nm)
            else:
                def part(valid_values):
                    if self.chance(0.35):
                        return ""
                    if self.chance(0.15):
                        return self.let_name()
                    if size and self.chance(self.v):
                        return str(self.pick(valid_values))
                    return str(self.pick(INTS))
                n_ = size or 2
                start, stop = part(list(range(n_))), part(list(range(n_ + 1)))
                step = part([1, 1, 2, -1]) if self.chance(0.4) else ""
                s = f"{start}:{stop}" + (f":{step}" if step != "" or self.chance(0.2) else "")
                lines.append(f"map {nm} {src}[{s}]")
                try:
                    a = int(start) if start else 0
                    b = int(stop) if stop else n_
                    c = int(step) if step else 1
                    self.regs.setdefault(nm, len(range(a, b, c)) or None)
                except ValueError:
                    self.regs.setdefault(nm, None)
        if self.chance(0.1):
            rng.shuffle(lines)
        # a small pool of statement texts that recur in several scopes
        pool = [self.gate(self.pick([[], ["x"], ["x", "y"]]), []) for _ in range(self.pick([1, 2, 3]))]
        body = []
        for _ in range(self.pick([0, 1, 2, 3, 4, 5])):
            if self.chance(0.3):
                mname = self.pick(["m1", "m2", "m3", "foo"]) if self.chance(self.v) else self.pick(["g", "X", self.some_name()])
                collide = list(self.lets) + list(self.regs) + self.qubits
                params = [self.pick(collide) if collide and self.chance(0.3) else self.pick(["x", "y", "z", "a", "r"])
                          for _ in range(self.pick([0, 1, 1, 2, 2, 3]))]
                if self.chance(self.v):
                    params = list(dict.fromkeys(params))
                stmts = "; ".join(self.stmt(params, pool, 2) for _ in range(self.pick([0, 1, 2, 3])))
                body.append("macro " + " ".join([mname] + params) + " { " + stmts + " }")
                self.macros.setdefault(mname, len(params))
            else:
                body.append(self.stmt([], pool, 2))
        return "\n".join(lines + body) + "\n"


# fixed programs that must be covered whatever the seed
FIXED_PROGRAMS = [
    "let a 1\nregister r[3]\nmacro foo a { g r[a] }\ng r[a]\n",
    "let a 1\nregister r[3]\ng r[a]\nmacro foo a { g r[a] }\nfoo 2\ng r[a]\n",
    "register r[3]\nmap a r[0:2]\nmacro foo r { g r[0] }\ng r[0]\nfoo a\n",
    "register r[2]\ng 1\ng 1.0\ng 0\ng -0.0\n",
    "register r[2]\nmacro m a a { g a }\nm 1 2\n",
    "register r[2]\nmacro m a a { g a }\n",
    "register r[2]\ng r[r]\n",
    "register r[2]\nmap q r[0]\ng r[q]\n",
    "register r[2]\nregister s[r]\ng s[0]\n",
    "register r[2]\nmacro m p { g p[r] }\n",
    "register r[2]\nmap q r[0]\nmacro m p { X p[q] }\nm r\n",
    "register r[2]\nregister s[r]\nmap a s[0:1]\n",
    "register r[4]\nmap a r[0:r]\n",
    "let n 2\nregister r[4]\nmap a r[0:n:r]\ng a[0]\n",
    "let n 2\nregister r[4]\nmap q r[1]\nmap a r[q:n]\nmap b a[:]\n",
    "register r[4]\nmap a r[0:2:r]\n",
    "register r[2]\ng 0.0\ng -0.0\ng 2\ng 2e0\n",
    "register r[4]\nmap a r[r:2]\n",
    "let z 0\nregister r[4]\nmap a r[0:2:z]\nmap b a[:]\n",
    "let z 0\nregister r[4]\nmap a r[0:2:z]\ng a[0]\n",
    "let n 3\nregister r[n]\ng r[3]\n",
    "let n 3\nregister r[n]\ng r[2]\n",
    "let n 3\nregister r[4]\nmap a r[0:9:n]\n",
    "let n 2.5\nregister r[n]\n",
    "let i 1.5\nregister r[2]\ng r[i]\n",
    "register r[2]\nmap a r[2]\n",
    "register r[2]\nmap a r[-1]\n",
    "register r[4]\nmap a r[3:0:-1]\ng a[2]\n",
    "register r[4]\nmap a r[3::-1]\n",
    "register r[4]\nmap a r[::0]\n",
    "register r[4]\nmap a r[0:5]\n",
    "register r[4]\nmap a r[-1:2]\n",
    "let a 1\nmap b a\n",
    "let a 1\nmap b a[0]\n",
    "let a 1\nregister r[2]\ng a[0]\n",
    "register r[2]\nmap q r[0]\ng q[0]\n",
    "register r[2]\nmap q r[0]\nmap b q\n",
    "register r[2]\nregister s[2]\n",
    "register r[2]\nmap s r\nregister t[1]\n",
    "register r[2]\nlet r 1\n",
    "register r[2]\nmacro g a { h a }\nmacro g b { h b }\n",
    "register r[2]\ng r[0]\nmacro g a { h a }\n",
    "register r[2]\nmacro m a { m a }\n",
    "register r[2]\n< g r[0] | { subcircuit { g r[1] } } >\n",
    "register r[2]\nsubcircuit { loop 2 { subcircuit { } } }\n",
    "register r[2]\nmacro m a { subcircuit { g a } }\n< m r[0] | g r[1] >\n",
    "register r[2]\nsubcircuit { g r[0] }\nsubcircuit 3 { g r[0] }\nsubcircuit r { }\n",
    "register r[2]\nbranch { '0' : { g r[0] } }\n",
    "register r[2]\nloop r { g r[0] }\n",
    "register r[2]\nmacro s a { subcircuit { g a } }\n< s r[0] | g r[1] >\n",
    "register r[2]\nmacro s a { subcircuit { g a } }\nsubcircuit { s r[0] }\n",
    "register r[2]\nmacro s a { subcircuit { g a } }\nmacro t a { s a }\n< t r[0] | g r[1] >\n",
    "register r[2]\nmacro s a { subcircuit { g a } }\nmacro t a { loop 2 { s a } }\nsubcircuit { loop 2 { t r[0] } }\n",
    "register r[2]\nmacro s a { subcircuit { g a } }\nmacro t a { < s a | g a > }\n",
    "register r[2]\nmacro s a { subcircuit { g a } }\nmacro t a { subcircuit { s a } }\n",
    "register r[2]\nmacro s a { subcircuit { g a } }\nmacro t a { s a }\nt r[0]\nloop 2 { t r[1] }\n{ s r[0] }\n",
    "register r[2]\nmacro s a { g a }\nmacro t a { s a }\n< t r[0] | s r[1] >\nsubcircuit { t r[0] }\n",
    "register r[2]\nmacro s a { loop 2 { < g a | { subcircuit { g a } } > } }\n",
    "let t 2\nregister r[4]\nmap b r[0:t:0]\n",
    "let t 0\nregister r[4]\nmap b r[0:2:t]\n",
    "register r[2]\nmap q r[0]\nloop q { g r[0] }\nsubcircuit q { g r[0] }\n",
    "let x 1.5\nlet n 2\nregister r[2]\nloop n { g r[0] }\nsubcircuit x { g r[0] }\n",
    "register r[2]\nmacro m a { loop a { g r[0] } }\nm 2\n",
    "register q[r]\n",
    "register r[2]\nregister s[r]\n",
    "let __in_context_parallel__ 1\nregister r[2]\n< g __in_context_parallel__ | subcircuit { } >\n",
    "let array_item 1\nregister r[2]\ng r[array_item]\nmacro m array_item { g r[array_item] }\n",
    "register r[2]\ng p0\n",
    "register p0[2]\ng p0[1] p0\nmacro m p0 { g p0[1] p0 }\n",
    "from bdm.a usepulses *\nfrom bdm.b usepulses *\nregister r[2]\nX r[0] 1\nU r[0] 0.5\nV r\n",
    "from bdm.b usepulses *\nfrom bdm.a usepulses *\nregister r[2]\nX r[0]\nW r[1]\n",
    "from nosuch.mod usepulses *\nregister r[2]\n",
    "from bdm.a usepulses *\nregister r[2]\nmacro X a { W a }\n",
]

# hand-made S-expressions (JSON form: lists, strings, {"i": ...}, {"f": ...}, null)
def _i(v):
    return {"i": str(v)}


def _f(neg, mant, exp):
    return {"f": [neg, str(mant), str(exp)]}


REG = ["register", "r", _i(2)]
FIXED_SX = [
    [], "x", _i(3), None, ["circuit"], ["circuit", []], ["circuit", [_i(3)]], ["circuit", ["nonsense"]], ["let", "a", _i(1)],
    ["circuit", ["circuit"]], ["circuit", "r"], ["circuit", REG, "r"], ["circuit", _i(1)], ["circuit", None],
    ["circuit", ["register"]], ["circuit", ["register", "r"]], ["circuit", ["register", "r", _i(1), _i(2)]],
    ["circuit", ["register", "r", None]], ["circuit", ["register", "r", "x"]], ["circuit", ["register", "r", _f(False, 2, 0)]],
    ["circuit", ["register", "r", _f(False, 25, -1)]], ["circuit", ["register", "r", _i(0)]],
    ["circuit", ["register", _i(1), _i(2)]], ["circuit", ["register", "r", ["gate", "h"]]],
    ["circuit", ["register", "r", ["let", "n", _i(2)]]],
    ["circuit", ["let"]], ["circuit", ["let", "a"]], ["circuit", ["let", "a", "x"]], ["circuit", ["let", "a", None]],
    ["circuit", ["let", "a", _f(False, 3, 0)]], ["circuit", ["let", "a", _f(True, 0, 0)]], ["circuit", ["let", "a", [_i(1)]]],
    ["circuit", ["let", "a", _i(1), _i(2)]],
    ["circuit", ["map"]], ["circuit", ["map", "a"]], ["circuit", ["map", "a", "b"]], ["circuit", REG, ["map", "a", "r", _i(0), _i(1)]],
    ["circuit", ["map", "a", "b", "c", "d"]], ["circuit", REG, ["map", "a", ["r"]]], ["circuit", REG, ["map", "a", _i(1)]],
    ["circuit", REG, ["map", "a", None]], ["circuit", REG, ["map", "a", "r", _f(False, 1, 0)]],
    ["circuit", REG, ["map", "a", "r", _f(False, 15, -1)]], ["circuit", REG, ["map", "a", "r", None]],
    ["circuit", REG, ["map", "a", "r", "r"]], ["circuit", REG, ["map", "a", "r", ["gate", "h"]]],
    ["circuit", REG, ["map", "a", "r", _f(False, 5, -1), None, None]], ["circuit", REG, ["map", "a", "r", None, _f(False, 2, 0), None]],
    ["circuit", REG, ["map", "a", "r", None, None, _f(False, 1, 0)]], ["circuit", REG, ["map", "a", "r", None, None, _f(False, 0, 0)]],
    ["circuit", REG, ["map", "a", "r", "r", None, None]], ["circuit", REG, ["map", "a", "r", None, "r", None]],
    ["circuit", REG, ["map", "a", "r", None, None, "r"]], ["circuit", REG, ["map", "a", "r", _i(0), _i(2), _i(1), _i(1)]],
    ["circuit", REG, ["map", _i(1), "r"]],
    ["circuit", REG, ["array_item", "r"]], ["circuit", REG, ["array_item", "r", _i(0)]], ["circuit", REG, ["array_item", "r", _i(0), _i(1)]],
    ["circuit", REG, ["gate", "g", ["array_item", "r", None]]], ["circuit", REG, ["gate", "g", ["array_item", "r", _f(False, 1, 0)]]],
    ["circuit", REG, ["gate", "g", ["array_item", "r", _f(False, 5, -1)]]], ["circuit", REG, ["gate", "g", ["array_item", _i(1), _i(0)]]],
    ["circuit", REG, ["gate", "g", ["array_item", ["array_item", "r", _i(0)], _i(0)]]],
    ["circuit", REG, ["macro", "m", "p", ["sequential_block", ["gate", "g", ["array_item", "p", _f(False, 5, -1)]]]]],
    ["circuit", REG, ["macro", "m", "p", ["sequential_block", ["gate", "g", ["array_item", "p", "r"]]]]],
    ["circuit", REG, ["macro", "m", "p", ["sequential_block", ["gate", "g", ["map", "a", "p", None, None, None]]]]],
    ["circuit", ["gate"]], ["circuit", ["gate", _i(3)]], ["circuit", ["gate", "g", None]], ["circuit", ["gate", "g", ["let", "x", _i(1)]]],
    ["circuit", ["gate", "g", ["gate", "h"]]], ["circuit", ["gate", "g", ["sequential_block"]]], ["circuit", ["gate", "g", []]],
    ["circuit", ["gate", "g", ["nonsense"]]], ["circuit", REG, ["gate", "g", ["register", "s", _i(1)]]],
    ["circuit", ["loop"]], ["circuit", ["loop", _i(1)]], ["circuit", ["loop", _i(1), ["sequential_block"], _i(2)]],
    ["circuit", ["loop", _i(1), ["gate", "g"]]], ["circuit", ["loop", None, ["sequential_block"]]], ["circuit", ["loop", _i(1), _i(2)]],
    ["circuit", REG, ["loop", "r", "r"]], ["circuit", ["loop", ["gate", "g"], ["sequential_block"]]],
    ["circuit", ["sequential_block", _i(3)]], ["circuit", REG, ["sequential_block", "r"]], ["circuit", ["sequential_block", "zz"]],
    ["circuit", ["block", ["gate", "g"]]], ["circuit", ["unscheduled_block", ["gate", "g"], ["subcircuit_block", ""]]],
    ["circuit", ["parallel_block", ["unscheduled_block", ["subcircuit_block", ""]]]],
    ["circuit", ["subcircuit_block"]], ["circuit", ["subcircuit_block", None]], ["circuit", ["subcircuit_block", ""]],
    ["circuit", ["subcircuit_block", _f(False, 25, -1)]], ["circuit", ["subcircuit_block", "zz"]], ["circuit", ["subcircuit_block", ["gate", "g"]]],
    ["circuit", ["parallel_block", ["subcircuit_block", ""]]], ["circuit", ["subcircuit_block", "", ["subcircuit_block", ""]]],
    ["circuit", ["parallel_block", ["macro", "m", ["subcircuit_block", ""]]]],
    ["circuit", ["sequential_block", ["macro", "m", ["sequential_block"]]]],
    ["circuit", ["sequential_block", ["let", "a", _i(1)]]], ["circuit", ["sequential_block", ["circuit", ["let", "a", _i(1)]]]],
    ["circuit", ["case"]], ["circuit", ["case", _i(1)]], ["circuit", ["case", _i(1), ["sequential_block"]]], ["circuit", ["branch"]],
    ["circuit", ["branch", ["case", _i(1), ["sequential_block"]]]], ["circuit", ["branch", ["gate", "g"]]], ["circuit", ["branch", _i(1)]],
    ["circuit", ["sequential_block", ["case", _i(1), ["sequential_block"]]]], ["circuit", ["loop", _i(2), ["case", _i(1), ["sequential_block"]]]],
    ["circuit", ["macro"]], ["circuit", ["macro", "m"]], ["circuit", ["macro", "m", ["sequential_block"]]], ["circuit", ["macro", "m", ["gate", "g"]]],
    ["circuit", ["macro", "m", _i(3), ["sequential_block"]]], ["circuit", ["macro", "m", ["x"], ["sequential_block"]]], ["circuit", ["macro", "m", "a"]],
    ["circuit", ["macro", "m", "a", "b"]], ["circuit", ["macro", _i(1), ["sequential_block"]]], ["circuit", ["macro", "m", ["loop", _i(1), ["sequential_block"]]]],
    ["circuit", ["macro", "m", ["parallel_block"]]], ["circuit", ["macro", "m", ["subcircuit_block", ""]]], ["circuit", ["macro", "m", None]],
    ["circuit", ["usepulses"]], ["circuit", ["usepulses", "x"]], ["circuit", ["usepulses", "x", "*"]], ["circuit", ["usepulses", "x", "y"]],
    ["circuit", ["usepulses", "x", None]], ["circuit", ["usepulses", _i(3), "*"]], ["circuit", ["usepulses", "x", "*", "*"]],
    ["circuit", ["sequential_block", ["usepulses", "x", "*"]]],
    ["circuit", ["usepulses", "bdm.a", "*"], REG, ["gate", "X", ["array_item", "r", _i(0)]], ["usepulses", "bdm.b", "*"],
     ["gate", "X", ["array_item", "r", _i(0)]]],
    ["circuit", REG, ["gate", "g", ["array_item", "r", _i(0)]], ["let", "x", _i(1)], ["gate", "g", "x"]],
    ["circuit", ["gate", "g", "x"], ["let", "x", _i(1)]],
]

# a `usepulses` that replaces the definition an EARLIER gate statement is bound to (hand-made only)
FIXED_SX.append(["circuit", ["usepulses", "bdm.a", "*"], REG, ["gate", "X", ["array_item", "r", _i(0)]],
                 ["usepulses", "bdm.b", "*"]])

# integral / fractional floats where ints are expected (hand-made only)
for _v in (_f(False, 2, 0), _f(False, 25, -1), _f(True, 0, 0), _f(False, 0, 0), _f(True, 1, 0)):
    FIXED_SX.append(["circuit", ["register", "r", _v]])
    FIXED_SX.append(["circuit", ["register", "r", _i(4)], ["map", "q", "r", _v], ["gate", "g", "q"]])
    FIXED_SX.append(["circuit", ["register", "r", _i(4)], ["map", "a", "r", _v, None, None], ["gate", "g", ["array_item", "a", _i(0)]]])
    FIXED_SX.append(["circuit", ["register", "r", _i(4)], ["map", "a", "r", None, _v, None]])
    FIXED_SX.append(["circuit", ["register", "r", _i(4)], ["map", "a", "r", None, None, _v]])
    FIXED_SX.append(["circuit", ["let", "t", _i(2)], ["register", "r", _i(4)], ["map", "a", "r", None, "t", _v]])
    FIXED_SX.append(["circuit", ["register", "r", _i(4)], ["gate", "g", ["array_item", "r", _v]]])
    FIXED_SX.append(["circuit", ["register", "r", _i(4)],
                     ["macro", "m", "p", ["sequential_block", ["gate", "g", ["array_item", "p", _v]]]]])

ATOMS = [None, _i(0), _i(1), _i(-1), _i(7), _f(False, 1, 0), _f(False, 5, -1), _f(True, 0, 0), "", "r", "a", "zz", "*", [], ["r"],
         ["gate", "g"], ["sequential_block"], ["let", "w", _i(1)], ["array_item", "r", _i(0)], ["register", "w", _i(1)]]
COMMANDS = ["circuit", "macro", "gate", "loop", "branch", "case", "sequential_block", "parallel_block", "subcircuit_block",
            "unscheduled_block", "block", "usepulses", "register", "map", "let", "array_item", "nonsense", "build", ""]


def mutate(rng, sx):
    """one random edit somewhere in a JSON S-expression"""
    sx = copy.deepcopy(sx)
    nodes = []

    def walk(x):
        if isinstance(x, list):
            nodes.append(x)
            for y in x:
                walk(y)

    walk(sx)
    if not nodes:
        return sx
    node = nodes[rng.randrange(len(nodes))]
    r = rng.random()
    if r < 0.25 and len(node) > 1:
        del node[rng.randrange(1, len(node))]
    elif r < 0.45:
        node.insert(rng.randrange(1, len(node) + 1) if node else 0, copy.deepcopy(ATOMS[rng.randrange(len(ATOMS))]))
    elif r < 0.75 and len(node) > 1:
        node[rng.randrange(1, len(node))] = copy.deepcopy(ATOMS[rng.randrange(len(ATOMS))])
    elif r < 0.85 and node:
        node[0] = COMMANDS[rng.randrange(len(COMMANDS))]
    elif r < 0.93 and len(node) > 2:
        i = rng.randrange(1, len(node) - 1)
        node[i], node[i + 1] = node[i + 1], node[i]
    elif len(node) > 1:
        i = rng.randrange(1, len(node))
        node.insert(i, copy.deepcopy(node[i]))
    return sx


# ---------------------------------------------------------------------------------------------------------------
# JSON S-expression <-> Python S-expression


def sx_to_py(j):
    if j is None:
        return None
    if isinstance(j, str):
        return j
    if isinstance(j, list):
        return [sx_to_py(x) for x in j]
    if "i" in j:
        return int(j["i"])
    return dump.undec(j["f"])


def _all_names_are_strings(d):
    """can IrJson.lean decode this dump? (names must be strings)"""
    if isinstance(d, dict):
        for k in ("c", "p", "q", "r", "g", "m", "name"):
            if k in d and not isinstance(d[k], str):
                return False
        if "params" in d and any(not isinstance(p[0], str) for p in d["params"]):
            return False
        if "args" in d and any(not isinstance(p[0], str) for p in d["args"]):
            return False
        return all(_all_names_are_strings(v) for v in d.values())
    if isinstance(d, list):
        return all(_all_names_are_strings(v) for v in d)
    return True


def _norm(d):
    """make the Python dump and the Lean dump comparable: the Lean side always writes `unitary`"""
    if isinstance(d, dict):
        d = {k: _norm(v) for k, v in d.items() if k != "keys"}
        if "tag" in d and "name" in d and "unitary" not in d:
            d["unitary"] = False
        return d
    if isinstance(d, list):
        return [_norm(v) for v in d]
    return d


def err_class(e):
    if isinstance(e, JaqalError):
        return "JaqalError"
    if isinstance(e, ImportError):
        return "ImportError"
    if isinstance(e, RecursionError):
        return "RecursionError"
    return type(e).__name__


def py_outcome(fn):
    """-> {"ok": dump} | {"err": cls} | {"err": "Undumpable"}"""
    try:
        c = fn()
    except Exception as e:  # noqa: BLE001
        return {"err": err_class(e)}, None
    try:
        d = dump.circuit(c)
    except dump.Undumpable:
        return {"err": "Undumpable"}, c
    except Exception:  # noqa: BLE001
        return {"err": "Undumpable"}, c
    if not _all_names_are_strings(d):
        return {"err": "Undumpable"}, c
    return {"ok": _norm(d)}, c


def agree(model, impl):
    """model/impl are {"ok":…}|{"err":cls}; an `Unmodelled` answer matches any non-success of the Python"""
    if "err" in model and model["err"].startswith("UnmodelledName"):
        return True
    if "err" in model and model["err"].startswith("Unmodelled"):
        return "err" in impl
    if "ok" in model:
        return "ok" in impl and canon(_norm(model["ok"])) == canon(impl["ok"])
    return impl.get("err") == model["err"]


def canon(j):
    return json.dumps(j, sort_keys=True)


def numnorm(d):
    """replace every integral float of a dump by the int it equals (Python `==`)"""
    if isinstance(d, dict):
        if set(d) == {"f"}:
            neg, mant, exp = d["f"]
            if int(mant) == 0:
                return {"i": "0"}
            if int(exp) >= 0:
                return {"i": str((-1 if neg else 1) * int(mant) * 10 ** int(exp))}
            return d
        return {k: numnorm(v) for k, v in d.items()}
    if isinstance(d, list):
        return [numnorm(v) for v in d]
    return d


class memo_off:
    """context manager: the real builder with its gate memo table disabled"""

    def __enter__(self):
        from jaqalpaq.core import circuitbuilder

        self._cls = circuitbuilder.GateMemoizer
        self._old = self._cls.get
        self._cls.get = lambda s, name, args, ctx: (None, s._make_gate_memo_key(name, args, ctx))

    def __exit__(self, *a):
        self._cls.get = self._old


# ---------------------------------------------------------------------------------------------------------------
# driver (batched)


def run_driver(driver, requests):
    if not requests:
        return []
    inp = "\n".join(json.dumps(r) for r in requests) + "\n"
    p = subprocess.run([driver], input=inp, capture_output=True, text=True, check=False)
    lines = [l for l in p.stdout.split("\n") if l.strip()]
    if len(lines) != len(requests):
        raise RuntimeError(f"driver answered {len(lines)} lines for {len(requests)} requests; stderr: {p.stderr[:500]}")
    out = []
    for l in lines:
        r = json.loads(l)
        if "out" not in r:
            raise RuntimeError(f"driver error: {r}")
        out.append(r["out"])
    return out


def model_request(op, sxj, natives, autoload):
    req = {"op": op, "sx": sxj, "natives": NATIVES_JSON if natives else None, "autoload": autoload}
    if autoload:
        req["imports"] = IMPORTS_JSON
    return req


# ---------------------------------------------------------------------------------------------------------------
# the real code


def impl_build(sx_py, natives, autoload):
    return py_outcome(lambda: py_build(sx_py, inject_pulses=(GATES if natives else None), autoload_pulses=autoload))


def impl_build_nomemo(sx_py, natives, autoload):
    with memo_off():
        return impl_build(sx_py, natives, autoload)


def impl_parse_build(text, natives, autoload):
    return py_outcome(lambda: parse_jaqal_string(text, inject_pulses=(GATES if natives else None), autoload_pulses=autoload))


# ---------------------------------------------------------------------------------------------------------------
# oracles on the real code alone

HEADER_CMDS = ("register", "map", "let", "usepulses")


def oracle_c07(sx_py, natives, autoload, circuit, limit=6):
    """C07: each body statement / macro, built alone after the same header (and the macros defined before it),
    is the same object as inside the whole program, however many textually identical statements there are elsewhere."""
    children = list(sx_py[1:])
    header = [c for c in children if isinstance(c, (list, tuple)) and c and c[0] in HEADER_CMDS]
    rest = [c for c in children if not (isinstance(c, (list, tuple)) and c and c[0] in HEADER_CMDS)]
    macros_before = []
    body_index = 0
    fails = []
    checked = 0
    macro_objs = list(circuit.macros.values())
    macro_index = 0
    for c in rest:
        is_macro = isinstance(c, (list, tuple)) and c and c[0] == "macro"
        if checked < limit:
            alone = ["circuit", *header, *macros_before, c]
            try:
                c2 = py_build(copy.deepcopy(alone), inject_pulses=(GATES if natives else None), autoload_pulses=autoload)
                if is_macro:
                    got = dump.macro(list(c2.macros.values())[-1])
                    want = dump.macro(macro_objs[macro_index])
                else:
                    got = dump.stmt(c2.body.statements[0])
                    want = dump.stmt(circuit.body.statements[body_index])
                if canon(numnorm(got)) != canon(numnorm(want)):
                    fails.append(f"statement {dump.sexpr(c)!r}: alone {canon(got)} / in program {canon(want)}")
                elif canon(got) != canon(want):
                    fails.append(f"EXACT statement {dump.sexpr(c)!r}: alone {canon(got)} / in program {canon(want)}")
            except dump.Undumpable:
                pass
            except Exception as e:  # noqa: BLE001
                fails.append(f"statement {dump.sexpr(c)!r}: alone raises {err_class(e)}: {e}")
            checked += 1
        if is_macro:
            macros_before.append(c)
            macro_index += 1
        else:
            body_index += 1
    return checked, fails


def _lit_size(reg):
    """size of a register when it follows from integer literals alone (independent re-computation)"""
    if not isinstance(reg, Register):
        return None
    if reg.alias_from is None:
        return reg._size if type(reg._size) is int else None
    sl = reg.alias_slice
    if sl is None:
        return _lit_size(reg.alias_from)
    if all(type(x) is int for x in (sl.start, sl.stop, sl.step)) and sl.step != 0:
        return len(range(sl.start, sl.stop, sl.step))
    return None


def _fits(kind, v):
    if kind == ParamType.NONE:
        return True
    av = isinstance(v, AnnotatedValue)
    if kind == ParamType.QUBIT:
        return isinstance(v, NamedQubit) or (av and v.kind in (ParamType.QUBIT, ParamType.NONE))
    if kind == ParamType.REGISTER:
        return isinstance(v, Register) or (av and v.kind in (ParamType.REGISTER, ParamType.NONE))
    if kind == ParamType.FLOAT:
        return (type(v) in (int, float)) or (av and v.kind in (ParamType.INT, ParamType.FLOAT, ParamType.NONE))
    if kind == ParamType.INT:
        if type(v) is int or (type(v) is float and v == int(v)):
            return True
        if av and v.kind in (ParamType.INT, ParamType.NONE):
            return True
        return isinstance(v, Constant) and v.kind == ParamType.FLOAT and float(v.value) == int(float(v.value))
    return False


def oracle_c14(circuit, natives_in_force):
    """C14: an accepted program has no literal reference that cannot be honoured."""
    bad = []

    def check_val(v, where):
        if isinstance(v, NamedQubit):
            src = v.alias_from
            if not isinstance(src, (Register, Parameter)):
                bad.append(f"{where}: qubit {v.name} taken from {type(src).__name__}")
                return
            check_val(src, where)
            k = _lit_size(src)
            if type(v.alias_index) is int and k is not None and not (0 <= v.alias_index < k):
                bad.append(f"{where}: qubit {v.name} index {v.alias_index} outside 0..{k - 1}")
            if type(v.alias_index) is float and k is not None and not (v.alias_index == int(v.alias_index) and 0 <= v.alias_index < k):
                bad.append(f"{where}: qubit {v.name} index {v.alias_index} outside 0..{k - 1}")
        elif isinstance(v, Register):
            if v.alias_from is None:
                if type(v._size) is int and v._size < 1:
                    bad.append(f"{where}: register {v.name} size {v._size}")
                return
            src = v.alias_from
            if not isinstance(src, (Register, Parameter)):
                bad.append(f"{where}: alias {v.name} of {type(src).__name__}")
                return
            check_val(src, where)
            sl = v.alias_slice
            if sl is not None and all(type(x) is int for x in (sl.start, sl.stop, sl.step)):
                if sl.step == 0:
                    bad.append(f"{where}: alias {v.name} zero step")
                    return
                if sl.start < 0:
                    bad.append(f"{where}: alias {v.name} negative start")
                k = _lit_size(src)
                if k is not None:
                    for i in range(sl.start, sl.stop, sl.step):
                        if not (0 <= i < k):
                            bad.append(f"{where}: alias {v.name} element {i} outside 0..{k - 1}")
                            break

    known = dict(circuit.native_gates) if natives_in_force else None
    seen_macros = {}

    def check_stmt(s, where):
        if isinstance(s, GateStatement):
            gd = s.gate_def
            if isinstance(gd, Macro):
                if seen_macros.get(gd.name) is not gd:
                    bad.append(f"{where}: gate {s.name} calls a macro that is not an earlier macro of the circuit")
            elif known is not None:
                if known.get(gd.name) is not gd:
                    bad.append(f"{where}: gate {s.name} is not a native gate")
            if len(s.parameters) != len(gd.parameters):
                bad.append(f"{where}: gate {s.name} arity {len(s.parameters)} / {len(gd.parameters)}")
            for p in gd.parameters:
                if p.name in s.parameters and not _fits(p.kind, s.parameters[p.name]):
                    bad.append(f"{where}: gate {s.name} argument {p.name} of the wrong kind")
            for v in s.parameters.values():
                check_val(v, where)
        elif isinstance(s, LoopStatement):
            check_val(s.iterations, where)
            check_stmt(s.statements, where)
        elif isinstance(s, BlockStatement):
            check_val(s.iterations, where)
            for x in s.statements:
                check_stmt(x, where)

    names = list(circuit.constants) + list(circuit.registers)
    if len(set(names)) != len(names):
        bad.append("a constant and a register share a name")
    for n, r in circuit.registers.items():
        check_val(r, f"register {n}")
    for n, m in circuit.macros.items():
        if natives_in_force and n in circuit.native_gates:
            bad.append(f"macro {n} shadows a native gate")
        check_stmt(m.body, f"macro {n}")
        seen_macros[n] = m
    check_stmt(circuit.body, "body")
    if sum(1 for r in circuit.registers.values() if isinstance(r, Register) and r.alias_from is None) > 1:
        bad.append("more than one fundamental register")
    return bad


# ---------------------------------------------------------------------------------------------------------------
# main entry points

CONFIGS = [(False, False), (True, False), (False, True), (True, True)]  # (natives, autoload)


def _new_result():
    return {"corr": {op: {"cases": 0, "disagreements": []} for op in ("build", "build_nomemo", "parse_build")},
            "oracle": {"C07_context_free": {"cases": 0, "failures": []},
                       "C07_memo_transparent": {"cases": 0, "failures": []},
                       "C07_memo_transparent_handmade_sx": {"cases": 0, "failures": []},
                       "C14_refs_valid_handmade_sx": {"cases": 0, "failures": []},
                       "C14_refs_valid": {"cases": 0, "failures": []},
                       "C16_error_classes": {"cases": 0, "failures": []}},
            "distribution": {}, "samples": [], "nontrivial": 0}


def _bump(res, key, by=1):
    res["distribution"][key] = res["distribution"].get(key, 0) + by


def _record(lst, entry):
    if len(lst) < 20:
        lst.append(entry)


def run(seed: int, n: int, driver: str = DEFAULT_DRIVER, thorough: bool = False) -> dict:
    install_modules()
    rng = random.Random(seed)
    res = _new_result()
    if thorough:
        n = max(n, 6000)
    gen = Gen(rng)
    texts = list(FIXED_PROGRAMS) + [gen.program() for _ in range(n)]

    cases = []  # dicts: kind, text?, sx (json), natives, autoload
    parsed = []
    for t in texts:
        try:
            sx = parse_to_sexpression(t)
        except Exception as e:  # noqa: BLE001
            _bump(res, "text: parse error " + err_class(e))
            continue
        sxj = dump.sexpr(sx)
        parsed.append(sxj)
        uses_pulses = "usepulses" in t
        for natives, autoload in CONFIGS:
            if autoload and not uses_pulses and rng.random() < 0.8:
                continue
            cases.append({"kind": "text", "text": t, "sx": sxj, "natives": natives, "autoload": autoload})
    handmade = list(FIXED_SX)
    for _ in range(n):
        base = parsed[rng.randrange(len(parsed))]
        m = mutate(rng, base)
        if rng.random() < 0.3:
            m = mutate(rng, m)
        handmade.append(m)
    for k, sxj in enumerate(handmade):
        for natives, autoload in (CONFIGS if k < len(FIXED_SX) else ((False, False), (True, False)) + (((False, True),) if rng.random() < 0.2 else ())):
            cases.append({"kind": "sx", "sx": sxj, "natives": natives, "autoload": autoload})

    # model answers, batched per op
    reqs = {"build": [], "build_nomemo": [], "parse_build": []}
    idx = {"build": [], "build_nomemo": [], "parse_build": []}
    for i, c in enumerate(cases):
        for op in ("build", "build_nomemo") + (("parse_build",) if c["kind"] == "text" else ()):
            reqs[op].append(model_request(op, c["sx"], c["natives"], c["autoload"]))
            idx[op].append(i)
    answers = {op: dict(zip(idx[op], run_driver(driver, reqs[op]))) for op in reqs}

    distinct = set()
    for i, c in enumerate(cases):
        sx_py = sx_to_py(c["sx"])
        impl, circ = impl_build(copy.deepcopy(sx_py), c["natives"], c["autoload"])
        model = answers["build"][i]
        distinct.add(canon([c["sx"], c["natives"], c["autoload"]]))
        res["corr"]["build"]["cases"] += 1
        tag = f"{c['kind']}: " + ("accepted" if "ok" in impl else impl["err"])
        _bump(res, tag)
        if "err" in model and model["err"].startswith("Unmodelled"):
            _bump(res, f"{model['err']} -> python {'accepted' if 'ok' in impl else impl['err']}")
        if "err" in impl and impl["err"] not in ("JaqalError", "Undumpable", "ImportError"):
            key = f"non-Jaqal error {impl['err']} ({c['kind']})"
            _bump(res, key)
            if res["distribution"][key] <= 2 and len(res["samples"]) < 40:
                res["samples"].append({"note": key, "case": c if c["kind"] == "sx" else {"text": c["text"], "natives": c["natives"], "autoload": c["autoload"]}})
        if not agree(model, impl):
            _record(res["corr"]["build"]["disagreements"], {"case": c, "model": model, "impl": impl})
        # the memo table is transparent in the model too (compare the two ops), and matches the real builder
        m2 = answers["build_nomemo"][i]
        impl2, _ = impl_build_nomemo(copy.deepcopy(sx_py), c["natives"], c["autoload"])
        res["corr"]["build_nomemo"]["cases"] += 1
        if not agree(m2, impl2):
            _record(res["corr"]["build_nomemo"]["disagreements"], {"case": c, "model": m2, "impl": impl2})
        if canon(m2) != canon(model):
            _bump(res, "model: memo and no-memo builds differ")
        # oracle on the real code alone: the memo table changes nothing (numbers compared by value)
        memo_oracle = "C07_memo_transparent" if c["kind"] == "text" else "C07_memo_transparent_handmade_sx"
        unmodelled = "err" in model and model["err"].startswith("Unmodelled")
        if not (c["kind"] == "sx" and unmodelled):  # junk shapes (e.g. a register sized by a block) are not judged
            res["oracle"][memo_oracle]["cases"] += 1
        if canon(numnorm(impl)) != canon(numnorm(impl2)) and not (c["kind"] == "sx" and unmodelled):
            _record(res["oracle"][memo_oracle]["failures"],
                    {"case": c, "detail": f"with memo {canon(impl)[:600]} / without {canon(impl2)[:600]}"})
        elif canon(impl) != canon(impl2) and not (c["kind"] == "sx" and unmodelled):
            _bump(res, "python: memo changes an int/float literal (g 1; g 1.0)")
            if res["distribution"]["python: memo changes an int/float literal (g 1; g 1.0)"] <= 2:
                res["samples"].append({"note": "memo changes an int/float literal", "case": c})
        if c["kind"] == "text":
            impl_p, circ_p = impl_parse_build(c["text"], c["natives"], c["autoload"])
            mp = answers["parse_build"][i]
            res["corr"]["parse_build"]["cases"] += 1
            if not agree(mp, impl_p):
                _record(res["corr"]["parse_build"]["disagreements"], {"case": c, "model": mp, "impl": impl_p})
            # C16 on the real code: a program text makes the builder fail with JaqalError / ImportError only
            res["oracle"]["C16_error_classes"]["cases"] += 1
            for which, out in (("build", impl), ("parse_jaqal_string", impl_p)):
                if "err" in out and out["err"] not in ("JaqalError", "ImportError"):
                    _record(res["oracle"]["C16_error_classes"]["failures"],
                            {"case": c, "detail": f"{which} raises {out['err']}"})
            if "ok" in impl_p:
                bad = oracle_c14(circ_p, c["natives"] or c["autoload"])
                res["oracle"]["C14_refs_valid"]["cases"] += 1
                for b in bad[:3]:
                    _record(res["oracle"]["C14_refs_valid"]["failures"], {"case": c, "detail": b})
            if "ok" in impl and circ is not None:
                k, fails = oracle_c07(sx_py, c["natives"], c["autoload"], circ)
                res["oracle"]["C07_context_free"]["cases"] += k
                for f in fails[:3]:
                    if f.startswith("EXACT"):
                        _bump(res, "python: statement alone differs from in-program by an int/float literal")
                    else:
                        _record(res["oracle"]["C07_context_free"]["failures"], {"case": c, "detail": f})
        elif "ok" in impl and circ is not None:
            bad = oracle_c14(circ, c["natives"] or c["autoload"])
            bad = [b for b in bad if "more than one fundamental" not in b]  # that check belongs to parse_jaqal_string
            res["oracle"]["C14_refs_valid_handmade_sx"]["cases"] += 1
            for b in bad[:3]:
                _record(res["oracle"]["C14_refs_valid_handmade_sx"]["failures"], {"case": c, "detail": b})
    res["nontrivial"] = len(distinct)
    for c in cases[:: max(1, len(cases) // 8)][:8]:
        res["samples"].append(c if c["kind"] == "sx" else {"text": c["text"], "natives": c["natives"], "autoload": c["autoload"]})
    return res


def replay(case: dict, driver: str = DEFAULT_DRIVER) -> dict:
    install_modules()
    sxj = case.get("sx")
    if sxj is None:
        sxj = dump.sexpr(parse_to_sexpression(case["text"]))
    natives, autoload = case.get("natives", False), case.get("autoload", False)
    ops = ["build", "build_nomemo"] + (["parse_build"] if "text" in case else [])
    model = {op: run_driver(driver, [model_request(op, sxj, natives, autoload)])[0] for op in ops}
    sx_py = sx_to_py(sxj)
    impl_b, circ = impl_build(copy.deepcopy(sx_py), natives, autoload)
    impl = {"build": impl_b}
    detail = []
    oracle_ok = None
    if "text" in case:
        impl_p, circ_p = impl_parse_build(case["text"], natives, autoload)
        impl["parse_build"] = impl_p
        if "ok" in impl_p:
            bad = oracle_c14(circ_p, natives or autoload)
            oracle_ok = not bad
            detail += bad
    if "ok" in impl_b and circ is not None:
        _, fails = oracle_c07(sx_py, natives, autoload, circ, limit=50)
        fails = [f for f in fails if not f.startswith("EXACT")]
        oracle_ok = (oracle_ok is not False) and not fails
        detail += fails
    for op in ops:
        if not agree(model[op], impl.get(op, impl_b)):
            detail.append(f"{op}: model and implementation differ")
    return {"model": model, "impl": impl, "oracle_ok": oracle_ok, "detail": "; ".join(detail)}


def main():
    ap = argparse.ArgumentParser()
    ap.add_argument("--driver", default=DEFAULT_DRIVER)
    ap.add_argument("--seed", type=int, default=0)
    ap.add_argument("--n", type=int, default=1500)
    ap.add_argument("--thorough", action="store_true")
    ap.add_argument("--json", action="store_true", help="print the whole result as JSON")
    a = ap.parse_args()
    res = run(a.seed, a.n, a.driver, a.thorough)
    if a.json:
        print(json.dumps(res, indent=1))
    bad = 0
    for op, r in res["corr"].items():
        print(f"corr {op}: {r['cases']} cases, {len(r['disagreements'])} disagreements (first 20 kept)")
        for d in r["disagreements"][:5]:
            print("  DISAGREE", json.dumps(d)[:1500])
        bad += len(r["disagreements"])
    for name, r in res["oracle"].items():
        print(f"oracle {name}: {r['cases']} cases, {len(r['failures'])} failures (first 20 kept)")
        for d in r["failures"][:5]:
            print("  FAIL", json.dumps(d)[:1500])
        bad += len(r["failures"])
    print("distinct cases:", res["nontrivial"])
    for k in sorted(res["distribution"]):
        print(f"  {res['distribution'][k]:7d}  {k}")
    sys.exit(1 if bad else 0)


if __name__ == "__main__":
    main()
