#!/venv/bin/python
"""C17, fourth round: SCALE, unusual IDENTIFIERS, DEFAULTS of the public functions.

The property (properties.jsonl, C17): Jaqal text, the CircuitBuilder / S-expression API and the Python Q-syntax
produce equal circuits for the same program; Q-syntax wraps the body in prepare_all / measure_all exactly when
the body does not already begin with a prepare or a subcircuit; anonymous registers and constants get fresh
names that never collide with user-chosen names.  Quantifier: programs expressible in all three front ends -
any lets, ONE register, gates with numeric and qubit arguments, nested sequential / parallel blocks, loops and
subcircuits with literal or let-valued counts, any user-chosen names including ones of the auto-namer's form.

Run:    PYTHONPATH=/verif /venv/bin/python /verif/harness/agents/c17_scale.py [--n N] [--seed S] [--thorough]
Import: harness.agents.c17_scale.run(seed, n, driver, thorough) / replay(case, driver)

What the earlier streams (qsyn_diff) never produce and this one does, systematically:
  SCALE      one dimension of the program crosses 8 / 16 / 32 / 64 / 128 / 256 (1000 where cheap, a few per run)
             while everything else stays small: number of anonymous lets (with user names of the namer's form
             __c<k> / __r<k> at one-, two-, three-, four-digit indices: single, around 10 / 100 / 1000, dense
             prefixes, alternating, at the tail, non-canonical spellings, as let name or as the register's name,
             declared before / after / between the anonymous ones), user-named lets, statements at top level / in
             a sequential / parallel / loop / subcircuit block, sibling blocks, nesting depth (sequential-parallel
             alternation, loops, mixed; innermost a prepare_all, a subcircuit, a look-alike gate, nothing), gate
             arguments, register size and qubit indices, loop / subcircuit counts, name lengths (beyond 255
             characters, many dotted components), digits of integer literals, typed gates on large registers.
  IDENT      small programs whose let / register / gate names are unusual but legal: dotted (qualified) names,
             pairs that differ only by a dotted prefix or suffix, dunder names, the namer's forms, prefixes /
             substrings / superstrings / case variants of the keywords and of prepare_all / measure_all (also as
             the FIRST gate: the wrap must still happen), the builder's internal markers (gate, circuit,
             array_item, sequential_block ...), number-look-alikes (e5, a.1, x1e5).  Every name is checked against
             the identifier pattern of the Jaqal grammar written down here (IDENT_RE, KEYWORDS); names that are
             real attributes of the Q object (Q.let, Q.loop, Q.__class__ ...) cannot be written as `Q.<name>` and
             are not used as gate names.
  DEFAULTS   every case carries a VARIANT saying how each front end is called:
               Q     decorator bare `@circuit` / `@circuit()` / explicit `inject_pulses=.., autoload_pulses="ignore"`
                     / `autoload_pulses=False`; `Q.let(v)` vs `Q.let(v, None)` vs `name=`; `Q.subcircuit()` /
                     `(None)` / `(argument=None)` for an absent count; extra (defaulted) function parameters; the
                     decorated function called once or twice (the second result is used)
               OO    `CircuitBuilder()` / `(None)` / `(native_gates=..)`; header statements `unevaluated=True`
                     with names as arguments, or evaluated (the default) with the returned objects as arguments;
                     `b.subcircuit()` / `(None)` / `(iterations=None)`; `cb.build()` / `cb.build(None)`
               SX    `build(sexpr)` / `build(sexpr, inject_pulses=.., autoload_pulses=False)`, lists / tuples, the
                     absent count written "" (as the parser does) / None
               text  `parse_jaqal_string(text, inject_pulses=.., autoload_pulses=False)` (the anchor), the same with
                     the defaults (no usepulses in the text), `return_usepulses=True`, `override_dict=None` / `{}`,
                     `parse_jaqal_file`; statements separated by new lines / `;`; comments between statements.
             The `defaults` stream sweeps the variants on small random programs; the other streams draw them.

Oracles (real code only; the expectation is computed here from the program, never from the library):
  scale_equal / ident_equal / defaults_equal
        the four ways of writing the program (Q-syntax on the body as written; CircuitBuilder, hand-built
        S-expression and text on the body wrapped in prepare_all .. measure_all iff `begins_prep_or_sub(body)` is
        false - decided here on the program) all reject with a JaqalError, or all accept and the circuits are
        pairwise `==` (both orders, `!=` false) with equal by-value dumps.  The anonymous objects carry in the other
        three front ends the names Q-syntax chose (the property fixes no particular names), provided they are fresh;
        otherwise names chosen here.
  wrap_iff    the S-expression Q-syntax hands to `build` (and the circuit, when built) has the body's statements
        preceded by prepare_all and followed by measure_all  <=>  not begins_prep_or_sub(body)
  fresh_names the header Q-syntax produces keeps every user name in place; the generated names are strings,
        pairwise distinct and not among the user's names (lets and the register share one namespace)
A RecursionError (Python's limit, reached by no generated depth in a plain interpreter) in any front end makes the
case `skipped:recursion`, not a failure: the property says nothing about interpreter limits.

A case is a small descriptor, `{"stream", "family", "size", "sub", "variant"}`; the program is rebuilt from it
deterministically (`build_prog`), so a failing case replays exactly and stays readable at size 1000.
"""
import argparse
import copy
import json
import os
import random
import re
import signal
import sys
import tempfile
from collections import Counter

DEFAULT_DRIVER = "/verif/lean/.lake/build/bin/jaqal-model"

# ------------------------------------------------------------------------------------------ the grammar, written down here
# slyparse.py: IDENTIFIER = [a-zA-Z_](\.?[a-zA-Z0-9_])* ; these spellings are remapped to keyword tokens
IDENT_RE = re.compile(r"[a-zA-Z_](\.?[a-zA-Z0-9_])*")
KEYWORDS = {"register", "map", "let", "macro", "loop", "import", "usepulses", "from", "as", "branch", "subcircuit"}
# what `Q.<name>` means something else for: the public names of the Q object and what every Python object has
Q_API = {"register", "let", "loop", "sequential", "parallel", "subcircuit", "usepulses", "branch", "case", "registers",
         "lets", "_stack"}
PY_OBJECT_ATTRS = set(dir(type("_Plain", (), {})()))


def is_ident(name):
    return isinstance(name, str) and IDENT_RE.fullmatch(name) is not None and name not in KEYWORDS


def gate_name_ok(name):
    return is_ident(name) and name not in Q_API and name not in PY_OBJECT_ATTRS


# ------------------------------------------------------------------------------------------ lazy imports of the code under test
_LIB = {}


def lib():
    if not _LIB:
        import jaqalpaq.qsyntax.qsyntax as qs
        from jaqalpaq.qsyntax import circuit
        from jaqalpaq.core.circuitbuilder import CircuitBuilder, SequentialBlockBuilder, build
        from jaqalpaq.parser import parse_jaqal_string, parse_jaqal_file
        from jaqalpaq.error import JaqalError
        from harness import dump
        from harness.gates import GATES
        from harness import timeouts
        _LIB.update(qs=qs, circuit=circuit, CircuitBuilder=CircuitBuilder, SequentialBlockBuilder=SequentialBlockBuilder,
                    build=build, parse_jaqal_string=parse_jaqal_string, parse_jaqal_file=parse_jaqal_file,
                    JaqalError=JaqalError, dump=dump, GATES=GATES, T=timeouts)
    return _LIB


class Hang(Exception):
    pass


def _alarm(*a):
    raise Hang()


def guarded(f):
    """-> (value, None, None) | (None, error class for the oracle, exact class name + message)"""
    L = lib()
    old = signal.signal(signal.SIGALRM, _alarm)
    signal.alarm(int(L["T"].limit()))
    try:
        return f(), None, None
    except Hang:
        L["T"].saw_hang()
        return None, "hang", "no answer within the time limit"
    except L["JaqalError"] as e:
        return None, "JaqalError", f"{type(e).__name__}: {str(e)[:160]}"
    except RecursionError:
        return None, "RecursionError", "RecursionError"
    except Exception as e:  # noqa: BLE001 - every class is data here
        return None, type(e).__name__, f"{type(e).__name__}: {str(e)[:160]}"
    finally:
        signal.alarm(0)
        signal.signal(signal.SIGALRM, old)


# ------------------------------------------------------------------------------------------ Prog helpers
# Prog  {"lets": [{"name": str|None, "value": Num}], "regs": [{"name": str|None, "size": Count}] (at most one), "body": [Stmt]}
# Num   {"i": "decimal"} | {"f": "repr of the float"};  Count = {"i": ..} | {"ref": k}
# Arg   Num | {"ref": k} | {"r": 0} | {"q": 0, "idx": Count}
# Stmt  {"g": name, "args": [Arg]} | {"seq": [..]} | {"par": [..]} | {"loop": Count, "body": [..]} | {"sub": Count|None, "body": [..]}

def I(n):
    return {"i": str(int(n))}


def F(x):
    return {"f": repr(float(x))}


def G(name, *args):
    return {"g": name, "args": list(args)}


def QB(idx, r=0):
    return {"q": r, "idx": idx if isinstance(idx, dict) else I(idx)}


PREP = {"g": "prepare_all", "args": []}
MEAS = {"g": "measure_all", "args": []}


def pynum(j):
    return int(j["i"]) if "i" in j else float(j["f"])


def begins_prep_or_sub(body):
    """SPECIFICATION, on the program: the body begins with a prepare or a subcircuit (looking through the first
    statements of blocks and loops).  Iterative: the nesting may be deep."""
    while True:
        if not body:
            return False
        s = body[0]
        if "g" in s:
            return s["g"] == "prepare_all"
        if "sub" in s:
            return True
        body = s["seq"] if "seq" in s else s["par"] if "par" in s else s["body"]


def wrapped(p):
    return {"lets": p["lets"], "regs": p["regs"], "body": [PREP] + list(p["body"]) + [MEAS]}


def fmt_num(v):
    """Jaqal spelling of a number: integers in decimal, floats with a '.' in the mantissa (the grammar's NUMBER)."""
    if isinstance(v, float):
        t = repr(v)
        if "e" in t:
            m, e = t.split("e")
            if "." not in m:
                m += ".0"
            t = m + "e" + e
        return t
    return str(v)


def ref_names(p):
    """Names chosen HERE for the anonymous objects (any fresh names do): __c<k> / __r<k> skipping the user's."""
    user = {x["name"] for x in p["lets"] + p["regs"] if x["name"] is not None}
    out = []
    for tmpl, items in (("__c{}", p["lets"]), ("__r{}", p["regs"])):
        k, names = 0, []
        for it in items:
            if it["name"] is not None:
                names.append(it["name"])
                continue
            while tmpl.format(k) in user:
                k += 1
            names.append(tmpl.format(k))
            k += 1
        out.append(names)
    return out


def render(p, ln, rn, style):
    """The program as Jaqal text.  style: {"sep": "nl" | "semi" | "mixed", "comments": bool}"""
    def count(c):
        return c["i"] if "i" in c else ln[c["ref"]]

    def arg(a):
        if "ref" in a:
            return ln[a["ref"]]
        if "r" in a:
            return rn[a["r"]]
        if "q" in a:
            return f"{rn[a['q']]}[{count(a['idx'])}]"
        return fmt_num(pynum(a))

    def stmt(s):
        # iterative over the nesting: ("open", text) / statement / ("close", text) work list
        out = []
        work = [s]
        while work:
            x = work.pop()
            if isinstance(x, str):
                out.append(x)
                continue
            if "g" in x:
                out.append(" ".join([x["g"]] + [arg(a) for a in x["args"]]))
                continue
            if "seq" in x:
                head, items, sep, tail = "{ ", x["seq"], " ; ", " }"
            elif "par" in x:
                head, items, sep, tail = "< ", x["par"], " | ", " >"
            elif "loop" in x:
                head, items, sep, tail = f"loop {count(x['loop'])} {{ ", x["body"], " ; ", " }"
            elif x["sub"] is None:
                head, items, sep, tail = "subcircuit { ", x["body"], " ; ", " }"
            else:
                head, items, sep, tail = f"subcircuit {count(x['sub'])} {{ ", x["body"], " ; ", " }"
            seqd = [tail]
            for k in range(len(items) - 1, -1, -1):
                seqd.append(items[k])
                if k:
                    seqd.append(sep)
            seqd.append(head)
            work.extend(seqd)
        return "".join(out)

    lines = [f"let {n} {fmt_num(pynum(l['value']))}" for n, l in zip(ln, p["lets"])]
    lines += [f"register {n}[{count(r['size'])}]" for n, r in zip(rn, p["regs"])]
    lines += [stmt(s) for s in p["body"]]
    sep, comments = style.get("sep", "nl"), style.get("comments", False)
    out = []
    for k, line in enumerate(lines):
        if comments and k % 3 == 0:
            out.append(f"/* c{k} */ " if k % 2 else f"// c{k}\n")
        out.append(line)
        if comments and k % 4 == 1:
            out.append(" /* after\n */")
        s = "\n" if sep == "nl" else " ; " if sep == "semi" else ("\n" if k % 2 else " ;\n")
        out.append(s if k + 1 < len(lines) else "\n")
    return "".join(out) if out else "\n"


def sexpr_of(p, ln, rn, absent, tuples):
    """The S-expression of the program, written here (the S-expression API front end)."""
    mk = tuple if tuples else list

    def count(c):
        return int(c["i"]) if "i" in c else ln[c["ref"]]

    def arg(a):
        if "ref" in a:
            return ln[a["ref"]]
        if "r" in a:
            return rn[a["r"]]
        if "q" in a:
            return mk(["array_item", rn[a["q"]], count(a["idx"])])
        return pynum(a)

    def block(stmts):
        # iterative post-order
        root = []
        work = [(root, s) for s in reversed(stmts)]
        while work:
            dest, s = work.pop()
            if "g" in s:
                dest.append(mk(["gate", s["g"]] + [arg(a) for a in s["args"]]))
                continue
            if "seq" in s:
                node, items = ["sequential_block"], s["seq"]
                inner = node
            elif "par" in s:
                node, items = ["parallel_block"], s["par"]
                inner = node
            elif "loop" in s:
                inner = ["sequential_block"]
                node, items = ["loop", count(s["loop"]), inner], s["body"]
            else:
                node, items = ["subcircuit_block", absent if s["sub"] is None else count(s["sub"])], s["body"]
                inner = node
            dest.append(node)
            work.extend((inner, x) for x in reversed(items))
        return root

    sx = ["circuit"]
    sx += [mk(["let", n, pynum(l["value"])]) for n, l in zip(ln, p["lets"])]
    sx += [mk(["register", n, count(r["size"])]) for n, r in zip(rn, p["regs"])]
    sx += block(p["body"])
    return sx


# ------------------------------------------------------------------------------------------ the four front ends
def gates_of(v):
    return lib()["GATES"] if v.get("gates") == "typed" else None


def run_q(p, v):
    """-> (S-expression handed to build | None, circuit | None, error class | None, message)"""
    L = lib()
    qs = L["qs"]
    gates = gates_of(v)
    qv = v.get("q", {})
    captured = []
    orig = qs.build

    def spy(sexpr, **kw):
        captured.append(copy.deepcopy(sexpr))
        return orig(sexpr, **kw)

    name_kw, anon_none, sub_absent = qv.get("name_kw", False), qv.get("anon_none", False), qv.get("sub_absent", "omit")

    def declare(fn, value, name):
        if name is None:
            return fn(value, None) if anon_none else fn(value)
        return fn(value, name=name) if name_kw else fn(value, name)

    def func(Q, *extra, **kwextra):
        lets = [declare(Q.let, pynum(l["value"]), l["name"]) for l in p["lets"]]

        def cnt(c):
            return int(c["i"]) if "i" in c else lets[c["ref"]]

        regs = [declare(Q.register, cnt(r["size"]), r["name"]) for r in p["regs"]]

        def arg(a):
            if "ref" in a:
                return lets[a["ref"]]
            if "r" in a:
                return regs[a["r"]]
            if "q" in a:
                return regs[a["q"]][cnt(a["idx"])]
            return pynum(a)

        # iterative replay of the nesting with an explicit stack of context managers
        work = [("stmt", s) for s in reversed(p["body"])]
        while work:
            kind, s = work.pop()
            if kind == "exit":
                s.__exit__(None, None, None)
                continue
            if "g" in s:
                getattr(Q, s["g"])(*[arg(a) for a in s["args"]])
                continue
            if "seq" in s:
                cm, items = Q.sequential(), s["seq"]
            elif "par" in s:
                cm, items = Q.parallel(), s["par"]
            elif "loop" in s:
                cm, items = Q.loop(cnt(s["loop"])), s["body"]
            elif s["sub"] is None:
                cm = Q.subcircuit() if sub_absent == "omit" else Q.subcircuit(None) if sub_absent == "none" else Q.subcircuit(argument=None)
                items = s["body"]
            else:
                cm, items = Q.subcircuit(cnt(s["sub"])), s["body"]
            cm.__enter__()
            work.append(("exit", cm))
            work.extend(("stmt", x) for x in reversed(items))

    deco = qv.get("deco", "kw")
    if deco in ("bare", "call") and gates is not None:
        deco = "kw"         # the two spellings without arguments cannot carry a gate set
    extra = qv.get("extra_args", False)
    if extra:
        def target(Q, a, b=2, *, c=3):
            return func(Q, a, b, c=c)
    else:
        def target(Q):
            return func(Q)

    def go():
        if deco == "bare":
            f = L["circuit"](target)
        elif deco == "call":
            f = L["circuit"]()(target)
        elif deco == "noauto":
            f = L["circuit"](inject_pulses=gates, autoload_pulses=False)(target)
        else:
            f = L["circuit"](inject_pulses=gates, autoload_pulses="ignore")(target)
        res = None
        for _ in range(qv.get("calls", 1)):
            res = f(1) if extra else f()
        return res

    qs.build = spy
    try:
        circ, err, msg = guarded(go)
    finally:
        qs.build = orig
    return (captured[-1] if captured else None), circ, err, msg


def run_oo(p, ln, rn, v):
    L = lib()
    CB, SBB = L["CircuitBuilder"], L["SequentialBlockBuilder"]
    gates = gates_of(v)
    ov = v.get("oo", {})
    objects = ov.get("mode", "uneval") == "objects"
    sub_absent = ov.get("sub_absent", "omit")

    def go():
        ctor = ov.get("ctor", "kw")
        if gates is None and ctor == "default":
            cb = CB()
        elif ctor == "pos":
            cb = CB(gates)
        else:
            cb = CB(native_gates=gates)
        lets, regs = [], []

        def cnt(c):
            if "i" in c:
                return int(c["i"])
            return lets[c["ref"]]

        for n, l in zip(ln, p["lets"]):
            if objects:
                lets.append(cb.let(n, pynum(l["value"])))
            else:
                cb.let(n, pynum(l["value"]), unevaluated=True)
                lets.append(n)
        for n, r in zip(rn, p["regs"]):
            if objects:
                regs.append(cb.register(n, cnt(r["size"])))
            else:
                cb.register(n, cnt(r["size"]), unevaluated=True)
                regs.append(n)

        def arg(a):
            if "ref" in a:
                return lets[a["ref"]]
            if "r" in a:
                return regs[a["r"]]
            if "q" in a:
                if objects:
                    return regs[a["q"]][cnt(a["idx"])]
                return ("array_item", regs[a["q"]], cnt(a["idx"]))
            return pynum(a)

        work = [(cb, s) for s in reversed(p["body"])]
        while work:
            b, s = work.pop()
            if "g" in s:
                b.gate(s["g"], *[arg(a) for a in s["args"]])
                continue
            if "seq" in s:
                nb, items = b.block(), s["seq"]
            elif "par" in s:
                nb, items = b.block(parallel=True), s["par"]
            elif "loop" in s:
                nb, items = SBB(), s["body"]
                # the loop statement holds the inner builder's expression list, filled afterwards
                b.loop(cnt(s["loop"]), nb, unevaluated=True)
            elif s["sub"] is None:
                nb = b.subcircuit() if sub_absent == "omit" else b.subcircuit(None) if sub_absent == "none" else b.subcircuit(iterations=None)
                items = s["body"]
            else:
                nb, items = b.subcircuit(cnt(s["sub"])), s["body"]
            work.extend((nb, x) for x in reversed(items))
        return cb.build(None) if ov.get("build", "plain") == "none" else cb.build()

    circ, err, msg = guarded(go)
    return circ, err, msg


def run_sx(p, ln, rn, v):
    L = lib()
    gates = gates_of(v)
    sv = v.get("sx", {})
    absent = "" if sv.get("absent", "") == "" else None

    def go():
        sx = sexpr_of(p, ln, rn, absent, sv.get("tuples", False))
        if sv.get("call", "kw") == "default" and gates is None:
            return L["build"](sx)
        return L["build"](sx, inject_pulses=gates, autoload_pulses=False)

    return guarded(go)


def run_text(text, v):
    L = lib()
    gates = gates_of(v)
    tv = v.get("text", {})
    api = tv.get("api", "anchor")

    def go():
        if api == "anchor":
            return L["parse_jaqal_string"](text, inject_pulses=gates, autoload_pulses=False)
        if api == "defaults" and gates is not None:     # autoload_pulses left at its default: no usepulses statement in the text, nothing to load
            return L["parse_jaqal_string"](text, inject_pulses=gates)
        if api == "defaults":       # without a gate set the default (autoload_pulses=True) means "gates come from usepulses": not this program
            return L["parse_jaqal_string"](text, inject_pulses=gates, autoload_pulses=False)
        if api == "ret_usepulses":
            c, up = L["parse_jaqal_string"](text, inject_pulses=gates, autoload_pulses=False, return_usepulses=True)
            if not (isinstance(up, dict) and list(up) == ["usepulses"] and not up["usepulses"]):
                raise AssertionError(f"return_usepulses gave {up!r} for a text without usepulses")
            return c
        if api == "override_none":
            return L["parse_jaqal_string"](text, override_dict=None, inject_pulses=gates, autoload_pulses=False)
        if api == "override_empty":
            return L["parse_jaqal_string"](text, override_dict={}, inject_pulses=gates, autoload_pulses=False)
        if api == "file":
            fd, path = tempfile.mkstemp(suffix=".jaqal", prefix="c17_scale_")
            try:
                with os.fdopen(fd, "w") as f:
                    f.write(text)
                return L["parse_jaqal_file"](path, inject_pulses=gates, autoload_pulses=False)
            finally:
                os.unlink(path)
        raise ValueError(api)

    return guarded(go)


def circuits_equal(a, b):
    dump = lib()["dump"]
    problems = []
    if not (a == b):
        problems.append("a == b is False")
    if not (b == a):
        problems.append("b == a is False")
    if a != b:
        problems.append("a != b is True")
    try:
        if dump.circuit(a) != dump.circuit(b):
            problems.append("dump.circuit differs")
    except dump.Undumpable as e:
        problems.append(f"undumpable: {e}")
    return problems


# ------------------------------------------------------------------------------------------ name pools
LOOKALIKE_FIRST = ["prepare", "prep", "p", "all", "_all", "e", "_", "are", "repare_all", "prepare_al", "prepare_all_",
                   "prepare_all1", "Prepare_all", "PREPARE_ALL", "prepare__all", "prepare.all", "prepare_all.x",
                   "x.prepare_all", "prepare_all.prepare_all", "prepare_allprepare_all", "measure_all", "measure", "prepare_all.0",
                   "subcircuit_", "subcircuit.x", "sub", "subcircuit_block", "prepare_al.l", "pre.pare_all", "_prepare_all"]


def substrings(word):
    """Every contiguous proper substring of `word` that is an identifier (a test `name in "prepare_all"` accepts them all)."""
    out = {word[a:b] for a in range(len(word)) for b in range(a + 1, len(word) + 1)} - {word}
    return sorted(n for n in out if is_ident(n))


def keywordish():
    out = []
    for kw in sorted(KEYWORDS) + ["case", "prepare_all", "measure_all"]:
        out += [kw[:-1], kw[1:], kw + "_", "_" + kw, kw + "0", kw.upper(), kw.capitalize(), kw + "." + kw, kw + ".x",
                "x." + kw, kw + kw, kw + "._", kw[:2]]
    return [n for n in dict.fromkeys(out) if is_ident(n)]


MARKERS = ["circuit", "gate", "sequential_block", "parallel_block", "subcircuit_block", "array_item", "array_slice",
           "unscheduled_block", "case", "all", "None", "True", "False", "pi", "int", "float", "self", "Q", "q", "inf", "nan",
           "e5", "E1", "_1", "x1e5", "b0", "a.0", "a.1e5", "a.b.c", "O0", "l1", "I", "__c", "__r", "__c_", "__r_", "_c0", "__C0"]
DUNDER = ["__macro__", "__c10", "__r0", "__c0", "__r10", "__c1", "__", "_", "___", "__x__", "__c0__", "__r0.x", "x.__c0",
          "__c.0", "__c0.0", "__c00", "__c010", "__main__", "__name", "__gate", "__let__", "_Q__c0"]
DOTTED_BASE = ["x", "cal", "Rx", "q", "r", "a", "n", "Foo", "pulse", "std"]


def dotted_family(rng):
    """A few names that differ only by a dotted prefix / suffix."""
    b = rng.choice(DOTTED_BASE)
    pre = rng.choice(DOTTED_BASE + ["cal", "qscout.v1", "_", "a.b"])
    fam = [b, f"{pre}.{b}", f"{b}.{pre}", f"{pre}.{b}.{pre}", f"{pre}.{pre}.{b}", f"{b}.0", f"{b}.{b}", f"{pre}.{b}_", f"{pre}_{b}"]
    return [n for n in dict.fromkeys(fam) if is_ident(n)]


def name_pool(rng, kind):
    if kind == "dotted":
        return dotted_family(rng) + dotted_family(rng)
    if kind == "dunder":
        return list(DUNDER)
    if kind == "keyword":
        return keywordish()
    if kind == "marker":
        return list(MARKERS)
    if kind == "lookalike":
        return [n for n in LOOKALIKE_FIRST if is_ident(n)]
    return dotted_family(rng) + rng.sample(DUNDER, 5) + rng.sample(keywordish(), 8) + rng.sample(MARKERS, 6) + rng.sample(LOOKALIKE_FIRST, 5)


# ------------------------------------------------------------------------------------------ small random programs (ident / defaults)
TYPED = {"X": "q", "Y": "q", "Z": "q", "S": "q", "SX": "q", "P": "qi", "PF": "fq", "CX": "qq", "CZ": "qq", "SWAP": "qq", "CCX": "qqq"}
FLOATS = ["0.5", "1.5", "-2.25", "3.14", "1e-07", "2.0", "0.0", "-0.0", "1e+16", "12345.678", "6.02e+23", "0.30000000000000004",
          "5e-324", "1.7976931348623157e+308", "-1e-300"]
INTS = [0, 1, 2, 3, -1, -7, 10, 255, 256, 2**31, 2**40, 2**63, 2**64, -(2**65), 10**30]


class Small:
    """A small grammatical program all three front ends accept (mostly): one register (or none), lets, gates
    with numeric / let / qubit arguments, nested blocks, loops, subcircuits with literal / let / absent counts."""

    def __init__(self, rng, typed, let_names, reg_name, gate_names, first_gate=None):
        self.rng, self.typed = rng, typed
        self.gate_names = gate_names
        self.first_gate = first_gate
        self.arity = {}
        self.lets, self.values = [], []
        for nm in let_names:
            r = rng.random()
            v = rng.choice([1, 1, 2, 2, 3, 4, 7]) if r < 0.6 else rng.choice(INTS) if r < 0.75 else float(rng.choice(FLOATS))
            self.lets.append({"name": nm, "value": I(v) if isinstance(v, int) else F(v)})
            self.values.append(v)
        self.regs = []
        self.size = 0
        if reg_name is not False:
            pos = [k for k, x in enumerate(self.values) if isinstance(x, int) and 1 <= x <= 64]
            if pos and rng.random() < 0.35:
                k = rng.choice(pos)
                self.size, sz = self.values[k], {"ref": k}
            else:
                self.size = rng.choice([1, 2, 3, 4, 4, 5, 8])
                sz = I(self.size)
            self.regs.append({"name": reg_name, "size": sz})

    def small_int_lets(self, lo, hi):
        return [k for k, x in enumerate(self.values) if isinstance(x, int) and not isinstance(x, bool) and lo <= x < hi]

    def index(self):
        ok = self.small_int_lets(0, self.size)
        if ok and self.rng.random() < 0.3:
            return {"ref": self.rng.choice(ok)}
        return I(self.rng.randrange(self.size))

    def count(self, lits):
        ok = self.small_int_lets(1, 10**9)
        if ok and self.rng.random() < 0.35:
            return {"ref": self.rng.choice(ok)}
        return I(self.rng.choice(lits))

    def arg(self):
        rng = self.rng
        k = rng.choice("nnfrqql")
        if k == "l" and self.lets:
            return {"ref": rng.randrange(len(self.lets))}
        if k == "q" and self.size:
            return {"q": 0, "idx": self.index()}
        if k == "r" and self.size:
            return {"r": 0}
        if k == "f":
            return F(float(rng.choice(FLOATS)))
        return I(rng.choice(INTS))

    def gate(self, name=None):
        rng = self.rng
        if self.typed:
            usable = [g for g, sig in TYPED.items() if sig.count("q") <= self.size]
            if not usable:
                return dict(PREP) if rng.random() < 0.5 else dict(MEAS)
            name = rng.choice(usable)
            qs = rng.sample(range(self.size), TYPED[name].count("q"))
            args = []
            for k in TYPED[name]:
                if k == "q":
                    args.append({"q": 0, "idx": I(qs.pop())})
                elif k == "i":
                    ok = self.small_int_lets(-10**9, 10**9)
                    args.append({"ref": rng.choice(ok)} if ok and rng.random() < 0.3 else I(rng.choice([0, 1, 2, 3, -1])))
                else:
                    args.append({"ref": rng.randrange(len(self.lets))} if self.lets and rng.random() < 0.3 else F(float(rng.choice(FLOATS))))
            return {"g": name, "args": args}
        if name is None:
            name = rng.choice(self.gate_names)
        if name in ("prepare_all", "measure_all"):
            return {"g": name, "args": []}
        n = self.arity.setdefault(name, rng.choice([0, 1, 1, 2, 2, 3]))
        return {"g": name, "args": [self.arg() for _ in range(n)]}

    def stmts(self, depth, ctx, in_sub, in_par, lo=0):
        return [self.stmt(depth, ctx, in_sub, in_par) for _ in range(self.rng.choice([lo, 1, 1, 2, 2, 3]))]

    def stmt(self, depth, ctx, in_sub, in_par):
        rng = self.rng
        if depth <= 0 or rng.random() < 0.45:
            return self.gate()
        sub_ok = not (in_sub or in_par)
        if ctx == "top":
            kinds = ["seq", "par", "loop"] + (["sub", "sub"] if sub_ok else [])
        elif ctx == "seq":
            kinds = ["par", "loop"] + (["sub"] if sub_ok else [])
        else:
            kinds = ["seq"]
        k = rng.choice(kinds)
        if k == "seq":
            return {"seq": self.stmts(depth - 1, "seq", in_sub, in_par)}
        if k == "par":
            return {"par": self.stmts(depth - 1, "par", in_sub, True)}
        if k == "loop":
            return {"loop": self.count([0, 1, 2, 3, 5, 100]), "body": self.stmts(depth - 1, "seq", in_sub, in_par)}
        c = None if rng.random() < 0.45 else self.count([1, 1, 2, 10, 100])
        return {"sub": c, "body": self.stmts(depth - 1, "seq", True, in_par)}

    def body(self):
        rng = self.rng
        body = [self.stmt(rng.choice([1, 2, 3]), "top", False, False) for _ in range(rng.choice([0, 1, 2, 3, 3, 4]))]
        r = rng.random()
        if self.first_gate is not None:
            # the look-alike as the first gate, directly or as the first statement of nested blocks / a loop
            g = self.gate(self.first_gate) if not self.typed else self.gate()
            g = {"g": self.first_gate, "args": g["args"] if not self.typed else []}
            k = rng.choice(["direct", "seq", "par", "loop", "seqpar"])
            first = g if k == "direct" else {"seq": [g]} if k == "seq" else {"par": [g]} if k == "par" else \
                {"loop": I(2), "body": [g]} if k == "loop" else {"seq": [{"par": [g, self.gate()]}]}
            body = [first] + body
        elif r < 0.2:
            body = [dict(PREP)] + body + [dict(MEAS)]
        elif r < 0.4:
            inner = [dict(PREP)] if rng.random() < 0.7 else []
            inner += [self.gate() for _ in range(rng.choice([0, 1, 2]))]
            k = rng.choice(["seq", "par", "loop", "loop0", "emptyseq", "sub"])
            first = {"seq": inner} if k == "seq" else {"par": inner} if k == "par" else {"loop": I(2), "body": inner} if k == "loop" else \
                {"loop": I(0), "body": inner} if k == "loop0" else {"seq": []} if k == "emptyseq" else {"sub": None, "body": inner}
            body = [first] + body
        return body

    def prog(self):
        return {"lets": self.lets, "regs": self.regs, "body": self.body()}


def distinct_names(rng, pool, k, p_anon):
    out, taken = [], set()
    for _ in range(k):
        if rng.random() < p_anon:
            out.append(None)
            continue
        for _ in range(20):
            nm = rng.choice(pool)
            if nm not in taken:
                taken.add(nm)
                out.append(nm)
                break
        else:
            out.append(None)
    return out


def ident_prog(rng, size, typed):
    kind = ["dotted", "dunder", "keyword", "marker", "lookalike", "mixed", "mixed"][size % 7]
    pool = name_pool(rng, kind)
    names = distinct_names(rng, pool, rng.choice([1, 2, 3, 4, 6]), 0.2)
    reg = False if rng.random() < 0.12 else None if rng.random() < 0.25 else next((n for n in rng.sample(pool, len(pool)) if n not in names), None)
    gpool = [n for n in pool if gate_name_ok(n)] or ["Foo"]
    gnames = rng.sample(gpool, min(len(gpool), rng.choice([2, 3, 5]))) + ["prepare_all", "measure_all", "Foo"]
    first = None
    if not typed and (kind == "lookalike" or rng.random() < 0.35):
        src = rng.choice([LOOKALIKE_FIRST, LOOKALIKE_FIRST, substrings("prepare_all"), substrings("prepare_all"), substrings("subcircuit"), keywordish()])
        first = rng.choice([n for n in src if gate_name_ok(n)])
    return Small(rng, typed, names, reg, gnames, first).prog(), kind


def defaults_prog(rng, typed):
    pool = ["a", "b", "n", "k", "x_1", "Foo", "__c0", "__c1", "__r0", "__c10", "r", "q"]
    names = distinct_names(rng, pool, rng.choice([0, 1, 2, 3, 4]), 0.45)
    reg = False if rng.random() < 0.1 else None if rng.random() < 0.45 else next(n for n in rng.sample(pool, len(pool)) if n not in names)
    return Small(rng, typed, names, reg, ["Foo", "Bar", "G_1", "prepare_all", "measure_all", "X"]).prog()


# ------------------------------------------------------------------------------------------ scale families
def namer_users(rng, s, tmpl):
    """User names of the namer's form for `s` anonymous objects -> (pattern, [names])."""
    pat = rng.choice(["one", "one", "digits", "digits", "dense", "alternate", "random", "tail", "noncanon", "beyond"])
    if pat == "one":
        ks = {rng.randrange(10, s) if s > 10 and rng.random() < 0.8 else rng.randrange(0, s + 1)}
    elif pat == "digits":
        ks = set()
        for b in (10, 100, 1000):
            if b <= s + 1:
                ks |= set(rng.sample([b - 1, b, b + 1, b + 2], rng.choice([1, 2, 3])))
        ks = ks or {rng.randrange(0, s + 1)}
    elif pat == "dense":
        m = rng.choice([s // 2, s, 10, 11, min(s, 101)])
        ks = set(range(min(m, 300)))
    elif pat == "alternate":
        ks = set(range(1, min(2 * s, 400), 2))
    elif pat == "random":
        ks = {k for k in range(s + 5) if rng.random() < 0.3}
    elif pat == "tail":
        ks = {k for k in (s - 2, s - 1, s, s + 1) if k >= 0 and rng.random() < 0.7} or {s - 1}
    elif pat == "beyond":
        ks = {s + 5, 10 * s, 10**6}
    else:
        k = rng.randrange(10, s) if s > 10 else rng.randrange(0, s + 1)
        base = tmpl.format("")
        return pat, [f"{base}0{k}", f"{base}{k}_", f"{base}{k}.x", f"{base}{k}.0", f"{base.upper()}{k}", base, f"{base}00", f"{base}.{k}",
                     f"{base}{k}e1"] + ([tmpl.format(k)] if rng.random() < 0.6 else [])
    return pat, [tmpl.format(k) for k in sorted(ks)]


def fam_anon_lets(rng, s, anon_reg=False):
    """s anonymous lets (register: named, or anonymous with `anon_reg`); user names of the namer's form."""
    pat, users = namer_users(rng, s, "__c{}")
    reg_name = "q"
    if anon_reg:
        reg_name = None
        pat2, rusers = namer_users(rng, rng.choice([1, 12, 101]), "__r{}")   # taken by LETS: one namespace
        users += [u for u in rusers if u not in users]
        pat += "+r:" + pat2
    elif users and rng.random() < 0.3:
        reg_name = users.pop(rng.randrange(len(users)))
        pat += "+as_reg"
    place = rng.choice(["before", "after", "between"])
    vals = rng.choice(["distinct", "distinct", "mod3", "same"])         # equal values must still be distinct constants
    anon = [{"name": None, "value": I(k if vals == "distinct" else k % 3 if vals == "mod3" else 2)} for k in range(s)]
    named = [{"name": u, "value": I(1000 + k)} for k, u in enumerate(users)]
    if place == "before":
        lets = named + anon
    elif place == "after":
        lets = anon + named
    else:
        lets = anon[:]
        for x in named:
            lets.insert(rng.randrange(len(lets) + 1), x)
    size = 4
    idx = sorted(set([0, len(lets) - 1] + [rng.randrange(len(lets)) for _ in range(6)]))
    body = [G("Foo", {"ref": k}, QB(k % size)) for k in idx]
    small = [k for k, l in enumerate(lets) if 1 <= int(l["value"]["i"]) <= 3]
    if small:
        body.append({"loop": {"ref": rng.choice(small)}, "body": [G("Bar", {"ref": idx[-1]})]})
    if rng.random() < 0.3:
        body = [dict(PREP)] + body + [dict(MEAS)]
    return {"lets": lets, "regs": [{"name": reg_name, "size": I(size)}], "body": body}, f"{pat}/{place}"


def fam_anon_reg(rng, s):
    """The one register is anonymous; the user's LETS (and some anonymous ones) take __r0 .. so that the counter must
    pass one- and two-digit indices."""
    pat, users = namer_users(rng, max(s, 2), "__r{}")
    if rng.random() < 0.5:
        users = [f"__r{k}" for k in range(s)] + [u for u in users if u not in {f"__r{k}" for k in range(s)}]
        pat = "prefix+" + pat
    lets = [{"name": u, "value": I(k % 5)} for k, u in enumerate(users)]
    for _ in range(rng.choice([0, 1, 12])):
        lets.insert(rng.randrange(len(lets) + 1), {"name": None, "value": I(2)})
    body = [G("Foo", QB(0), {"r": 0}), G("Bar", {"ref": len(lets) - 1}, QB(1))]
    return {"lets": lets, "regs": [{"name": None, "size": I(3)}], "body": body}, pat


def simple_names(rng, s):
    style = rng.choice(["a", "dotted", "under", "upper", "long"])
    if style == "a":
        return [f"a{k}" for k in range(s)], style
    if style == "dotted":
        return [f"cal.v{k}" if k % 2 else f"v{k}" for k in range(s)], style
    if style == "under":
        return ["_" * (k + 1) for k in range(s)] if s <= 300 else [f"_{k}" for k in range(s)], style
    if style == "upper":
        return [f"__C{k}" if k % 3 else f"__c{k}_" for k in range(s)], style
    return [f"n{k}_" + "x" * 40 for k in range(s)], style


def fam_named_lets(rng, s):
    names, style = simple_names(rng, s)
    lets = [{"name": n, "value": I(k) if k % 4 else F(k + 0.5)} for k, n in enumerate(names)]
    per = rng.choice([1, 3, 8])
    body = [G(f"G{per}", *[{"ref": k + j} for j in range(per) if k + j < s]) for k in range(0, s, per)]
    body = [b for b in body if len(b["args"]) == per] or [G("G0")]
    return {"lets": lets, "regs": [{"name": "q", "size": I(2)}], "body": body}, style


def gates_run(rng, s, size, offset=0):
    return [G(["Foo", "Bar"][k % 2], QB((k + offset) % size), I(k)) for k in range(s)]


def fam_stmts(rng, s, where):
    size = rng.choice([1, 2, 4, 7])
    run = gates_run(rng, s, size)
    lead = rng.choice(["prep", "gate", "lookalike"])
    first = dict(PREP) if lead == "prep" else G("prepare") if lead == "lookalike" else None
    inner = ([first] if first else []) + run
    if where == "top":
        body = inner + ([dict(MEAS)] if lead == "prep" else [])
    elif where == "seq":
        body = [{"seq": inner}, G("Foo", QB(0), I(0))]
    elif where == "par":
        body = [{"par": inner}]
    elif where == "loop":
        body = [{"loop": I(rng.choice([0, 1, 3, 100])), "body": inner}]
    elif where == "sub":
        body = [{"sub": rng.choice([None, I(1), I(200)]), "body": inner}]
    else:   # second: the big block is NOT the first statement
        body = [G("Foo", QB(0), I(0)), {"seq": inner}]
    return {"lets": [], "regs": [{"name": rng.choice(["q", None]), "size": I(size)}], "body": body}, f"{where}/{lead}"


def fam_siblings(rng, s):
    kinds = rng.choice([["seq"], ["par"], ["loop"], ["sub"], ["seq", "par", "loop", "sub"]])
    lets = [{"name": rng.choice(["n", None]), "value": I(3)}]
    body = []
    for k in range(s):
        kind = kinds[k % len(kinds)]
        g = [G("Foo", I(k))]
        body.append({"seq": g} if kind == "seq" else {"par": g + [G("Bar", I(k))]} if kind == "par" else
                    {"loop": rng.choice([I(k), {"ref": 0}]), "body": g} if kind == "loop" else
                    {"sub": rng.choice([None, I(k + 1), {"ref": 0}]), "body": g})
    return {"lets": lets, "regs": [], "body": body}, "+".join(kinds)


def nest(kinds, innermost):
    s = innermost
    for kind in reversed(kinds):
        s = [{"seq": s}] if kind == "seq" else [{"par": s}] if kind == "par" else [{"loop": I(2), "body": s}]
    return s


def fam_depth(rng, s, shape):
    inner_kind = rng.choice(["prep", "gate", "empty", "lookalike", "sub", "measure"])
    inner = {"prep": [dict(PREP), G("Foo", I(1))], "gate": [G("Foo", I(1))], "empty": [], "lookalike": [G(rng.choice(["prepare", "all", "p", "prepare_all_"]))],
             "sub": [{"sub": rng.choice([None, I(5)]), "body": [G("Foo", I(1))]}], "measure": [dict(MEAS)]}[inner_kind]
    if shape == "seqpar":
        kinds = [("seq", "par")[k % 2] for k in range(s)]
        if rng.random() < 0.5:
            kinds = [("par", "seq")[k % 2] for k in range(s)]
        if inner_kind == "sub":       # a subcircuit below a parallel block is refused by every front end: keep it out
            inner_kind, inner = "prep", [dict(PREP)]
    elif shape == "loop":
        kinds = ["loop"] * s
    else:
        kinds, prev = [], "top"
        par_above = False
        for _ in range(s):
            opts = ["seq", "par", "loop"] if prev == "top" else ["par", "loop", "loop"] if prev in ("seq", "loop") else ["seq"]
            k = rng.choice(opts)
            kinds.append(k)
            par_above = par_above or k == "par"
            prev = k
        if prev == "par" and inner_kind == "sub" or (par_above and inner_kind == "sub"):
            inner_kind, inner = "gate", [G("Foo", I(1))]
    if kinds and kinds[-1] == "par" and inner_kind == "sub":
        inner_kind, inner = "gate", [G("Foo", I(1))]
    nested = nest(kinds, inner)
    pos = rng.choice(["first", "first", "second"])
    body = nested + [G("Bar", I(2))] if pos == "first" else [G("Bar", I(2))] + nested
    return {"lets": [], "regs": [], "body": body}, f"{shape}/{inner_kind}/{pos}"


def fam_gate_args(rng, s):
    lets = [{"name": rng.choice(["a", None]), "value": I(1)}, {"name": "b.c", "value": F(0.25)}]
    size = 5
    args = []
    for k in range(s):
        r = k % 5
        args.append(I(k) if r == 0 else F(k + 0.5) if r == 1 else {"ref": k % 2} if r == 2 else QB(k % size) if r == 3 else I(-k))
    return {"lets": lets, "regs": [{"name": "q", "size": I(size)}], "body": [G("Wide", *args), G("Narrow", I(1))]}, "mixed"


def fam_reg_size(rng, s, typed):
    how = rng.choice(["literal", "let"])
    lets = [{"name": rng.choice(["n", None]), "value": I(s)}, {"name": rng.choice(["last", None]), "value": I(s - 1)}]
    size = I(s) if how == "literal" else {"ref": 0}
    qs = sorted({0, s - 1, s // 2, rng.randrange(s), rng.randrange(s)})
    if typed:
        body = [G("X", QB(k)) for k in qs] + [G("Y", QB({"ref": 1}))]
        if s > 1:
            body.append(G("CX", QB(0), QB(s - 1)))
    else:
        body = [G("Foo", QB(k), I(k)) for k in qs] + [G("Foo", QB({"ref": 1}), I(0)), G("Whole", {"r": 0})]
    return {"lets": lets, "regs": [{"name": rng.choice(["q", None, "__r0"]), "size": size}], "body": body}, how


def fam_counts(rng, s):
    big = rng.choice([s, 2**min(s, 70), 10**min(s, 40), s * 1000 + 1])
    lets = [{"name": rng.choice(["n", None]), "value": I(big)}]
    body = [{"sub": I(big), "body": [G("Foo", I(1))]}, {"sub": {"ref": 0}, "body": [{"loop": I(big), "body": [G("Foo", I(1))]}]},
            {"loop": {"ref": 0}, "body": [G("Bar", {"ref": 0})]}]
    if rng.random() < 0.5:
        body = [G("Foo", I(big))] + body
    return {"lets": lets, "regs": [], "body": body}, f"digits={len(str(big))}"


def fam_name_len(rng, s):
    how = rng.choice(["plain", "components", "plain"])
    if how == "plain":
        mk = lambda c: c * s
    else:
        mk = lambda c: ".".join([c] * s)
    ln, rn, gn = mk("x"), mk("r"), mk("G")
    lets = [{"name": ln, "value": I(2)}, {"name": ln + "_", "value": I(3)}, {"name": None, "value": I(1)}]
    body = [G(gn, {"ref": 0}, {"ref": 1}, QB({"ref": 2})), G(gn + "x", {"r": 0})]
    if rng.random() < 0.4:
        body = [G("prepare_all" + "_" * s)] + body
    return {"lets": lets, "regs": [{"name": rn, "size": {"ref": 0}}], "body": body}, how


def fam_num_digits(rng, s):
    n = int("".join(rng.choice("123456789") for _ in range(s)))
    lets = [{"name": "big", "value": I(n)}, {"name": None, "value": I(-n)}, {"name": "f", "value": F(float(rng.choice(FLOATS)))}]
    body = [G("Foo", I(n), I(-n), {"ref": 0}, {"ref": 1}, {"ref": 2}), G("Bar", F(float(n % 10**15) / 7.0))]
    return {"lets": lets, "regs": [], "body": body}, "int"


def fam_typed_stmts(rng, s):
    size = rng.choice([2, 3, 8, 14, s])
    lets = [{"name": rng.choice(["k", None]), "value": I(3)}, {"name": rng.choice(["t", None]), "value": F(0.5)}]
    body = []
    for k in range(s):
        g = rng.choice(["X", "Y", "Z", "P", "PF", "CX", "CZ"])
        a, b = rng.sample(range(size), 2)
        if g in ("X", "Y", "Z"):
            body.append(G(g, QB(a)))
        elif g == "P":
            body.append(G(g, QB(a), rng.choice([I(k % 4), {"ref": 0}])))
        elif g == "PF":
            body.append(G(g, rng.choice([F(k / 4.0), {"ref": 1}]), QB(a)))
        else:
            body.append(G(g, QB(a), QB(b)))
    if rng.random() < 0.5:
        body = [dict(PREP)] + body + [dict(MEAS)]
    return {"lets": lets, "regs": [{"name": rng.choice(["q", None]), "size": I(size)}], "body": body}, f"size={size}"


def fam_let_reuse(rng, s):
    lets = [{"name": rng.choice(["n", None, "__c10"]), "value": I(2)}] + [{"name": None, "value": I(7)}] * 0
    body = []
    for k in range(s):
        r = k % 4
        body.append(G("Foo", {"ref": 0}, QB({"ref": 0})) if r == 0 else {"loop": {"ref": 0}, "body": [G("Bar", {"ref": 0})]} if r == 1 else
                    {"seq": [G("Foo", {"ref": 0}, QB(0))]} if r == 2 else {"par": [G("Bar", {"ref": 0}), G("Baz", QB({"ref": 0}))]})
    return {"lets": lets, "regs": [{"name": None, "size": I(3)}], "body": body}, "one_let"


# family -> (builder(rng, size) -> (prog, shape tag), kind of size axis, gate set)
SCALE_FAMILIES = {
    "anon_lets": (lambda r, s: fam_anon_lets(r, s), "count", "anon"),
    "anon_lets_anon_reg": (lambda r, s: fam_anon_lets(r, s, anon_reg=True), "count", "anon"),
    "anon_reg": (fam_anon_reg, "count", "anon"),
    "named_lets": (fam_named_lets, "count", "anon"),
    "stmts_top": (lambda r, s: fam_stmts(r, s, "top"), "count", "anon"),
    "stmts_seq": (lambda r, s: fam_stmts(r, s, "seq"), "count", "anon"),
    "stmts_par": (lambda r, s: fam_stmts(r, s, "par"), "count", "anon"),
    "stmts_loop": (lambda r, s: fam_stmts(r, s, "loop"), "count", "anon"),
    "stmts_sub": (lambda r, s: fam_stmts(r, s, "sub"), "count", "anon"),
    "stmts_second": (lambda r, s: fam_stmts(r, s, "second"), "count", "anon"),
    "siblings": (fam_siblings, "count", "anon"),
    "depth_seqpar": (lambda r, s: fam_depth(r, s, "seqpar"), "depth", "anon"),
    "depth_loop": (lambda r, s: fam_depth(r, s, "loop"), "depth", "anon"),
    "depth_mixed": (lambda r, s: fam_depth(r, s, "mixed"), "depth", "anon"),
    "gate_args": (fam_gate_args, "count", "anon"),
    "reg_size": (lambda r, s: fam_reg_size(r, s, False), "count", "anon"),
    "reg_size_typed": (lambda r, s: fam_reg_size(r, s, True), "count", "typed"),
    "counts": (fam_counts, "count", "anon"),
    "name_len": (fam_name_len, "count", "anon"),
    "num_digits": (fam_num_digits, "count", "anon"),
    "typed_stmts": (fam_typed_stmts, "count", "typed"),
    "let_reuse": (fam_let_reuse, "count", "anon"),
}
THRESHOLDS = [8, 16, 32, 64, 128, 256]
DEPTHS = [8, 16, 20, 32, 40, 64, 100, 120]          # Python's own recursion limit is reached somewhere beyond 128 loops
EXTRA = [10, 11, 12, 20, 33, 34, 40, 49, 65, 100, 101, 200, 255, 257]


def pick_size(rng, axis, bracket, big):
    if axis == "depth":
        base = DEPTHS[bracket % len(DEPTHS)]
        return max(1, base + rng.choice([-1, 0, 0, 1]))
    if big:
        return rng.choice([999, 1000, 1001, 1024])
    if rng.random() < 0.25:
        return rng.choice(EXTRA)
    base = THRESHOLDS[bracket % len(THRESHOLDS)]
    return base + rng.choice([-1, 0, 1, 2, 3])


# ------------------------------------------------------------------------------------------ variants
def draw_variant(rng, gates, sweep=False):
    p = 0.7 if sweep else 0.35      # how often a non-anchor way of calling is drawn

    def alt(options):
        return rng.choice(options[1:]) if rng.random() < p else options[0]

    return {
        "gates": gates,
        "q": {"deco": alt(["kw", "bare", "call", "noauto"]), "name_kw": rng.random() < p / 2, "anon_none": rng.random() < p / 2,
              "sub_absent": alt(["omit", "none", "kw_none"]), "extra_args": rng.random() < p / 3, "calls": 2 if rng.random() < p / 3 else 1},
        "oo": {"ctor": alt(["kw", "default", "pos"]), "mode": alt(["uneval", "objects"]), "sub_absent": alt(["omit", "none", "kw_none"]),
               "build": alt(["plain", "none"])},
        "sx": {"absent": alt(["", "None"]), "call": alt(["kw", "default"]), "tuples": rng.random() < p / 2},
        "text": {"api": alt(["anchor", "defaults", "ret_usepulses", "override_none", "override_empty", "file"]),
                 "sep": alt(["nl", "semi", "mixed"]), "comments": rng.random() < p / 2},
    }


# ------------------------------------------------------------------------------------------ case -> program
def case_rng(case):
    return random.Random(f"{case['stream']}/{case['family']}/{case['size']}/{case['sub']}")


def build_prog(case):
    """-> (Prog, shape tag); deterministic in the descriptor."""
    rng = case_rng(case)
    if case["stream"] == "scale":
        fn, _axis, _g = SCALE_FAMILIES[case["family"]]
        return fn(rng, case["size"])
    typed = case["variant"].get("gates") == "typed"
    if case["stream"] == "ident":
        return ident_prog(rng, case["size"], typed)
    return defaults_prog(rng, typed), "small"


FIXED = [
    # the namer past one digit with the user's name in the way (lets / register's name / both templates)
    ("scale", "anon_lets", 11), ("scale", "anon_lets", 12), ("scale", "anon_lets", 13), ("scale", "anon_lets", 25),
    ("scale", "anon_lets", 101), ("scale", "anon_lets", 102), ("scale", "anon_lets", 130), ("scale", "anon_lets", 257),
    ("scale", "anon_lets_anon_reg", 12), ("scale", "anon_lets_anon_reg", 40), ("scale", "anon_reg", 10), ("scale", "anon_reg", 11),
    ("scale", "anon_reg", 12), ("scale", "anon_reg", 100), ("scale", "anon_reg", 101),
]


def gen_cases(seed, n, thorough):
    rng = random.Random(seed)
    cases = []
    # fixed descriptors, several sub-seeds each so that every pattern of user names is met at the small two-digit sizes
    for stream, fam, size in FIXED:
        for sub in range(6 if not thorough else 16):
            cases.append({"stream": stream, "family": fam, "size": size, "sub": sub,
                          "variant": draw_variant(random.Random(f"fixed/{fam}/{size}/{sub}"), SCALE_FAMILIES[fam][2])})
    fams = list(SCALE_FAMILIES)
    n_scale = n * 6 // 10
    n_ident = n * 2 // 10
    n_def = n - n_scale - n_ident
    big_every = 60 if not thorough else 25
    for k in range(n_scale):
        fam = fams[k % len(fams)]
        _fn, axis, gates = SCALE_FAMILIES[fam]
        bracket = (k // len(fams)) % max(len(THRESHOLDS), len(DEPTHS))
        big = axis == "count" and k % big_every == big_every - 1
        size = pick_size(rng, axis, bracket, big)
        if big and fam in ("depth_seqpar", "depth_loop", "depth_mixed"):
            size = 100
        cases.append({"stream": "scale", "family": fam, "size": size, "sub": rng.randrange(10**6), "variant": draw_variant(rng, gates)})
    for k in range(n_ident):
        gates = "typed" if rng.random() < 0.15 else "anon"
        cases.append({"stream": "ident", "family": "names", "size": k, "sub": rng.randrange(10**6), "variant": draw_variant(rng, gates)})
    for k in range(n_def):
        gates = "typed" if rng.random() < 0.3 else "anon"
        cases.append({"stream": "defaults", "family": "small", "size": k, "sub": rng.randrange(10**6), "variant": draw_variant(rng, gates, sweep=True)})
    return cases


# ------------------------------------------------------------------------------------------ evaluation of one case
def header_of(sx):
    lets = [e[1] for e in sx[1:] if isinstance(e, (list, tuple)) and e and e[0] == "let"]
    regs = [e[1] for e in sx[1:] if isinstance(e, (list, tuple)) and e and e[0] == "register"]
    body = [e for e in sx[1:] if not (isinstance(e, (list, tuple)) and e and e[0] in ("let", "register", "usepulses"))]
    return lets, regs, body


def fresh_detail(p, lets, regs):
    bad = []
    if len(lets) != len(p["lets"]) or len(regs) != len(p["regs"]):
        return f"header has {len(lets)} lets / {len(regs)} registers for {len(p['lets'])} / {len(p['regs'])} declared"
    user = [x["name"] for x in p["lets"] + p["regs"] if x["name"] is not None]
    got = list(zip(lets, p["lets"])) + list(zip(regs, p["regs"]))
    moved = [(n, x["name"]) for n, x in got if x["name"] is not None and n != x["name"]]
    if moved:
        bad.append(f"user names changed: {moved[:3]}")
    gen = [n for n, x in got if x["name"] is None]
    if any(not isinstance(n, str) for n in gen):
        bad.append(f"generated names that are not strings: {[n for n in gen if not isinstance(n, str)][:3]}")
        return "; ".join(bad)
    c = Counter(gen)
    rep = sorted(n for n, k in c.items() if k > 1)
    if rep:
        bad.append(f"generated names repeat: {rep[:5]}")
    clash = sorted(set(gen) & set(user))
    if clash:
        bad.append(f"generated names {clash[:5]} are names the user chose")
    return "; ".join(bad)


def is_gate(e, name):
    return isinstance(e, (list, tuple)) and len(e) == 2 and e[0] == "gate" and e[1] == name


def evaluate(case):
    """-> {"oracles": {name: None | "" | detail}, "features": [..], "text": str}"""
    p, shape = build_prog(case)
    v = case["variant"]
    stream = case["stream"]
    begins = begins_prep_or_sub(p["body"])
    pw = p if begins else wrapped(p)
    res = {}
    feats = [f"stream={stream}", f"family={case['family']}", f"gates={v.get('gates')}", "begins_prep_or_sub" if begins else "wrapped"]
    if stream == "scale":
        feats += [f"size<={next((t for t in (8, 16, 32, 64, 128, 256, 512, 1024) if case['size'] <= t), 'more')}",
                  f"shape:{case['family']}:{shape.split('/')[0]}"]
    else:
        feats.append(f"shape:{stream}:{shape}")
    for part in ("q", "oo", "sx", "text"):
        for k, val in v.get(part, {}).items():
            feats.append(f"variant:{part}.{k}={val}")

    q_sx, q_c, q_err, q_msg = run_q(p, v)
    # ---- fresh_names / wrap_iff on what Q-syntax handed to build
    names_ok = False
    if q_sx is not None:
        lets, regs, sbody = header_of(q_sx)
        d = fresh_detail(p, lets, regs)
        res["fresh_names"] = d
        names_ok = not d
        n = len(p["body"])
        is_wrapped = len(sbody) == n + 2 and is_gate(sbody[0], "prepare_all") and is_gate(sbody[-1], "measure_all")
        is_plain = len(sbody) == n
        if begins:
            ok = is_plain
        else:
            ok = is_wrapped
        d = "" if ok else (f"begins_prep_or_sub={begins} but Q-syntax handed build {len(sbody)} statements for {n} written"
                           f" (first {str(sbody[0])[:60] if sbody else None}, last {str(sbody[-1])[:60] if sbody else None})")
        if ok and q_c is not None:
            st = q_c.body.statements
            if len(st) != len(pw["body"]):
                d = f"the circuit has {len(st)} top-level statements, expected {len(pw['body'])}"
            elif not begins and not (getattr(st[0], "name", None) == "prepare_all" and getattr(st[-1], "name", None) == "measure_all"):
                d = "the circuit is not wrapped in prepare_all .. measure_all"
        res["wrap_iff"] = d
    else:
        res["fresh_names"] = None
        res["wrap_iff"] = None
    if names_ok:
        ln, rn = list(lets), list(regs)
        feats.append("names:from_Q")
    else:
        ln, rn = ref_names(p)
        feats.append("names:reference")
    style = v.get("text", {})
    text = render(pw, ln, rn, style)
    o_c, o_err, o_msg = run_oo(pw, ln, rn, v)
    s_c, s_err, s_msg = run_sx(pw, ln, rn, v)
    t_c, t_err, t_msg = run_text(text, v)
    fronts = [("Q", q_c, q_err, q_msg), ("OO", o_c, o_err, o_msg), ("SX", s_c, s_err, s_msg), ("text", t_c, t_err, t_msg)]
    for nm, _c, e, _m in fronts:
        feats.append(f"{nm}:{e or 'ok'}")
    errs = [e for _n, _c, e, _m in fronts]
    name = f"{stream}_equal"
    summary = " ".join(f"{nm}={m or 'ok'}" for nm, _c, _e, m in fronts)
    if "RecursionError" in errs:
        res[name] = None
        feats.append("skipped:recursion")
    elif any(e is not None and e != "JaqalError" for e in errs):
        res[name] = "non-Jaqal exception: " + summary
    elif any(errs) and not all(errs):
        res[name] = "accept/reject differs: " + summary
    elif all(errs):
        res[name] = ""
        feats.append("all_reject")
    else:
        pr = []
        for (na, a), (nb, b) in ((("Q", q_c), ("OO", o_c)), (("Q", q_c), ("SX", s_c)), (("Q", q_c), ("text", t_c)), (("OO", o_c), ("text", t_c))):
            pr += [f"{na} vs {nb}: {x}" for x in circuits_equal(a, b)]
        res[name] = "; ".join(pr)
        feats.append("all_accept")
    return {"oracles": res, "features": feats, "text": text, "prog": p}


ORACLES = ("scale_equal", "ident_equal", "defaults_equal", "wrap_iff", "fresh_names")


def clip(text, k=900):
    return text if len(text) <= k else text[:k // 2] + f" ...[{len(text) - k} characters]... " + text[-k // 2:]


def run(seed: int, n: int, driver: str = DEFAULT_DRIVER, thorough: bool = False) -> dict:
    """`n` random cases (60 % scale, 20 % identifiers, 20 % defaults) after the fixed descriptors; `thorough` draws the
    size-1000 programs more often and more sub-seeds of the fixed descriptors (pass a larger `n` as well)."""
    lib()
    cases = gen_cases(seed, n, thorough)
    oracle = {k: {"cases": 0, "failures": []} for k in ORACLES}
    dist = Counter()
    distinct = set()
    samples = []
    for c in cases:
        ev = evaluate(c)
        for f in ev["features"]:
            dist[f] += 1
        if ev["prog"]["body"]:
            distinct.add(json.dumps(ev["prog"], sort_keys=True) + json.dumps(c["variant"], sort_keys=True))
        for name, detail in ev["oracles"].items():
            if detail is None:
                continue
            oracle[name]["cases"] += 1
            if detail:
                dist["FAIL:" + name] += 1
                if len(oracle[name]["failures"]) < 20:
                    oracle[name]["failures"].append({"case": c, "detail": detail + " | text expected: " + clip(ev["text"])})
        if len(samples) < 5 and c["stream"] != "scale" or len(samples) < 2:
            samples.append(c)
    return {"corr": {}, "oracle": oracle, "distribution": dict(sorted(dist.items())), "samples": samples[:5], "nontrivial": len(distinct)}


def replay(case: dict, driver: str = DEFAULT_DRIVER) -> dict:
    lib()
    ev = evaluate(case)
    bad = {k: v for k, v in ev["oracles"].items() if v}
    applicable = any(v is not None for v in ev["oracles"].values())
    return {"oracle_ok": (not bad) if applicable else None,
            "detail": json.dumps({"oracles": ev["oracles"], "text_expected": clip(ev["text"], 2000),
                                  "fronts": [f for f in ev["features"] if f.split(":")[0] in ("Q", "OO", "SX", "text")]})}


def main():
    ap = argparse.ArgumentParser()
    ap.add_argument("--driver", default=DEFAULT_DRIVER)
    ap.add_argument("--n", type=int, default=400)
    ap.add_argument("--seed", type=int, default=0)
    ap.add_argument("--thorough", action="store_true")
    ap.add_argument("--json", action="store_true")
    a = ap.parse_args()
    r = run(a.seed, a.n, a.driver, a.thorough)
    if a.json:
        print(json.dumps(r, indent=1))
    bad = 0
    for op, v in r["oracle"].items():
        print(f"oracle {op:15s} cases={v['cases']:6d} failures={len(v['failures'])}")
        bad += len(v["failures"])
        for d in v["failures"][:3]:
            print("   ", json.dumps(d)[:1800])
    print("distribution:", json.dumps(r["distribution"]))
    print("nontrivial distinct cases:", r["nontrivial"])
    sys.exit(1 if bad else 0)


if __name__ == "__main__":
    main()
