"""Property C18 - fourth-round stream: SCALE, unusual IDENTIFIERS, DEFAULTS / option combinations and VALUE KINDS.

Oracles only (`"corr": {}`).  Every expectation is computed in this script from the text of C18, never from the library.

oracle
  accept_iff_kind      : a call is accepted exactly when the number of arguments matches and every argument fits the declared
                         kind.  The value universe contains what the usual int / float / qubit / register / let / parameter
                         matrix does not: TEXT (str, bytes, bytearray, str subclasses; '3', '2.5', ' 7 ', '1e3', 'nan', '٣' ...),
                         containers, None / Ellipsis / object / functions / classes, library objects of the wrong sort,
                         subclasses of int and float (IntEnum, numpy.float64 - accepted like their base class), and a GRAY class
                         (numpy integers, float32, Fraction, Decimal, zero-imaginary complex, objects with __float__ / __index__)
                         on which the property is silent: no verdict is demanded there, only the three oracles below.  A value
                         is offered in every position (first / middle / last, and in the trailing `stretch` position of a
                         stretched gate), positionally and by keyword, to the gate itself, its idle gate, its stretched variant
                         and the idle gate of the stretched variant (same signature => same verdict).
                         At SCALE: signatures of 7..257 (thorough: ..1025) parameters, exact arity / one short / one long / none,
                         one missing / unknown / near-miss keyword, ONE unfitting argument at a position on either side of
                         every threshold 8, 16, 32, 64, 128, 256.
  kw_eq_pos            : positional and keyword (any order) calls give the same statement: same gate name, parameter names in
                         declared order, the very objects passed - or are both refused.
  reject_is_JaqalError : a refused call raises JaqalError, nothing else.
  idle_derived         : add_idle_gates on sets of 7..257 (thorough 1000) active gates whose names are dotted, dunder, longer
                         than 255 characters, keyword-like, `I_`-prefixed, or near misses of prepare_all / measure_all: every
                         active gate other than prepare_all / measure_all has I_<name> with the same signature, no used qubits,
                         no unitary; IdleGateDefinition(g) / (g, None) / (g, name=None) agree.
  stretch_variant      : stretched_gates for every combination of the optional arguments (none given, suffix None / "" / "_s" /
                         ".s" / a 300-character suffix, update False / True / not given) on such sets, with / without idle gates,
                         idle gates without their parents, idle gates before their parents: result[name+suffix] has the
                         parent's parameters plus a trailing FLOAT `stretch`, and its ideal_unitary gives the parent's for every
                         factor (0, -0.0, negative, 1e308, 5e-324, inf, nan, huge ints, bool, numpy.float64) and 0..257
                         classical arguments; the stretched idle gate has that signature, no qubits, no unitary.
  emulator_idle_stretch: the real emulator (run_jaqal_circuit with no backend / backend= / emulator_backend= / force_sim=True,
                         and the backend called directly) on programs using idle and stretched gates gives the state vectors of
                         the same program with the idle statements removed and the stretched gates replaced by their parents,
                         run with a gate set that has no idle / stretched gates at all.  One dimension crosses the thresholds
                         while the rest stays small: statements per block (.. 256, thorough 1000), nesting depth (.. 64),
                         loop iterations (.. 256), macro chains (.. 130), let constants (.. 256), subcircuits (.. 128),
                         register size (.. 12, thorough 14), name length (> 255).  An independent state-vector simulation of
                         the flattened program is computed as well; when the run WITHOUT idle / stretched gates deviates from
                         it the case is counted in `distribution` (`emu:base_run_differs(not C18)`) and not reported here.

A parameter named `self` (legal in Jaqal: `macro foo self { ... }`) is part of the keyword streams: g(self=q) must give the statement
of g(q) (repaired in /repo commit 6ee23b2: AbstractGate.call / __call__ take `self` positional-only).

CLI: PYTHONPATH=/verif /venv/bin/python -m harness.agents.c18_scale [--seed S] [--n N] [--thorough]
"""
import enum
import json
import math
import os
import random
import signal
import sys
import warnings

DEFAULT_DRIVER = "/verif/lean/.lake/build/bin/jaqal-model"
THRESH = [8, 16, 32, 64, 128, 256]
KINDS = ["QUBIT", "FLOAT", "REGISTER", "INT", None]

_real = {}


def real():
    if _real:
        return _real
    os.environ["JAQALPAQ_RUN_EMULATOR"] = "1"
    import numpy
    from jaqalpaq.error import JaqalError
    from jaqalpaq.core.parameter import Parameter, ParamType
    from jaqalpaq.core.constant import Constant
    from jaqalpaq.core.register import Register, NamedQubit
    from jaqalpaq.core.macro import Macro
    from jaqalpaq.core.gate import GateStatement
    from jaqalpaq.core.gatedef import GateDefinition, IdleGateDefinition, BusyGateDefinition, add_idle_gates
    from jaqalpaq.core.stretch import stretched_gates
    from harness import timeouts

    _real.update(np=numpy, JaqalError=JaqalError, Parameter=Parameter, ParamType=ParamType, Constant=Constant,
                 Register=Register, NamedQubit=NamedQubit, Macro=Macro, GateStatement=GateStatement,
                 GateDefinition=GateDefinition, IdleGateDefinition=IdleGateDefinition,
                 BusyGateDefinition=BusyGateDefinition, add_idle_gates=add_idle_gates, stretched_gates=stretched_gates, T=timeouts)
    return _real


def canon(x):
    return json.dumps(x, sort_keys=True, separators=(",", ":"), default=str)


def ptype(k):
    PT = real()["ParamType"]
    return PT.NONE if k is None else PT[k]


class Hang(BaseException):
    pass


def _alarm(*_a):
    raise Hang()


def guarded(f, scale=1):
    """Run f() under the alarm -> ("ok", value) | ("hang", None).  Exceptions of f propagate."""
    T = real()["T"]
    old = signal.signal(signal.SIGALRM, _alarm)
    signal.alarm(int(T.limit(scale)))
    try:
        try:
            return "ok", f()
        finally:
            signal.alarm(0)
            signal.signal(signal.SIGALRM, old)
    except Hang:
        T.saw_hang()
        return "hang", None


# ====================================================================================================== identifiers
NEAR = ["prepare", "prepare_", "prepare_al", "prepare_all_", "prepare_allx", "prepare_all2", "prepare_all.x", "x.prepare_all",
        "xprepare_all", "Prepare_all", "PREPARE_ALL", "prepare_All", "prepare__all", "prepareall", "prepare_plus", "prepare_q",
        "measure", "measure_", "measure_al", "measure_all_", "measure_allx", "measure_all.z", "z.measure_all", "Measure_all",
        "measure_basis", "measure_q", "premeasure_all", "prepare_all_measure_all", "I_prepare_all", "I_measure_all", "all", "_all",
        "prepare_some", "measure_some", "p", "m", "prep", "meas"]
KWLIKE = ["lets", "registers", "maps", "macros", "loops", "from_", "usepulse", "as_", "pis", "subcircuits", "imports", "le", "ma",
          "reg", "loo", "subcirc", "usepulses_", "letx", "piX"]
GATE_STYLES = ["plain", "dotted", "dunder", "long", "kwlike", "iprefix", "near", "pairs", "marker"]
MARKERS = ["__macro__", "__c10", "__r0", "__let__", "__loop__", "__block__", "__anon0", "__anonymous_11", "_", "__", "___", "I", "I_",
           "I__", "_s", "_I_", "__stretch__", "stretch", "__parent_def", "_parent_def", "ideal_unitary", "None", "True", "lambda", "self"]


def style_name(style, i):
    """The i-th distinct gate name of a style (all legal Jaqal identifiers, possibly qualified)."""
    if style == "plain":
        return f"G{i}"
    if style == "dotted":
        return [f"cal.G{i}", f"a.b.G{i}", f"G{i}.x", f"cal.sub.deep.G{i}"][i % 4]
    if style == "dunder":
        return [f"__g{i}__", f"__c{i}", f"__r{i}", f"_G{i}", f"__G{i}"][i % 5]
    if style == "long":
        return f"G{i}_" + "x" * (250 + i % 20)
    if style == "kwlike":
        return KWLIKE[i % len(KWLIKE)] + (str(i // len(KWLIKE)) if i >= len(KWLIKE) else "")
    if style == "iprefix":
        return [f"I_G{i}", f"I_I_G{i}", f"I_.G{i}", f"I_cal.G{i}"][i % 4]
    if style == "near":
        return NEAR[i] if i < len(NEAR) else f"prepare_all{i}" if i % 2 else f"measure_all_{i}"
    if style == "pairs":
        b = f"G{i // 4}"
        return [b, "cal." + b, b + ".cal", "__" + b][i % 4]
    if style == "marker":
        return MARKERS[i] if i < len(MARKERS) else f"__c{i}"
    raise ValueError(style)


PARAM_STYLES = ["plain", "dotted", "dunder", "long", "pyname", "stretchlike", "pairs", "prefixes"]
PYNAMES = ["self", "lambda", "class", "def", "None", "True", "if", "import", "args", "kwargs", "name", "parameters", "cls", "call", "__class__",
           "__dict__", "__init__", "_name", "_parameters", "params", "param", "key", "value", "ex", "gate", "other", "copy"]
STRETCHLIKE = ["stretch_", "stretch.", "Stretch", "_stretch", "stretch0", "stretch.stretch", "s", "st", "stretc", "STRETCH", "stretch__"]


def param_name(style, i):
    if style == "plain":
        return f"p{i}"
    if style == "dotted":
        return [f"cal.p{i}", f"p{i}.x", f"a.b.p{i}"][i % 3]
    if style == "dunder":
        return [f"__p{i}__", f"__c{i}", f"__r{i}", f"_p{i}"][i % 4]
    if style == "long":
        return f"p{i}_" + "y" * (256 + i % 7)
    if style == "pyname":
        return PYNAMES[i] if i < len(PYNAMES) else f"kw{i}"
    if style == "stretchlike":
        return STRETCHLIKE[i] if i < len(STRETCHLIKE) else f"stretch{i}"
    if style == "pairs":
        b = f"x{i // 4}"
        return [b, "cal." + b, b + ".cal", b + "_"][i % 4]
    if style == "prefixes":  # every name is a prefix of the next ones (up to 64), then numbered
        return "p" * (i + 1) if i < 64 else f"q{i}"
    raise ValueError(style)


def near_miss(name, taken, rng=None):
    """A keyword that is NOT a parameter name but looks like one (the unqualified / the qualifying part of a dotted name first)."""
    cands = []
    if "." in name:
        cands += [name.rsplit(".", 1)[-1], name.split(".", 1)[0], name.split(".", 1)[-1], name.replace(".", "_"), name.replace(".", "")]
    cands += [name + "_", "cal." + name, name + ".x", name[:-1], name.upper(), " " + name, name + " ", "_" + name, name * 2, name.strip("_"), name + "."]
    cands = [c for c in cands if c not in taken and c != name]
    if not cands:
        return name + "?"
    if rng is None or ("." in name and rng.random() < 0.5):
        return cands[0]
    return rng.choice(cands)


def unambiguous(names, sfx):
    """Keep the names whose keys {a, I_a, a+sfx, I_a+sfx} do not meet the keys of another kept name."""
    used, out = {"prepare_all", "measure_all", "prepare_all" + sfx, "measure_all" + sfx}, []
    for a in names:
        ks = {a, "I_" + a, a + sfx, "I_" + a + sfx}
        if ks & used or a in ("prepare_all", "measure_all") or not a:
            continue
        used |= ks
        out.append(a)
    return out


# ====================================================================================================== values
class _IntSub(int):
    pass


class _FloatSub(float):
    pass


class _StrSub(str):
    pass


class _IntEnum(enum.IntEnum):
    THREE = 3
    ZERO = 0


class _StrEnum(str, enum.Enum):
    THREE = "3"


class _Duck:
    def __init__(self, how, v):
        self.how, self.v = how, v

    def __repr__(self):
        return f"Duck({self.how},{self.v})"


class _DuckFloat(_Duck):
    def __float__(self):
        return float(self.v)


class _DuckIndex(_Duck):
    def __index__(self):
        return int(self.v)


class _DuckInt(_Duck):
    def __int__(self):
        return int(self.v)


TEXTS = ["3", "2.5", " 7 ", "1e3", "-0", "1_0", "nan", "inf", "-inf", "infinity", "٣", "５", "0x10", "1.", ".5", "+3", "0", "0.0",
         "1e400", "q[0]", "r", "True", "None", "", " ", "pi", "3j", "1/2", "½", "2.5e", "0b1", "1 000", "١٢٣.٥"]


def value_specs():
    """[(spec, sort)] - sort in text / other / intlike / floatlike / gray / lib."""
    out = []
    for s in TEXTS:
        out.append((["str", s], "text"))
    for s in ["4", "2.5", " 7", "nan", "", "1e3"]:
        out.append((["bytes", s], "text"))
        out.append((["bytearray", s], "text"))
    for s in ["3", "2.5", "x"]:
        out.append((["strsub", s], "text"))
    out.append((["strenum"], "text"))
    for tag in ["none", "ellipsis", "notimpl", "object", "lambda", "type_int", "type_float", "type_str", "list", "list_empty", "tuple", "tuple1",
                "set", "dict", "range", "slice", "gatedef", "stmt", "paramtype_INT", "paramtype_FLOAT", "module_math", "builtin_float"]:
        out.append(([tag], "other"))
    for re_, im in [(2.0, 1.0), (0.0, -1.0), (float("nan"), 1.0)]:
        out.append((["complex", repr(re_), repr(im)], "other"))
    for v in [0, 1, 3, -7, 255, 256, 2 ** 31, 2 ** 53 + 1, 2 ** 64, 10 ** 30, -(10 ** 400)]:
        out.append((["int", str(v)], "intlike"))
    for v in [True, False]:
        out.append((["bool", v], "intlike"))
    for v in [3, 0, -2, 10 ** 20]:
        out.append((["intsub", str(v)], "intlike"))
    out.append((["intenum", "THREE"], "intlike"))
    out.append((["intenum", "ZERO"], "intlike"))
    for v in ["0.0", "-0.0", "1.0", "3.0", "-2.0", "1e22", "1e300", "2.5", "-1.25", "1e-7", "5e-324", "1.7976931348623157e+308", "nan", "inf", "-inf"]:
        out.append((["float", v], "floatlike"))
        out.append((["floatsub", v], "floatlike"))
        out.append((["np", "float64", v], "floatlike"))
    for dt, v in [("int64", "3"), ("int32", "3"), ("int8", "-3"), ("uint8", "3"), ("uint64", "18446744073709551615"), ("int64", "0"),
                  ("float32", "2.0"), ("float32", "2.5"), ("float16", "2.0"), ("longdouble", "2.0"), ("bool_", "1"), ("bool_", "0"),
                  ("complex128", "2.0")]:
        out.append((["np", dt, v], "gray"))
    for dt, v in [("int64", "3"), ("float64", "2.0"), ("float64", "2.5")]:
        out.append((["np0d", dt, v], "gray"))
        out.append((["np1d", dt, v], "gray"))
    for v in ["3", "5/2", "0"]:
        out.append((["frac", v], "gray"))
    for v in ["3", "2.5", "NaN", "Infinity"]:
        out.append((["dec", v], "gray"))
    for v in ["2.0", "2.5", "0.0"]:
        out.append((["complex", v, "0.0"], "gray"))
    for how in ["float", "index", "int"]:
        for v in ["3", "2.5"]:
            if how != "float" and v == "2.5":
                continue
            out.append((["duck", how, v], "gray"))
    for tag in ["qubit", "qubit_alias", "reg", "reg_alias", "reg_slice", "const_int", "const_float_integral", "const_float_frac", "const_negzero",
                "const_big", "const_nan", "param_QUBIT", "param_FLOAT", "param_REGISTER", "param_INT", "param_NONE", "param_RAWNONE"]:
        out.append(([tag], "lib"))
    return out


def mkval(spec):
    R = real()
    np = R["np"]
    t = spec[0]
    if t == "str":
        return spec[1]
    if t == "bytes":
        return spec[1].encode()
    if t == "bytearray":
        return bytearray(spec[1].encode())
    if t == "strsub":
        return _StrSub(spec[1])
    if t == "strenum":
        return _StrEnum.THREE
    if t == "int":
        return int(spec[1])
    if t == "bool":
        return bool(spec[1])
    if t == "intsub":
        return _IntSub(spec[1])
    if t == "intenum":
        return _IntEnum[spec[1]]
    if t == "float":
        return float(spec[1])
    if t == "floatsub":
        return _FloatSub(spec[1])
    if t == "np":
        with warnings.catch_warnings():
            warnings.simplefilter("ignore")
            return getattr(np, spec[1])(float(spec[2]) if "float" in spec[1] or "double" in spec[1] or "complex" in spec[1] else int(spec[2]))
    if t == "np0d":
        return np.array(float(spec[2]) if "float" in spec[1] else int(spec[2]), dtype=spec[1])
    if t == "np1d":
        return np.array([float(spec[2]) if "float" in spec[1] else int(spec[2])], dtype=spec[1])
    if t == "frac":
        import fractions
        return fractions.Fraction(spec[1])
    if t == "dec":
        import decimal
        return decimal.Decimal(spec[1])
    if t == "complex":
        return complex(float(spec[1]), float(spec[2]))
    if t == "duck":
        return {"float": _DuckFloat, "index": _DuckIndex, "int": _DuckInt}[spec[1]](spec[1], spec[2])
    if t == "none":
        return None
    if t == "ellipsis":
        return Ellipsis
    if t == "notimpl":
        return NotImplemented
    if t == "object":
        return object()
    if t == "lambda":
        return lambda: 3
    if t == "type_int":
        return int
    if t == "type_float":
        return float
    if t == "type_str":
        return str
    if t == "list":
        return [3]
    if t == "list_empty":
        return []
    if t == "tuple":
        return (3, 2.5)
    if t == "tuple1":
        return (3,)
    if t == "set":
        return {3}
    if t == "dict":
        return {"a": 3}
    if t == "range":
        return range(3)
    if t == "slice":
        return slice(0, 3)
    if t == "module_math":
        return math
    if t == "builtin_float":
        return float.fromhex
    if t == "gatedef":
        return R["GateDefinition"]("H", [R["Parameter"]("q", ptype("QUBIT"))])
    if t == "stmt":
        return R["GateStatement"](R["GateDefinition"]("H", []), {})
    if t.startswith("paramtype_"):
        return R["ParamType"][t[10:]]
    reg = R["Register"]("r", 4)
    if t == "qubit":
        return reg[1]
    if t == "qubit_alias":
        return R["Register"]("m", alias_from=reg)[0]
    if t == "reg":
        return reg
    if t == "reg_alias":
        return R["Register"]("m", alias_from=reg)
    if t == "reg_slice":
        return R["Register"]("m", alias_from=reg, alias_slice=slice(0, 3, 2))
    if t == "const_int":
        return R["Constant"]("c", 3)
    if t == "const_float_integral":
        return R["Constant"]("c", 4.0)
    if t == "const_float_frac":
        return R["Constant"]("c", 2.5)
    if t == "const_negzero":
        return R["Constant"]("c", -0.0)
    if t == "const_big":
        return R["Constant"]("c", 10 ** 400)
    if t == "const_nan":
        return R["Constant"]("c", float("nan"))
    if t == "param_RAWNONE":
        return R["Parameter"]("x", None)
    if t.startswith("param_"):
        k = t[6:]
        return R["Parameter"]("x", ptype(None if k == "NONE" else k))
    raise ValueError(spec)


def _num_of(spec):
    t = spec[0]
    if t in ("int", "intsub"):
        return int(spec[1])
    if t == "bool":
        return int(spec[1])
    if t == "intenum":
        return {"THREE": 3, "ZERO": 0}[spec[1]]
    if t in ("float", "floatsub"):
        return float(spec[1])
    if t == "np":
        return float(spec[2])
    return {"const_int": 3, "const_float_integral": 4.0, "const_float_frac": 2.5, "const_negzero": -0.0, "const_big": 10 ** 400,
            "const_nan": float("nan")}[t]


def _integral(x):
    return isinstance(x, int) or (math.isfinite(x) and x == math.floor(x))


def fits(kind, spec, sort):
    """The property's table: True / False, or None where C18 is silent (gray values against the numeric kinds).
    qubit: a qubit, or a parameter of kind qubit / untyped.   register: a register, or a parameter register / untyped.
    integer: integers (bool and subclasses of int included), integral floats, lets with an integral value, parameters int / untyped.
    float: any int or float (nan / inf included), any let, parameters int / float / untyped.   untyped: anything."""
    if kind is None:
        return True
    t = spec[0]
    if sort in ("text", "other"):
        return False
    if t.startswith("param_"):
        pk = t[6:]
        pk = None if pk in ("NONE", "RAWNONE") else pk
        if pk is None:
            return True
        return {"QUBIT": pk == "QUBIT", "REGISTER": pk == "REGISTER", "INT": pk == "INT", "FLOAT": pk in ("INT", "FLOAT")}[kind]
    if kind == "QUBIT":
        return t in ("qubit", "qubit_alias")
    if kind == "REGISTER":
        return t in ("reg", "reg_alias", "reg_slice")
    if t in ("qubit", "qubit_alias", "reg", "reg_alias", "reg_slice"):
        return False
    if sort == "gray":
        return None
    if kind == "FLOAT":
        return True
    return _integral(_num_of(spec))


def fit_value(kind, rng, i=0):
    """A value that certainly fits `kind` (fresh objects; the same object is passed positionally and by keyword)."""
    R = real()
    if kind == "QUBIT":
        return R["Register"]("r", 8)[i % 8]
    if kind == "REGISTER":
        return R["Register"]("r", 1 + i % 5)
    if kind == "INT":
        return rng.choice([3, 0, -7, 4.0, True, 10 ** 30, R["Constant"]("c", 5), R["Parameter"]("k", ptype("INT"))])
    if kind == "FLOAT":
        return rng.choice([2.5, 3, -0.0, float("inf"), R["Constant"]("c", 2.5), R["Parameter"]("k", ptype("FLOAT"))])
    return rng.choice([2.5, "text", None, R["Register"]("r", 2), R["Register"]("r", 2)[0], [1]])


MISFIT_TEXT = ["3", "2.5", "1e3", " 7 ", "nan", "q[0]", "r", "٣"]


def misfit_value(kind, rng):
    """A value that certainly does NOT fit a typed kind -> (value, description)."""
    R = real()
    c = rng.randrange(4)
    if c == 0 or c == 1:
        s = rng.choice(MISFIT_TEXT)
        if rng.random() < 0.2:
            return s.encode(), repr(s.encode())
        return s, repr(s)
    if c == 2:
        return None, "None"
    if kind == "QUBIT":
        v = rng.choice([1, R["Register"]("r", 2), 2.5])
    elif kind == "REGISTER":
        v = rng.choice([1, R["Register"]("r", 2)[0], 2.5])
    elif kind == "INT":
        v = rng.choice([2.5, float("nan"), float("inf"), R["Register"]("r", 2)[0], R["Constant"]("c", 2.5), R["Parameter"]("x", ptype("FLOAT"))])
    else:
        v = rng.choice([R["Register"]("r", 2)[0], R["Register"]("r", 2), R["Parameter"]("x", ptype("QUBIT")), 1j])
    return v, repr(v)


# ====================================================================================================== calls
def outcome(g, args, kwargs):
    """-> ("ok", stmt) | ("jerr", msg) | ("exc", "Class: msg")"""
    JE = real()["JaqalError"]
    try:
        if kwargs is None:
            return "ok", g(*args)
        return "ok", g(**dict(kwargs))
    except JE as e:
        return "jerr", str(e)[:120]
    except Exception as e:  # noqa: BLE001 - the class is the finding
        return "exc", f"{type(e).__name__}: {str(e)[:120]}"


def stmt_carries(st, gname, names, values):
    try:
        if st.name != gname:
            return f"statement names gate {st.name!r}, called {gname!r}"
        keys = list(st.parameters.keys())
        if keys != list(names):
            return f"statement parameter names {keys[:6]}.. differ from the declared {list(names)[:6]}.. (first difference at {next((i for i, (a, b) in enumerate(zip(keys, names)) if a != b), min(len(keys), len(names)))})"
        for i, (a, b) in enumerate(zip(st.parameters.values(), values)):
            if a is not b:
                return f"argument {i} ({names[i]!r}) of the statement is {a!r}, passed {b!r}"
    except Exception as e:  # noqa: BLE001
        return f"cannot inspect the statement: {type(e).__name__}: {e}"
    return None


def variant(g, via, sfx="_s"):
    """The definition actually called: the gate, its idle gate, its stretched variant, the idle gate of the stretched variant."""
    R = real()
    if via in ("direct", "macro"):
        return g
    if via == "idle":
        return R["add_idle_gates"]({g.name: g})["I_" + g.name]
    if via == "idle_ctor":
        return R["IdleGateDefinition"](g)
    if via == "stretched":
        return R["stretched_gates"]({g.name: g}, suffix=sfx)[g.name + sfx]
    if via == "stretched_default":
        return R["stretched_gates"]({g.name: g})[g.name]
    if via == "stretched_update":
        return R["stretched_gates"]({g.name: g}, update=True)[g.name]
    if via == "idle_stretched":
        return R["stretched_gates"](R["add_idle_gates"]({g.name: g}), suffix=sfx, update=True)["I_" + g.name + sfx]
    raise ValueError(via)


def safe_variant(g, via, res):
    """variant(), a failure to DERIVE the idle / stretched gate being a failure of that part of the property."""
    try:
        return variant(g, via)
    except Exception as e:  # noqa: BLE001
        if via.startswith("stretched"):
            name = "stretch_variant"
        elif via == "idle_stretched" and not isinstance(e, real()["JaqalError"]):
            name = "stretch_variant"
        else:
            name = "idle_derived"
        res.append((name, False, f"deriving the {via} variant of the active gate {g.name[:60]!r} ({len(g.parameters)} parameters) raised {type(e).__name__}: {str(e)[:150]}"))
        return None


VIAS = ["direct", "idle", "idle_ctor", "stretched", "stretched_default", "stretched_update", "idle_stretched", "macro"]


def is_stretched(via):
    return "stretched" in via


def check_calls(g, gname, names, values, calls, res, label):
    """calls: [(tag, args|None, kwargs|None, want, what)] - want True / False / None(gray).  Appends to res."""
    for tag, args, kwargs, want, what in calls:
        how, st = outcome(g, args if kwargs is None else (), kwargs)
        desc = f"{label} {tag}: {what}"
        res.append(("reject_is_JaqalError", how != "exc", f"{desc} raised {st}" if how == "exc" else ""))
        if want is not None:
            res.append(("accept_iff_kind", (how == "ok") == want,
                        f"{desc} was {'accepted' if how == 'ok' else 'refused (' + str(st) + ')'}, the property says {'accepted' if want else 'refused'}"))
        if how == "ok" and want is not False:
            vals = args if kwargs is None else [dict(kwargs)[n] for n in names]
            bad = stmt_carries(st, gname, names, vals)
            res.append(("kw_eq_pos", bad is None, f"{desc}: {bad}"))


def check_value_case(case):
    """One value of the universe in one position of a small signature, via one variant, positionally and by keyword."""
    R = real()
    rng = random.Random(case["seed"])
    kind, spec, sort, via, n, pos = case["kind"], case["spec"], case["sort"], case["via"], case["n"], case["pos"]
    res = []
    style = case.get("pstyle", "plain")
    names = [param_name(style, i) for i in range(n)]
    stretch_pos = pos == "stretch"
    kinds = [rng.choice(KINDS) for _ in range(n)]
    if not stretch_pos:
        kinds[pos] = kind
    if via == "macro":
        kinds = [None] * n
        if kind is not None:
            return res
    P = R["Parameter"]
    raw_none = case.get("rawnone", False)
    params = [P(nm, None if (k is None and raw_none) else ptype(k)) for nm, k in zip(names, kinds)]
    base = R["Macro"]("G", params) if via == "macro" else R["GateDefinition"](case.get("gname", "G"), params)
    g = safe_variant(base, via, res)
    if g is None:
        return res
    values = [fit_value(k, rng, i) for i, k in enumerate(kinds)]
    V = mkval(spec)
    if is_stretched(via):
        names = names + ["stretch"]
        values.append(2.5)
        if stretch_pos:
            values[-1] = V
    elif stretch_pos:
        return res
    if not stretch_pos:
        values[pos] = V
    want = fits("FLOAT" if stretch_pos else kind, spec, sort)
    kw = list(zip(names, values))
    rng.shuffle(kw)
    what = f"{g.name}({', '.join((k or 'untyped') for k in kinds)}{', stretch FLOAT' if is_stretched(via) else ''}) via {via}, argument {pos} = {spec} ({type(V).__name__})"
    a = outcome(g, values, None)
    b = outcome(g, (), kw)
    check_calls(g, g.name, names, values, [("positional", values, None, want, what), ("keyword", None, kw, want, what)], res, "value")
    res.append(("kw_eq_pos", (a[0] == "ok") == (b[0] == "ok"), f"value {what}: positional {a[0]} ({'' if a[0] == 'ok' else a[1]}), keyword {b[0]} ({'' if b[0] == 'ok' else b[1]})"))
    return res


def boundary_positions(n, rng):
    s = {0, n - 1, n // 2, rng.randrange(n)}
    for t in THRESH + [512, 1000, 1024]:
        for p in (t - 2, t - 1, t, t + 1):
            if 0 <= p < n:
                s.add(p)
    return sorted(s)


def check_sig_case(case):
    """A signature of N parameters: exact / short / long arity, missing / unknown / near-miss keyword, one misfit per boundary position."""
    R = real()
    rng = random.Random(case["seed"])
    n, via, style, kmode = case["n"], case["via"], case["pstyle"], case["kmode"]
    res = []
    names = [param_name(style, i) for i in range(n)]
    if kmode == "mixed":
        kinds = [rng.choice(KINDS) for _ in range(n)]
    elif kmode == "untyped":
        kinds = [None] * n
    else:
        kinds = [kmode] * n
    if via == "macro":
        kinds = [None] * n
    P = R["Parameter"]
    params = [P(nm, ptype(k)) for nm, k in zip(names, kinds)] if not (n == 0 and case.get("noparams")) else None
    gname = case.get("gname", "G")
    base = R["Macro"](gname, params) if via == "macro" else R["GateDefinition"](gname, params) if params is not None else R["GateDefinition"](gname)
    g = safe_variant(base, via, res)
    if g is None:
        return res
    values = [fit_value(k, rng, i) for i, k in enumerate(kinds)]
    if is_stretched(via):
        names = names + ["stretch"]
        kinds = kinds + ["FLOAT"]
        values.append(rng.choice([2.5, 0, -1.0, float("nan"), 1e308]))
    N = len(names)
    sig = f"{g.name} with {N} parameters ({style} names, {kmode} kinds) via {via}"
    calls = []
    kw = list(zip(names, values))
    sh = kw[:]
    rng.shuffle(sh)
    calls.append(("positional", values, None, True, f"{sig}, exact arity"))
    if N:
        calls.append(("keyword", None, kw, True, f"{sig}, exact arity, declared order"))
        calls.append(("keyword", None, sh, True, f"{sig}, exact arity, shuffled"))
        calls.append(("keyword", None, kw[::-1], True, f"{sig}, exact arity, reversed"))
        calls.append(("positional", values[:-1], None, False, f"{sig}, last argument missing") if N > 1 else ("positional", [], None, False, f"{sig}, no argument"))
        calls.append(("positional", values[1:], None, False, f"{sig}, first argument missing") if N > 1 else ("positional", [], None, False, f"{sig}, no argument"))
        calls.append(("positional", [], None, False, f"{sig}, no argument at all"))
        for drop in {0, N - 1, N // 2}:
            if N > 1:
                calls.append(("keyword", None, [x for i, x in enumerate(sh) if x[0] != names[drop]], False, f"{sig}, keyword {names[drop][:40]!r} (#{drop}) missing"))
        k = rng.randrange(N)
        nm = near_miss(names[k], set(names), rng)
        calls.append(("keyword", None, [(nm if a == names[k] else a, b) for a, b in sh], False, f"{sig}, keyword #{k} spelt {nm[:40]!r} instead of {names[k][:40]!r}"))
        calls.append(("keyword", None, sh + [(nm, 1)], False, f"{sig}, extra keyword {nm[:40]!r}"))
    extra = fit_value(rng.choice(KINDS), rng)
    calls.append(("positional", values + [extra], None, False, f"{sig}, one argument too many ({extra!r})"))
    calls.append(("positional", values + [extra, extra], None, False, f"{sig}, two arguments too many"))
    if N:
        for p in boundary_positions(N, rng):
            if kinds[p] is None:
                continue
            v, d = misfit_value(kinds[p], rng)
            vals = values[:p] + [v] + values[p + 1:]
            calls.append(("positional", vals, None, False, f"{sig}, argument #{p} ({kinds[p]}) = {d[:60]}"))
            kws = [(a, v if a == names[p] else b) for a, b in sh]
            calls.append(("keyword", None, kws, False, f"{sig}, keyword #{p} ({kinds[p]}) = {d[:60]}"))
    check_calls(g, g.name, names, values, calls, res, "signature")
    return res


# ====================================================================================================== gate sets
SIG_POOL = [[], [["q", "QUBIT"]], [["q", "QUBIT"], ["t", "FLOAT"]], [["t", "FLOAT"], ["q", "QUBIT"]], [["a", "QUBIT"], ["b", "QUBIT"]],
            [["r", "REGISTER"], ["k", "INT"]], [["p0", None]], [["q", "QUBIT"], ["p", None], ["f", "FLOAT"]], [["k", "INT"], ["f", "FLOAT"], ["j", "INT"]],
            [["cal.q", "QUBIT"], ["__t__", "FLOAT"]], [["stretch_", "FLOAT"], ["q", "QUBIT"]], [["self", "QUBIT"], ["cls", "FLOAT"]]]


def marker_fn(marker):
    return lambda *a, _m=marker: (_m, a)


def gen_set_recs(rng, m, style, ncl=None, with_special=True):
    """m active gates with distinct names of one style (+ prepare_all / measure_all somewhere)."""
    recs = []
    for i in range(m):
        r = rng.random()
        if ncl is not None and i == 0:
            params = [["q", "QUBIT"]] + [[f"c{j}", rng.choice(["INT", "FLOAT"])] for j in range(ncl)]
        else:
            params = rng.choice(SIG_POOL)
        recs.append({"name": style_name(style, i), "cls": "busy" if r < 0.08 else "native", "params": params, "unitary": r < 0.8, "marker": f"u{i}"})
    if ncl is not None:
        recs[0]["unitary"] = True
    if with_special:
        for nm in ("prepare_all", "measure_all"):
            recs.insert(rng.randrange(len(recs) + 1), {"name": nm, "cls": "busy", "params": [], "unitary": False, "marker": nm})
    return recs


def build_rec(rec):
    R = real()
    params = [R["Parameter"](n, ptype(k)) for n, k in rec["params"]]
    u = marker_fn(rec["marker"]) if rec["unitary"] else None
    cls = R["BusyGateDefinition"] if rec["cls"] == "busy" else R["GateDefinition"]
    if u is None and rec.get("default_unitary"):
        return cls(rec["name"], params)
    return cls(rec["name"], params, ideal_unitary=u)


def sig_of(g):
    return [(p.name, p.kind) for p in g.parameters]


def idle_problem(idle, parent, name):
    """C18 on one derived idle gate: same signature, no qubits, no effect -> None or a description."""
    if idle is None:
        return f"no idle gate {name[:60]!r}"
    if idle.name != name:
        return f"idle gate under {name[:60]!r} is named {idle.name[:60]!r}"
    if sig_of(idle) != sig_of(parent):
        return f"{name[:60]}: signature {sig_of(idle)[:4]} differs from its gate's {sig_of(parent)[:4]}"
    used = list(idle.used_qubits)
    if used:
        return f"{name[:60]}: uses qubits {used}"
    if idle.ideal_unitary is not None:
        return f"{name[:60]}: has a unitary (an effect on the state)"
    return None


def probe_calls(g, rng, res, oracle, label):
    """The derived gate accepts a fitting call and refuses a text argument / a wrong arity, like any definition of its signature."""
    kinds = [None if p.kind.value is None else p.kind.name for p in g.parameters]
    names = [p.name for p in g.parameters]
    values = [fit_value(k, rng, i) if not (names[i] == "stretch" and i == len(names) - 1) else rng.choice([2.5, 0, -3.0]) for i, k in enumerate(kinds)]
    calls = [("positional", values, None, True, f"{label} fitting arguments")]
    if names and len(set(names)) == len(names):
        kw = list(zip(names, values))
        rng.shuffle(kw)
        calls.append(("keyword", None, kw, True, f"{label} fitting arguments"))
    if names:
        calls.append(("positional", values[:-1], None, False, f"{label} last argument missing"))
    calls.append(("positional", values + [2.5], None, False, f"{label} one argument too many"))
    typed = [i for i, k in enumerate(kinds) if k is not None]
    if typed:
        p = typed[-1] if rng.random() < 0.6 else rng.choice(typed)
        v, d = misfit_value(kinds[p], rng)
        calls.append(("positional", values[:p] + [v] + values[p + 1:], None, False, f"{label} argument #{p} ({kinds[p]}) = {d[:60]}"))
    tmp = []
    check_calls(g, g.name, names, values, calls, tmp, "derived")
    res.extend(tmp)


def check_idle_case(case):
    R = real()
    rng = random.Random(case["seed"])
    res = []
    recs = gen_set_recs(rng, case["m"], case["style"])
    names = unambiguous([r["name"] for r in recs], "")
    recs = [r for r in recs if r["name"] in names or r["name"] in ("prepare_all", "measure_all")]
    if case.get("default_unitary"):
        for r in recs:
            r["default_unitary"] = True
    gs = {r["name"]: build_rec(r) for r in recs}
    out = R["add_idle_gates"](gs)
    nprobe = 0
    for nm, g in gs.items():
        if nm in ("prepare_all", "measure_all"):
            continue
        key = "I_" + nm
        bad = idle_problem(out.get(key), g, key)
        res.append(("idle_derived", bad is None, f"add_idle_gates on {len(gs)} gates ({case['style']} names): {bad}"))
        for how, mk in (("IdleGateDefinition(g)", lambda: R["IdleGateDefinition"](g)), ("IdleGateDefinition(g, None)", lambda: R["IdleGateDefinition"](g, None)),
                        ("IdleGateDefinition(g, name=None)", lambda: R["IdleGateDefinition"](g, name=None))):
            try:
                ig = mk()
                bad2 = idle_problem(ig, g, key)
            except Exception as e:  # noqa: BLE001
                bad2 = f"{type(e).__name__}: {str(e)[:100]}"
            res.append(("idle_derived", bad2 is None, f"{how} for the active gate {nm[:60]!r}: {bad2}"))
        if bad is None and (nprobe < 12 or rng.random() < 0.05):
            nprobe += 1
            probe_calls(out[key], rng, res, "idle_derived", f"idle gate {key[:50]!r}:")
    return res


FACTORS = ["1.0", "2.5", "0.0", "-0.0", "-3.0", "1e308", "5e-324", "inf", "-inf", "nan", "#1", "#0", "#-7", "#1" + "0" * 30, "!True", "@2.5", "@nan"]


def mkfactor(s):
    np = real()["np"]
    if s[0] == "#":
        return int(s[1:])
    if s[0] == "!":
        return True
    if s[0] == "@":
        return np.float64(s[1:])
    return float(s)


STRETCH_OPTS = [{}, {"suffix": None}, {"update": False}, {"suffix": None, "update": False}, {"suffix": ""}, {"suffix": "", "update": True},
                {"update": True}, {"suffix": None, "update": True}, {"suffix": "_s"}, {"suffix": "_s", "update": True}, {"suffix": "_s", "update": False},
                {"suffix": ".s", "update": True}, {"suffix": ".s"}, {"suffix": "_" + "z" * 300}, {"suffix": "_" + "z" * 300, "update": True},
                {"suffix": "_all"}, {"suffix": "__", "update": True}, {"suffix": "0"}, {"suffix": "_I_", "update": True}]


def same_unitary(a, b):
    """Marker results are tuples (marker, args); compare with identity-or-equality per element (nan arguments)."""
    if type(a) is not tuple or type(b) is not tuple or len(a) != 2 or len(b) != 2 or a[0] != b[0] or len(a[1]) != len(b[1]):
        return False
    return all(x is y or x == y for x, y in zip(a[1], b[1]))


def check_stretch_case(case):
    R = real()
    rng = random.Random(case["seed"])
    res = []
    opts = dict(case["opts"])
    sfx = opts.get("suffix") or ""
    recs = gen_set_recs(rng, case["m"], case["style"], ncl=case.get("ncl"), with_special=True)
    keep = unambiguous([r["name"] for r in recs], sfx)
    recs = [r for r in recs if r["name"] in keep or r["name"] in ("prepare_all", "measure_all")]
    parents = {r["name"]: build_rec(r) for r in recs}
    mode = case["idle"]
    if mode == "none":
        gs = dict(parents)
    elif mode == "added":
        gs = R["add_idle_gates"](parents)
    elif mode == "idle_only":  # idle gates without their parents in the set
        gs = {}
        for nm, g in parents.items():
            if nm in ("prepare_all", "measure_all") or rng.random() < 0.3:
                gs[nm] = g
            else:
                gs["I_" + nm] = R["IdleGateDefinition"](g)
    else:  # idle_first: every idle gate before its parent
        gs = {}
        for nm, g in parents.items():
            if nm not in ("prepare_all", "measure_all"):
                gs["I_" + nm] = R["IdleGateDefinition"](g)
            gs[nm] = g
    has_idle = {nm for nm in parents if nm not in ("prepare_all", "measure_all") and mode != "none" and isinstance(gs.get("I_" + nm), R["IdleGateDefinition"])
                and gs["I_" + nm]._parent_def is parents[nm]}
    label = f"stretched_gates(<{len(gs)} gates, {case['style']} names, idle {mode}>, {', '.join(f'{k}={v if not isinstance(v, str) or len(v) < 12 else v[:8] + chr(8230)!s}' for k, v in opts.items()) or 'no options'})"
    try:
        out = R["stretched_gates"](gs, **opts)
    except Exception as e:  # noqa: BLE001
        res.append(("stretch_variant", False, f"{label} raised {type(e).__name__}: {str(e)[:120]}"))
        return res
    P = R["Parameter"]
    nprobe = 0
    for nm, p in parents.items():
        key = nm + sfx
        s = out.get(key) if hasattr(out, "get") else None
        bad = None
        want_sig = sig_of(p) + [("stretch", R["ParamType"].FLOAT)]
        if s is None:
            bad = f"no stretched gate {key[:60]!r}"
        elif s.name != key:
            bad = f"gate under {key[:60]!r} is named {s.name[:60]!r}"
        elif sig_of(s) != want_sig:
            bad = f"{key[:60]}: signature {[(a, k.name if k.value else None) for a, k in sig_of(s)][-3:]} is not the parent's plus a trailing FLOAT `stretch`"
        elif (s.ideal_unitary is None) != (p.ideal_unitary is None):
            bad = f"{key[:60]}: {'has' if s.ideal_unitary else 'lacks'} a unitary, the parent {'has' if p.ideal_unitary else 'lacks'} one"
        elif p.ideal_unitary is not None:
            ncl = sum(1 for _, k in sig_of(p) if k in (R["ParamType"].INT, R["ParamType"].FLOAT))
            for trial in range(2):
                cargs = tuple(rng.choice([0, 1, 2.5, -3, float("nan"), 10 ** 20, 0.0]) for _ in range(ncl))
                want = p.ideal_unitary(*cargs)
                for fs in FACTORS:
                    f = mkfactor(fs)
                    try:
                        got = s.ideal_unitary(*cargs, f)
                    except Exception as e:  # noqa: BLE001
                        got = f"{type(e).__name__}: {str(e)[:80]}"
                    if not same_unitary(got, want):
                        bad = f"{key[:60]}: ideal_unitary(<{ncl} classical arguments>, stretch={f!r}) gives {str(got)[:120]}, the parent's action is {str(want)[:120]}"
                        break
                if bad:
                    break
        res.append(("stretch_variant", bad is None, f"{label}: {bad}"))
        if nm in has_idle:
            ik = "I_" + nm + sfx
            i = out.get(ik) if hasattr(out, "get") else None
            bad_i = None
            if i is None:
                bad_i = f"no stretched idle gate {ik[:60]!r}"
            elif i.name != ik:
                bad_i = f"gate under {ik[:60]!r} is named {i.name[:60]!r}"
            elif sig_of(i) != want_sig:
                bad_i = f"{ik[:60]}: signature is not the stretched gate's"
            elif list(i.used_qubits):
                bad_i = f"{ik[:60]}: uses qubits"
            elif i.ideal_unitary is not None:
                bad_i = f"{ik[:60]}: has a unitary"
            res.append(("stretch_variant", bad_i is None, f"{label}: {bad_i}"))
            if bad_i is None and nprobe < 6:
                probe_calls(i, rng, res, "stretch_variant", f"stretched idle gate {ik[:50]!r}:")
        if bad is None and (nprobe < 10 or rng.random() < 0.04) and "stretch" not in [a for a, _ in sig_of(p)]:
            nprobe += 1
            probe_calls(s, rng, res, "stretch_variant", f"stretched gate {key[:50]!r}:")
    return res


def check_numpy_stretch_case(case):
    """Real matrices (harness.gates): the stretched gate's matrix equals the parent's for every factor."""
    R = real()
    np = R["np"]
    from harness.gates import make_gates
    rng = random.Random(case["seed"])
    res = []
    opts = dict(case["opts"])
    sfx = opts.get("suffix") or ""
    G = make_gates()
    src = R["add_idle_gates"](G) if case["idle"] else dict(G)
    out = R["stretched_gates"](src, **opts)
    for nm, p in G.items():
        s = out.get(nm + sfx)
        bad = None
        if s is None or sig_of(s) != sig_of(p) + [("stretch", R["ParamType"].FLOAT)]:
            bad = "missing or wrong signature"
        elif p.ideal_unitary is None:
            bad = None if s.ideal_unitary is None else "has a unitary, the parent has none"
        else:
            ncl = len(p.classical_parameters)
            for _ in range(3):
                cargs = [rng.choice([0, 1, 2, 3, 5, 7.0, 2 ** 40 + 1]) for _ in range(ncl)]
                for fs in FACTORS:
                    f = mkfactor(fs)
                    try:
                        ok = np.array_equal(s.ideal_unitary(*cargs, f), p.ideal_unitary(*cargs))
                    except Exception as e:  # noqa: BLE001
                        ok = False
                    if not ok:
                        bad = f"matrix for classical arguments {cargs} and stretch={f!r} differs from the parent's"
        res.append(("stretch_variant", bad is None, f"stretched_gates(harness gate set{' + idle gates' if case['idle'] else ''}, {opts}) {nm + sfx}: {bad}"))
    return res


# ====================================================================================================== emulator
EMU_BASES = ["X", "Y", "Z", "S", "SX", "P", "PF", "CX", "CZ", "SWAP", "ISWAP", "HH", "NS", "CCX", "ROT3", "N"]
EMU_SETUPS = ["_s/update", ".s/update", "long/update", "_s/merge", "none/replace", "none/default", "_s/idle_first", "__/update"]
FACTOR_LITS = ["2", "2.5", "-1.0", "1.0e3", "0", "0.0", "-0.0", "1.0e308", "5.0e-324", "+2", "-.5", "1.5e+3", "1000000", "-7", "0.000001", "1.7", "3.0e-2", "12345678901234567890"]
IDENT_STYLES = ["plain", "dotted", "dunder", "long", "near"]


def ident(style, what, i=0):
    t = {"plain": {"reg": "q", "let": f"c{i}", "macro": f"m{i}", "a": "a", "b": "b", "s": "s", "map": "al"},
         "dotted": {"reg": "cal.q", "let": f"cal.c{i}", "macro": f"lib.m{i}", "a": "x.a", "b": "x.b", "s": "x.s", "map": "cal.al"},
         "dunder": {"reg": "__r0", "let": f"__c{i}", "macro": f"__macro__{i}", "a": "__a", "b": "__b", "s": "__s__", "map": "__m"},
         "long": {"reg": "q_" + "w" * 260, "let": f"c{i}_" + "w" * 260, "macro": f"m{i}_" + "w" * 260, "a": "a_" + "w" * 260, "b": "b_" + "w" * 260,
                  "s": "s_" + "w" * 260, "map": "al_" + "w" * 260},
         "near": {"reg": "measure", "let": "prepare_all" if i == 0 else f"measure_all{i}", "macro": f"prepare_{i}" if i % 2 else f"I_m{i}", "a": "prepare", "b": "I_",
                  "s": "stretch", "map": "measure_al"}}
    return t[style][what]


def emu_gate_sets(gstyle, setup):
    """-> (names: base -> name, full gate set, plain gate set, sfx, parents_exist)"""
    R = real()
    from harness.gates import GATES
    raw = [style_name(gstyle, i) for i in range(len(EMU_BASES))]
    sfx = {"_s": "_s", ".s": ".s", "long": "_" + "z" * 280, "none": "", "__": "__"}[setup.split("/")[0]]
    ok = set(unambiguous(raw, sfx))
    names, seen = {}, set()
    for i, b in enumerate(EMU_BASES):
        nm = raw[i] if raw[i] in ok and raw[i] not in seen else f"G{i}x"
        seen.add(nm)
        names[b] = nm
    active = {}
    for b in EMU_BASES:
        g = GATES[b]
        active[names[b]] = R["GateDefinition"](names[b], list(g.parameters), ideal_unitary=g.ideal_unitary)
    special = {"prepare_all": R["BusyGateDefinition"]("prepare_all", []), "measure_all": R["BusyGateDefinition"]("measure_all", [])}
    plain = dict(active, **special)
    how = setup.split("/")[1]
    S = R["stretched_gates"]
    if how == "update":
        full = S(R["add_idle_gates"](dict(active, **special)), suffix=sfx, update=True)
        parents = True
    elif how == "merge":
        idle = R["add_idle_gates"](dict(active))
        full = dict(idle)
        full.update(S(idle, suffix=sfx))
        full.update(special)
        parents = True
    elif how == "idle_first":
        src = {}
        for nm, g in active.items():
            src["I_" + nm] = R["IdleGateDefinition"](g)
            src[nm] = g
        full = dict(src)
        full.update(S(src, suffix=sfx, update=False))
        full.update(special)
        parents = True
    elif how == "replace":
        full = S(R["add_idle_gates"](dict(active)), update=True)
        full.update(special)
        parents = False
    else:  # default: no option given
        full = dict(S(R["add_idle_gates"](dict(active))))
        full.update(special)
        parents = False
    return names, full, plain, sfx, parents


class EmuGen:
    def __init__(self, rng, nq, names, sfx, parents, reg):
        from harness.gates import SIG
        self.rng, self.nq, self.names, self.sfx, self.parents, self.reg, self.SIG = rng, nq, names, sfx, parents, reg, SIG
        self.count = {"parent": 0, "idle": 0, "stretched": 0, "idle_stretched": 0}

    def qexprs(self, aliases=()):
        out = [(f"{self.reg}[{i}]", i) for i in range(self.nq)]
        for al, idx in aliases:
            out += [(f"{al}[{j}]", i) for j, i in enumerate(idx)]
        return out

    def stmt(self, qx, fx, ix=None, idle_only=False, bases=None):
        """One gate statement -> {"full": line, "plain": line or None, "op": (base, [qubit indices], [classical]) or None}"""
        rng = self.rng
        avail = sorted({i for _, i in qx})
        cands = [b for b in (bases or EMU_BASES) if self.SIG[b].count("q") <= len(avail)]
        b = rng.choice(cands)
        sig = self.SIG[b]
        qs = rng.sample(avail, sig.count("q"))
        texts, cargs, qi = [], [], 0
        for ch in sig:
            if ch == "q":
                texts.append(rng.choice([t for t, i in qx if i == qs[qi]]))
                qi += 1
            else:
                t, v = rng.choice(ix) if ix and rng.random() < 0.6 else (lambda k: (str(k), k))(rng.randrange(-3, 9))
                texts.append(t)
                cargs.append(v)
        kinds = ["idle", "idle", "idle_stretched", "idle_stretched", "stretched", "stretched", "parent"]
        if idle_only:
            kinds = ["idle", "idle_stretched"]
        if not self.parents:  # only the stretched gates (under the parents' names) and their idle gates exist
            kinds = [k for k in kinds if k in ("stretched", "idle_stretched")]
        kind = rng.choice(kinds)
        self.count[kind] += 1
        nm = self.names[b]
        a = " ".join(texts)
        f = rng.choice(fx)
        plain = f"{nm} {a}"
        op = (b, qs, cargs) if b != "N" else None
        if kind == "parent":
            return {"full": plain, "plain": plain, "op": op}
        if kind == "stretched":
            return {"full": f"{nm}{self.sfx} {a} {f}", "plain": plain, "op": op}
        if kind == "idle":
            return {"full": f"I_{nm} {a}", "plain": None, "op": None}
        return {"full": f"I_{nm}{self.sfx} {a} {f}", "plain": None, "op": None}


def render(nodes, which, ind=""):
    """nodes: list of gate dicts / ("seq", nodes) / ("par", nodes) / ("loop", k, nodes) / ("raw", full, plain).  -> lines"""
    out = []
    for nd in nodes:
        if isinstance(nd, dict):
            if nd[which] is not None:
                out.append(ind + nd[which])
        elif nd[0] == "seq":
            out += [ind + "{"] + render(nd[1], which, ind + " ") + [ind + "}"]
        elif nd[0] == "par":
            inner = []
            for k, br in enumerate(nd[1]):
                lines = render([br], which, ind + " ")
                if not lines:
                    continue
                if inner:
                    lines[0] = ind + " | " + lines[0].lstrip()
                inner += lines
            out += [ind + "<"] + inner + [ind + ">"]
        elif nd[0] == "loop":
            out += [ind + f"loop {nd[1]} {{"] + render(nd[2], which, ind + " ") + [ind + "}"]
        elif nd[0] == "raw":
            out.append(ind + (nd[1] if which == "full" else nd[2]))
    return out


def flatten(nodes):
    ops = []
    for nd in nodes:
        if isinstance(nd, dict):
            if nd["op"] is not None:
                ops.append(nd["op"])
        elif nd[0] in ("seq", "par"):
            ops += flatten(nd[1])
        elif nd[0] == "loop":
            ops += flatten(nd[2]) * nd[1]
        elif nd[0] == "raw":
            ops += nd[3]
    return ops


def gen_emu_program(case):
    """-> (full text, plain text, ops per subcircuit, nq, generator counts)"""
    rng = random.Random(case["seed"])
    shape, size, istyle = case["shape"], case["size"], case["istyle"]
    names, _full, _plain, sfx, parents = emu_gate_sets(case["gstyle"], case["setup"])
    nq = size if shape == "qubits" else rng.choice([1, 2, 3, 3, 4])
    reg = ident(istyle, "reg")
    g = EmuGen(rng, nq, names, sfx, parents, reg)
    header, macros = [], []
    fx = list(FACTOR_LITS)
    ix = None
    aliases = []
    if shape in ("lets", "names") or rng.random() < 0.25:
        nlets = size if shape == "lets" else rng.choice([1, 2, 3])
        fx, ix = [], []
        for i in range(nlets):
            nm = ident(istyle, "let", i)
            if i % 2 == 0:
                v = rng.choice(FACTOR_LITS)
                header.append(f"let {nm} {v}")
                fx.append(nm)
            else:
                v = rng.randrange(-3, 9)
                header.append(f"let {nm} {v}")
                ix.append((nm, v))
                fx.append(nm)
        fx += rng.sample(FACTOR_LITS, 3)
        ix = ix or None
    header.append(f"register {reg}[{nq}]")
    if shape == "names" or rng.random() < 0.2:
        al = ident(istyle, "map")
        header.append(f"map {al} {reg}")
        aliases.append((al, list(range(nq))))
    qx = g.qexprs(aliases)
    subs = []  # list of node lists

    def some(k, **kw):
        return [g.stmt(qx, fx, ix, **kw) for _ in range(k)]

    if shape in ("flat", "qubits", "lets", "names"):
        k = size if shape == "flat" else rng.randrange(6, 13)
        body = some(k)
        if shape == "qubits":  # few active gates, always the highest and the lowest qubit among them
            body = some(8, idle_only=True) + [g.stmt([(f"{reg}[{nq - 1}]", nq - 1)], fx, ix, bases=["X", "SX"]), g.stmt([(f"{reg}[0]", 0), (f"{reg}[{nq - 2}]", nq - 2)], fx, ix, bases=["CX", "NS"]),
                                              g.stmt(qx, fx, ix, bases=["CCX", "SX", "HH"])] + some(8, idle_only=True)
            rng.shuffle(body)
        if shape == "names":
            a, b, s = ident(istyle, "a"), ident(istyle, "b"), ident(istyle, "s")
            mname = ident(istyle, "macro", 1)
            qa, qb = (rng.sample(range(nq), 2) if nq > 1 else [0, 0])
            mq = [(a, qa)] + ([(b, qb)] if nq > 1 else [])
            mbody = [g.stmt(mq, [s, "2.5"], ix) for _ in range(4)]
            macros.append(("macro " + mname + f" {a} {b} {s} {{", mbody))
            f = rng.choice(fx)
            call = f"{mname} {reg}[{qa}] {reg}[{qb}] {f}"
            body.insert(rng.randrange(len(body) + 1), ("raw", call, call, flatten(mbody)))
        subs.append(body)
    elif shape == "nest":
        def build(d, seq):
            if d == 0:
                return some(rng.choice([1, 2]))
            if seq:
                return some(rng.choice([0, 1])) + [("par", build_par(d - 1))] + some(rng.choice([0, 1]))
            return [("seq", build(d - 1, True))]

        def build_par(d):
            branches = [("seq", build(d, True))] if d > 0 else [g.stmt(qx, fx, ix)]
            for _ in range(rng.choice([1, 1, 2])):
                branches.insert(rng.randrange(len(branches) + 1), g.stmt(qx, fx, ix, idle_only=True))
            return branches

        # each level = one sequential and one parallel bracket: size counts brackets
        subs.append([("seq", build(size // 2, True))] if size % 2 == 0 else build(size // 2 + 1, True))
    elif shape == "loop":
        if size >= 16 and rng.random() < 0.4:
            k1 = rng.choice([2, 4, 8])
            subs.append(some(1) + [("loop", k1, some(1) + [("loop", size // k1, some(3))])] + some(1))
        else:
            subs.append(some(1) + [("loop", size, some(rng.choice([2, 3, 4])))] + some(1))
    elif shape == "subs":
        for _ in range(size):
            subs.append(some(rng.choice([1, 2, 3])))
    elif shape == "chain":
        a, b, s = ident(istyle, "a"), ident(istyle, "b"), ident(istyle, "s")
        qa, qb = (rng.sample(range(nq), 2) if nq > 1 else [0, 0])
        bind = [qa, qb]
        levels = []
        for k in range(size - 1, -1, -1):  # top-down, the binding may swap at each level
            mq = [(a, bind[0])] + ([(b, bind[1])] if nq > 1 else [])
            pre = [g.stmt(mq, [s, s, "2.5"], ix) for _ in range(rng.choice([0, 1, 1]))]
            post = [g.stmt(mq, [s, s, "-0.0"], ix) for _ in range(rng.choice([0, 1, 1]))]
            swap = rng.random() < 0.5
            levels.append((k, pre, post, swap))
            if swap:
                bind = [bind[1], bind[0]]
        ops_pre, ops_post = [], []
        for k, pre, post, swap in levels:
            ops_pre += flatten(pre)
        for k, pre, post, swap in reversed(levels):
            ops_post += flatten(post)
        for k, pre, post, swap in reversed(levels):  # define m0 first
            inner = []
            if k > 0:
                ct = f"{ident(istyle, 'macro', k - 1)} {b if swap else a} {a if swap else b} {s}"
                inner = [("raw", ct, ct, [])]
            macros.append(("macro " + ident(istyle, "macro", k) + f" {a} {b} {s} {{", pre + inner + post))
        f = rng.choice(fx)
        call = f"{ident(istyle, 'macro', size - 1)} {reg}[{qa}] {reg}[{qb}] {f}"
        subs.append(some(1) + [("raw", call, call, ops_pre + ops_post)] + some(1))
    else:
        raise ValueError(shape)
    texts = {}
    for wh in ("full", "plain"):
        lines = list(header)
        for head, body in macros:
            lines += [head] + render(body, wh, " ") + ["}"]
        for body in subs:
            lines += ["prepare_all"] + render(body, wh) + ["measure_all"]
        texts[wh] = "\n".join(lines) + "\n"
    return texts["full"], texts["plain"], [flatten(b) for b in subs], nq, dict(g.count)


def simulate(nq, ops):
    """Independent state-vector simulation: bit i of the state index is qubit i; bit j of a matrix index is the gate's j-th qubit."""
    np = real()["np"]
    from harness import gates as HG
    U = {"X": HG.U_X, "Y": HG.U_Y, "Z": HG.U_Z, "S": HG.U_S, "SX": HG.U_SX, "P": HG.U_P, "PF": HG.U_P, "CX": HG.U_CX, "CZ": HG.U_CZ, "SWAP": HG.U_SWAP,
         "ISWAP": HG.U_ISWAP, "HH": HG.U_HH, "NS": HG.U_NS, "CCX": HG.U_CCX, "ROT3": HG.U_ROT3}
    psi = np.zeros([2] * nq, dtype=complex)
    psi[(0,) * nq] = 1
    for b, qs, cargs in ops:
        k = len(qs)
        m = U[b](*cargs).reshape([2] * (2 * k))
        axes = [nq - 1 - q for q in reversed(qs)]
        psi = np.tensordot(m, psi, axes=(list(range(k, 2 * k)), axes))
        psi = np.moveaxis(psi, list(range(k)), axes)
    return psi.reshape(-1)


ENTRIES = ["default", "backend", "emulator_backend", "force_sim", "direct"]


def lib_states(text, gates, entry):
    np = real()["np"]
    from jaqalpaq.parser import parse_jaqal_string
    from jaqalpaq.emulator import run_jaqal_circuit
    from jaqalpaq.emulator.unitary import UnitarySerializedEmulator
    with warnings.catch_warnings():
        warnings.simplefilter("ignore")
        c = parse_jaqal_string(text, inject_pulses=gates, autoload_pulses=False)
        if entry == "default":
            r = run_jaqal_circuit(c)
        elif entry == "backend":
            r = run_jaqal_circuit(c, backend=UnitarySerializedEmulator())
        elif entry == "emulator_backend":
            r = run_jaqal_circuit(c, emulator_backend=UnitarySerializedEmulator())
        elif entry == "force_sim":
            r = run_jaqal_circuit(c, None, True)
        else:
            from jaqalpaq.core.algorithm import expand_macros, fill_in_let, expand_subcircuits
            r = UnitarySerializedEmulator()(expand_macros(fill_in_let(expand_subcircuits(c)))).execute()
        return [np.array(s.state_vector) for s in r.subcircuits]


def _try_states(text, gates, entry):
    JE = real()["JaqalError"]
    try:
        st, v = guarded(lambda: lib_states(text, gates, entry), 2)
        return ("hang", "no answer within the limit") if st == "hang" else ("ok", v)
    except JE as e:
        return "jerr", f"JaqalError: {str(e)[:160]}"
    except Exception as e:  # noqa: BLE001
        return "exc", f"{type(e).__name__}: {str(e)[:160]}"


def _close(a, b):
    np = real()["np"]
    return len(a) == len(b) and all(x.shape == y.shape and np.allclose(x, y, atol=1e-9, rtol=0) for x, y in zip(a, b))


def check_emu_case(case, note=None):
    res = []
    full_t, plain_t, ops, nq, counts = gen_emu_program(case)
    _names, full_g, plain_g, _sfx, _p = emu_gate_sets(case["gstyle"], case["setup"])
    ref = [simulate(nq, o) for o in ops]
    hp, plain = _try_states(plain_t, plain_g, case["entry"])
    base_ok = hp == "ok" and _close(plain, ref)
    if not base_ok:
        if note is not None:
            note("emu:base_run_differs(not C18)")
            note(f"emu:base_run_differs:{hp}:{case['shape']}")
        return res
    hf, full = _try_states(full_t, full_g, case["entry"])
    where = f"emulator ({case['entry']}) on a {case['shape']} program of size {case['size']}, {nq} qubits, gate names {case['gstyle']}, gate set {case['setup']}, {counts}"
    if hf != "ok":
        res.append(("emulator_idle_stretch", False, f"{where}: with idle / stretched gates {full}; without them the program runs.  Program:\n{full_t[:700]}"))
    else:
        ok = _close(full, plain)
        d = ""
        if not ok:
            np = real()["np"]
            k = next((i for i, (x, y) in enumerate(zip(full, plain)) if not np.allclose(x, y, atol=1e-9, rtol=0)), 0) if len(full) == len(plain) else -1
            d = (f"{where}: {len(full)} subcircuits vs {len(plain)}" if k < 0 else
                 f"{where}: subcircuit {k} state {np.round(full[k], 4).tolist()[:8]} differs from the state without idle gates / with the parents {np.round(plain[k], 4).tolist()[:8]}") + f".  Program:\n{full_t[:700]}"
        res.append(("emulator_idle_stretch", ok, d))
    return res


# ====================================================================================================== protocol
CHECKS = {"value": check_value_case, "sig": check_sig_case, "idle": check_idle_case, "stretch": check_stretch_case,
          "npstretch": check_numpy_stretch_case, "emu": check_emu_case}
PART_ORACLE = {"value": "accept_iff_kind", "sig": "accept_iff_kind", "idle": "idle_derived", "stretch": "stretch_variant",
               "npstretch": "stretch_variant", "emu": "emulator_idle_stretch"}


def run_case(case, note=None):
    """-> [(oracle, ok, detail)]; anything escaping the check (the library refusing to BUILD what the property says exists,
    a hang) is a failure of the part's oracle."""
    part = case["part"]
    try:
        if part == "emu":
            return check_emu_case(case, note)
        st, res = guarded(lambda: CHECKS[part](case), 2)
        if st == "hang":
            return [(PART_ORACLE[part], False, "no answer within the time limit")]
        return res
    except Exception as e:  # noqa: BLE001
        import traceback
        tb = traceback.extract_tb(e.__traceback__)
        where = next((f"{os.path.basename(f.filename)}:{f.lineno}" for f in reversed(tb) if "jaqalpaq" in f.filename), "")
        return [(PART_ORACLE[part], False, f"building / inspecting the case raised {type(e).__name__}: {str(e)[:200]} {where}")]


def bucket(n):
    for t in THRESH + [512, 1024]:
        if n < t:
            return f"<{t}"
    return ">=1024"


def gen_cases(seed, n, thorough):
    rng = random.Random(seed)
    reps = max(1, round(n / 100)) * (3 if thorough else 1)
    cases = []

    def S():
        return rng.randrange(10 ** 9)

    # ---- values: every kind x every value, several (via, arity, position) each; the stretch position of stretched variants
    specs = value_specs()
    svias = [v for v in VIAS if is_stretched(v)]
    for kind in KINDS:
        for spec, sort in specs:
            for _ in range(2 * reps + 1):
                nn = rng.choice([1, 1, 2, 3, 3, 5])
                via = rng.choice(VIAS)
                if via == "macro" and kind is not None:
                    via = "direct"
                cases.append({"part": "value", "seed": S(), "kind": kind, "spec": spec, "sort": sort, "via": via, "n": nn, "pos": rng.choice([0, nn - 1, rng.randrange(nn)]),
                              "pstyle": rng.choice(PARAM_STYLES), "rawnone": rng.random() < 0.3, "gname": style_name(rng.choice(GATE_STYLES), rng.randrange(30))})
    for spec, sort in specs:
        for via in svias:
            cases.append({"part": "value", "seed": S(), "kind": "FLOAT", "spec": spec, "sort": sort, "via": via, "n": rng.choice([0, 1, 2, 4]), "pos": "stretch",
                          "pstyle": rng.choice(PARAM_STYLES), "gname": style_name(rng.choice(GATE_STYLES), rng.randrange(30))})
    # ---- signatures at scale
    sizes = [0, 1, 2, 3] + [t + d for t in THRESH for d in (-1, 0, 1)]
    if thorough:
        sizes += [512, 999, 1000, 1023, 1024, 1025]
    for N in sizes:
        for via in VIAS:
            for _ in range(reps):
                cases.append({"part": "sig", "seed": S(), "n": N, "via": via, "pstyle": rng.choice(PARAM_STYLES),
                              "kmode": rng.choice(["mixed", "mixed", "INT", "FLOAT", "QUBIT", "REGISTER", "untyped"]), "noparams": rng.random() < 0.5,
                              "gname": style_name(rng.choice(GATE_STYLES), rng.randrange(30))})
    # ---- idle gates of large / oddly named sets
    msizes = [1, 7, 9, 16, 33, 64, 129, 257] + ([1000] if thorough else [])
    for m in msizes:
        for style in GATE_STYLES:
            for _ in range(reps if m < 200 else 1):
                cases.append({"part": "idle", "seed": S(), "m": m, "style": style, "default_unitary": rng.random() < 0.3})
    # ---- stretched gates: every option combination x idle mode x name style (small sets), then one dimension large
    for oi, opts in enumerate(STRETCH_OPTS):
        for mode in ("none", "added", "idle_only", "idle_first"):
            for style in GATE_STYLES:
                for _ in range(reps):
                    cases.append({"part": "stretch", "seed": S(), "m": rng.choice([1, 2, 3, 5, 9]), "style": style, "opts": opts, "idle": mode})
    for m in msizes[3:]:
        for _ in range(2 * reps):
            cases.append({"part": "stretch", "seed": S(), "m": m, "style": rng.choice(GATE_STYLES), "opts": rng.choice(STRETCH_OPTS),
                          "idle": rng.choice(["none", "added", "idle_only", "idle_first"])})
    for ncl in [t + d for t in THRESH for d in (-1, 0, 1)] + ([1000] if thorough else []):
        cases.append({"part": "stretch", "seed": S(), "m": 2, "style": rng.choice(GATE_STYLES), "opts": rng.choice(STRETCH_OPTS),
                      "idle": rng.choice(["none", "added", "idle_only", "idle_first"]), "ncl": ncl})
    for opts in STRETCH_OPTS:
        for idle in (False, True):
            if (opts.get("suffix") or "") in ("_all", "0"):
                continue
            cases.append({"part": "npstretch", "seed": S(), "opts": opts, "idle": idle})
    # ---- emulator
    dims = {"flat": [9, 17, 33, 65, 129, 257], "nest": [8, 16, 20, 32, 40], "loop": [8, 16, 34, 64, 128, 256], "chain": [9, 17, 33, 65],
            "lets": [9, 17, 33, 49, 64, 100, 256], "subs": [8, 16, 34, 64, 128], "qubits": [10, 11, 12], "names": [1]}
    if thorough:
        dims["flat"] += [1000]
        dims["nest"] += [64, 100]
        dims["chain"] += [100, 130]
        dims["qubits"] += [13, 14]
        dims["lets"] += [1000]

    def emu(shape, size, **kw):
        c = {"part": "emu", "seed": S(), "shape": shape, "size": size, "istyle": rng.choice(IDENT_STYLES), "gstyle": rng.choice(GATE_STYLES),
             "setup": rng.choice(EMU_SETUPS), "entry": rng.choice(ENTRIES)}
        c.update(kw)
        return c

    for shape, szs in dims.items():
        for size in szs:
            k = reps if (shape != "chain" or size < 60) else 1
            for _ in range(2 * k if size < 300 else 1):
                cases.append(emu(shape, size))
    for gstyle in GATE_STYLES:  # the small cross: every name style x every way of building the gate set, entry points in turn
        for si, setup in enumerate(EMU_SETUPS):
            for _ in range(reps):
                cases.append(emu(rng.choice(["flat", "names", "nest", "loop"]), rng.choice([1, 3, 6]), gstyle=gstyle, setup=setup))
    for istyle in IDENT_STYLES:
        for entry in ENTRIES:
            cases.append(emu("names", 1, istyle=istyle, entry=entry))
    return cases


def run(seed: int, n: int, driver: str = DEFAULT_DRIVER, thorough: bool = False) -> dict:
    real()
    oracle = {k: {"cases": 0, "failures": []} for k in ["accept_iff_kind", "kw_eq_pos", "reject_is_JaqalError", "idle_derived", "stretch_variant", "emulator_idle_stretch"]}
    dist, samples, distinct = {}, [], set()

    def hit(k, c=1):
        dist[k] = dist.get(k, 0) + c

    cases = gen_cases(seed, n, thorough)
    seen_sample = set()
    for case in cases:
        part = case["part"]
        distinct.add(canon(case))
        hit(f"part:{part}")
        if part == "value":
            hit(f"value:sort_{case['sort']}")
            hit(f"value:via_{case['via']}")
            hit(f"value:kind_{case['kind']}")
            hit("value:position_stretch" if case["pos"] == "stretch" else "value:position_first" if case["pos"] == 0 else "value:position_later")
            w = fits("FLOAT" if case["pos"] == "stretch" else case["kind"], case["spec"], case["sort"])
            hit(f"value:expect_{'gray(no verdict)' if w is None else 'accept' if w else 'refuse'}")
        elif part == "sig":
            hit(f"sig:params{bucket(case['n'])}")
            hit(f"sig:via_{case['via']}")
            hit(f"sig:names_{case['pstyle']}")
        elif part == "idle":
            hit(f"idle:gates{bucket(case['m'])}")
            hit(f"idle:names_{case['style']}")
        elif part == "stretch":
            hit(f"stretch:gates{bucket(case['m'])}")
            hit(f"stretch:idle_{case['idle']}")
            hit("stretch:opts_" + (",".join(f"{k}={'long' if isinstance(v, str) and len(v) > 20 else v!r}" for k, v in case["opts"].items()) or "none"))
            if "ncl" in case:
                hit(f"stretch:classical_args{bucket(case['ncl'])}")
        elif part == "emu":
            hit(f"emu:{case['shape']}{bucket(case['size'])}" if case["shape"] != "qubits" else f"emu:qubits_{case['size']}")
            hit(f"emu:entry_{case['entry']}")
            hit(f"emu:setup_{case['setup']}")
            hit(f"emu:gate_names_{case['gstyle']}")
            hit(f"emu:identifiers_{case['istyle']}")
        res = run_case(case, hit)
        for name, ok, detail in res:
            o = oracle[name]
            o["cases"] += 1
            if not ok:
                o["n_failures"] = o.get("n_failures", 0) + 1
                # keep failures of different kinds: at most 6 per (part, via/shape) among the first 20
                key = (name, part, case.get("via", case.get("shape", case.get("idle"))))
                if len(o["failures"]) < 20 and sum(1 for f in o["failures"] if f["_k"] == key) < 6:
                    o["failures"].append({"case": dict(case, kind_of_case=name), "detail": detail, "_k": key})
        if part not in seen_sample or (part == "emu" and case["shape"] not in seen_sample):
            seen_sample.add(part)
            seen_sample.add(case.get("shape"))
            if len(samples) < 10:
                samples.append(case)
    for o in oracle.values():
        for f in o["failures"]:
            f.pop("_k", None)
    return {"corr": {}, "oracle": oracle, "distribution": dict(sorted(dist.items())), "samples": samples, "nontrivial": len(distinct)}


def replay(case: dict, driver: str = DEFAULT_DRIVER) -> dict:
    real()
    name = case.get("kind_of_case")
    c = {k: v for k, v in case.items() if k != "kind_of_case"}
    if c.get("part") not in CHECKS:
        return {"model": None, "impl": None, "oracle_ok": None, "detail": f"cannot replay a case of part {c.get('part')}"}
    notes = []
    res = run_case(c, notes.append)
    bad = [d for nm, ok, d in res if not ok and (name is None or nm == name)]
    mine = [1 for nm, ok, d in res if name is None or nm == name]
    if not mine and notes:
        return {"model": None, "impl": None, "oracle_ok": None, "detail": "the run without idle / stretched gates deviates from the reference: not a C18 case"}
    return {"model": None, "impl": None, "oracle_ok": not bad, "detail": bad[0] if bad else "", "n_checks": len(mine), "n_failed": len(bad)}


def main(argv=None):
    import argparse
    import time
    ap = argparse.ArgumentParser()
    ap.add_argument("--seed", type=int, default=0)
    ap.add_argument("--n", type=int, default=100)
    ap.add_argument("--thorough", action="store_true")
    a = ap.parse_args(argv)
    t = time.time()
    res = run(a.seed, a.n, thorough=a.thorough)
    bad = 0
    for name, r in res["oracle"].items():
        print(f"oracle {name:24} cases={r['cases']:7} failures={r.get('n_failures', 0)}")
        bad += len(r["failures"])
        for f in r["failures"][:3]:
            print("      ", f["detail"][:600].replace("\n", " / "))
            print("       case:", canon(f["case"])[:300])
    print("distribution:", canon(res["distribution"]))
    print("nontrivial distinct cases:", res["nontrivial"], f"time {time.time() - t:.1f}s")
    return 1 if bad else 0


if __name__ == "__main__":
    sys.exit(main())
